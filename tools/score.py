#!/venv/bin/python
"""score.py [PROP ...]: baseline + seeded mutants (own property) + benign refactors (own property) per property."""
import glob, json, os, shutil, subprocess, sys, tempfile
from concurrent.futures import ThreadPoolExecutor
VERIF = os.path.dirname(os.path.dirname(os.path.abspath(__file__)))
props = [a for a in sys.argv[1:] if not a.startswith('--')] or [f"C{i:02d}" for i in range(1, 21)]
verbose = '--v' in sys.argv
def run(prop, patch):
    tmp = tempfile.mkdtemp(prefix='sc-', dir='/tmp')
    try:
        shutil.copytree('/repo/pytrs', f'{tmp}/pytrs', ignore=shutil.ignore_patterns('__pycache__'))
        if patch:
            p = subprocess.run(['git', 'apply', '--unsafe-paths', f'--directory={tmp}', patch], cwd='/', capture_output=True, text=True)
            if p.returncode != 0:
                return 99, ['patch failed']
        q = subprocess.run(['/venv/bin/python', '-m', 'vstatic', prop, '--repo', tmp, '--evidence-dir', f'{tmp}/ev'], cwd=VERIF, capture_output=True, text=True)
        lines = [l.strip() for l in q.stdout.splitlines() if l.startswith(('  rule=', 'ANALYSIS-ERROR'))]
        und = [l.strip() for l in q.stdout.splitlines() if l.startswith('  undecided')]
        return q.returncode, lines, und
    finally:
        shutil.rmtree(tmp, ignore_errors=True)
tot_c = tot_m = tot_fa = tot_b = 0
for prop in props:
    jobs = [('BASE', None)]
    for d in sorted(glob.glob(f'{VERIF}/seeded/{prop}-*')):
        jobs.append((os.path.basename(d), d + '/patch.diff'))
    for d in sorted(glob.glob(f'{VERIF}/seeded_benign/{prop}-*')):
        jobs.append((os.path.basename(d), d + '/patch.diff'))
    with ThreadPoolExecutor(12) as ex:
        res = list(ex.map(lambda j: (j[0], run(prop, j[1])), jobs))
    caught, missed, fa, silent = [], [], [], []
    for name, r in res:
        rc, lines = r[0], r[1]
        und = r[2] if len(r) > 2 else []
        if name == 'BASE':
            base = (rc, lines, und)
        elif '-b' in name or name.split('-')[1].startswith(('r3b','r4b')):
            (fa if rc != 0 else silent).append((name, rc, lines, und))
        else:
            (caught if rc == 1 else missed).append((name, rc, lines, und))
    print(f"== {prop}: base rc={base[0]} undecided={len(base[2])}  mutants {len(caught)}/{len(caught)+len(missed)}  benign false alarms {len(fa)}/{len(fa)+len(silent)}")
    if base[0] != 0:
        for l in base[1][:6]: print('   BASE', l[:200])
    for name, rc, lines, und in missed:
        print(f"   missed {name} rc={rc} {(' | '.join(lines))[:160]}" + (f"  [undecided: {len(und)}]" if und else ''))
    for name, rc, lines, und in fa:
        print(f"   FALSE-ALARM {name} rc={rc} {(' | '.join(lines))[:300]}")
    if verbose:
        for name, rc, lines, und in caught:
            print(f"   caught {name} {(' | '.join(lines))[:200]}")
        for name, rc, lines, und in silent:
            if und: print(f"   silent {name} undecided: {(' | '.join(und))[:200]}")
    tot_c += len(caught); tot_m += len(missed); tot_fa += len(fa); tot_b += len(fa) + len(silent)
print(f"TOTAL mutants caught {tot_c}/{tot_c+tot_m}; benign false alarms {tot_fa}/{tot_b}")
