#!/venv/bin/python
"""Run every check against every confirmed benign refactor (scratch copy); any non-zero exit is a false alarm."""
import glob, json, os, shutil, subprocess, sys, tempfile
from concurrent.futures import ThreadPoolExecutor
VERIF = os.path.dirname(os.path.dirname(os.path.abspath(__file__)))
args = [a for a in sys.argv[1:] if not a.startswith('--')]
own = '--own' in sys.argv
ONLY = [a.split('=', 1)[1] for a in sys.argv[1:] if a.startswith('--only=')]     # run just these checks on every variant
built = sorted(os.path.basename(f)[:-3].upper() for f in glob.glob(f'{VERIF}/vstatic/rules/c[0-9][0-9].py'))
def one(d):
    name = os.path.basename(d); pid = name.split('-')[0]
    tmp = tempfile.mkdtemp(prefix=f'ben-{name}-', dir='/tmp')
    try:
        shutil.copytree('/repo/pytrs', f'{tmp}/pytrs', ignore=shutil.ignore_patterns('__pycache__'))
        p = subprocess.run(['git', 'apply', '--unsafe-paths', f'--directory={tmp}', f'{d}/patch.diff'], cwd='/', capture_output=True, text=True)
        if p.returncode != 0:
            return name, {'error': 'patch failed'}
        res = {}
        for pr in (ONLY or ([pid] if own else built)):
            q = subprocess.run(['/venv/bin/python', '-m', 'vstatic', pr, '--repo', tmp, '--evidence-dir', f'{tmp}/ev'], cwd=VERIF, capture_output=True, text=True)
            if q.returncode != 0:
                res[pr] = (q.returncode, [l.strip() for l in q.stdout.splitlines() if l.startswith(('  rule=', 'ANALYSIS-ERROR'))][:4])
        return name, res
    finally:
        shutil.rmtree(tmp, ignore_errors=True)
dirs = [d for d in sorted(glob.glob(f'{VERIF}/seeded_benign/C*')) if not args or any(os.path.basename(d).startswith(a) for a in args)]
with ThreadPoolExecutor(12) as ex:
    results = list(ex.map(one, dirs))
bad = 0
for name, res in results:
    if res:
        bad += 1
        print(f"{name}: FALSE ALARM {json.dumps(res)[:600]}")
    else:
        print(f"{name}: silent")
print(f"false alarms on {bad} / {len(results)} benign refactors")
