#!/venv/bin/python
"""
Confirm round-2 sub-agent output under /tmp/wt2/out/<ID>/{m1..3,b1..3}:
 mutants  -> /verif/seeded/<ID>-r2mK/  (tests pass with patch, demo fails with / passes without)
 benign   -> /verif/seeded_benign/<ID>-bK/ (tests pass with patch, equiv.py prints the same on both trees)
"""
import json, os, shutil, subprocess, sys, glob
OUT = os.environ.get('ROUND_OUT', '/tmp/wt2/out')
RTAG = os.environ.get('ROUND_TAG', 'r2')
only = sys.argv[1:]

def sh(cmd, cwd=None, timeout=900):
    try:
        p = subprocess.run(cmd, shell=True, cwd=cwd, capture_output=True, text=True, timeout=timeout)
        return p.returncode, (p.stdout + p.stderr)
    except subprocess.TimeoutExpired:
        return 124, 'TIMEOUT'

def clean(o):
    return '\n'.join(l for l in o.splitlines() if 'conda' not in l)

head = subprocess.run('git -C /repo rev-parse --short HEAD', shell=True, capture_output=True, text=True).stdout.strip()
for d in sorted(glob.glob(f'{OUT}/C*/[mb]*')):
    pid = d.split('/')[-2]; k = d.split('/')[-1]
    if only and pid not in only:
        continue
    kind = 'mutant' if k.startswith('m') else 'benign'
    name = f'{pid}-{RTAG}{k}' if kind == 'mutant' else (f'{pid}-{k}' if RTAG == 'r2' else f'{pid}-{RTAG}{k}')
    dest = f'/verif/seeded/{name}' if kind == 'mutant' else f'/verif/seeded_benign/{name}'
    if os.path.exists(f'{dest}/meta.json'):
        continue
    script = 'demo.py' if kind == 'mutant' else 'equiv.py'
    if not (os.path.exists(f'{d}/patch.diff') and os.path.exists(f'{d}/{script}')):
        print(name, 'INCOMPLETE'); continue
    wt = f'/tmp/confirm/{name}'
    sh(f'git -C /repo worktree remove --force {wt}')
    os.makedirs('/tmp/confirm', exist_ok=True)
    sh(f'git -C /repo worktree add -q {wt} HEAD')
    try:
        rc, o = sh(f'git apply {d}/patch.diff', cwd=wt)
        if rc != 0:
            print(name, 'PATCH DOES NOT APPLY', o[-200:]); continue
        rc, o = sh('/venv/bin/python -m pytest -q -p no:cacheprovider -x 2>&1 | tail -3', cwd=wt)
        tests_ok = '244 passed' in o
        tline = o.strip().splitlines()[-1] if o.strip() else ''
        rc1, o1 = sh(f'timeout 300 /venv/bin/python {d}/{script}', cwd=wt, timeout=400)
        sh('git checkout -- . && git clean -fdq', cwd=wt)
        rc2, o2 = sh(f'timeout 300 /venv/bin/python {d}/{script}', cwd=wt, timeout=400)
        if kind == 'mutant':
            ok = tests_ok and rc1 != 0 and rc2 == 0
        else:
            ok = tests_ok and rc1 == 0 and rc2 == 0 and clean(o1) == clean(o2)
        print(name, 'CONFIRMED' if ok else 'REJECTED', tline, rc1, rc2, '' if kind == 'mutant' else ('same-output' if clean(o1) == clean(o2) else 'OUTPUT DIFFERS'))
        if ok:
            os.makedirs(dest, exist_ok=True)
            shutil.copy(f'{d}/patch.diff', f'{dest}/patch.diff')
            shutil.copy(f'{d}/{script}', f'{dest}/{script}')
            notes = {}
            try: notes = json.load(open(f'{d}/notes.json'))
            except Exception: pass
            meta = {'property': pid, 'kind': kind, 'round': int(RTAG[1:]),
                    ('breaks' if kind == 'mutant' else 'refactor'): notes.get('summary', ''),
                    ('needs' if kind == 'mutant' else 'why_equivalent'): notes.get('needs', notes.get('why_equivalent', '')),
                    'files': notes.get('files', []),
                    'origin': 'independent sub-agent given only the property text and a scratch worktree (round 2: after the checks existed, still blind to /verif)',
                    'confirmed_against_repo_head': head,
                    'ran': [f'git apply patch.diff (scratch worktree of /repo@{head})', f'pytest: {tline}',
                            f'{script} with patch: exit {rc1}', f'{script} without patch: exit {rc2}'] + ([] if kind == 'mutant' else ['equiv.py output identical on both trees']),
                    'detected_by': None}
            json.dump(meta, open(f'{dest}/meta.json', 'w'), indent=1)
    finally:
        sh(f'git -C /repo worktree remove --force {wt}')
