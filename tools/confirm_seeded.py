#!/venv/bin/python
"""
Confirm sub-agent mutants: for each /tmp/wt/out/<ID>/m<k>/ apply the patch in a
scratch worktree of /repo HEAD, run the test suite (must pass), run the demo
(must fail), undo, run the demo (must pass).  Confirmed ones are stored under
/verif/seeded/<ID>-m<k>/ (patch.diff, demo.py, meta.json).
"""
import json, os, shutil, subprocess, sys, glob
OUT = '/tmp/wt/out'
SEEDED = '/verif/seeded'
only = sys.argv[1:]

def sh(cmd, cwd=None, timeout=900):
    try:
        p = subprocess.run(cmd, shell=True, cwd=cwd, capture_output=True, text=True, timeout=timeout)
        return p.returncode, (p.stdout + p.stderr)
    except subprocess.TimeoutExpired:
        return 124, 'TIMEOUT'

head = subprocess.run('git -C /repo rev-parse --short HEAD', shell=True, capture_output=True, text=True).stdout.strip()
for d in sorted(glob.glob(f'{OUT}/C*/m*')):
    pid = d.split('/')[-2]; mk = d.split('/')[-1]
    name = f'{pid}-{mk}'
    if only and pid not in only and name not in only:
        continue
    dest = f'{SEEDED}/{name}'
    if os.path.exists(f'{dest}/meta.json'):
        continue
    if not (os.path.exists(f'{d}/patch.diff') and os.path.exists(f'{d}/demo.py')):
        print(name, 'INCOMPLETE'); continue
    wt = f'/tmp/confirm/{name}'
    sh(f'git -C /repo worktree remove --force {wt}')
    os.makedirs('/tmp/confirm', exist_ok=True)
    rc, o = sh(f'git -C /repo worktree add -q {wt} HEAD')
    res = {'applies': False}
    try:
        rc, o = sh(f'git apply {d}/patch.diff', cwd=wt)
        if rc != 0:
            rc, o = sh(f'git apply --3way {d}/patch.diff', cwd=wt)
        res['applies'] = rc == 0
        if rc != 0:
            print(name, 'PATCH DOES NOT APPLY', o[-300:]); continue
        rc, o = sh('/venv/bin/python -m pytest -q -p no:cacheprovider -x 2>&1 | tail -3', cwd=wt)
        res['tests_with_patch'] = o.strip().splitlines()[-1] if o.strip() else ''
        tests_ok = '244 passed' in o
        rc1, o1 = sh(f'timeout 300 /venv/bin/python {d}/demo.py', cwd=wt, timeout=400)
        res['demo_with_patch_rc'] = rc1
        sh('git checkout -- . && git clean -fdq', cwd=wt)
        rc2, o2 = sh(f'timeout 300 /venv/bin/python {d}/demo.py', cwd=wt, timeout=400)
        res['demo_without_patch_rc'] = rc2
        ok = tests_ok and rc1 != 0 and rc2 == 0
        print(name, 'CONFIRMED' if ok else 'REJECTED', res)
        if ok:
            os.makedirs(dest, exist_ok=True)
            shutil.copy(f'{d}/patch.diff', f'{dest}/patch.diff')
            shutil.copy(f'{d}/demo.py', f'{dest}/demo.py')
            notes = {}
            try: notes = json.load(open(f'{d}/notes.json'))
            except Exception: pass
            meta = {'property': pid, 'breaks': notes.get('summary', ''), 'needs': notes.get('needs', ''),
                    'files': notes.get('files', []), 'origin': 'independent sub-agent given only the property text and a scratch worktree',
                    'confirmed_against_repo_head': head,
                    'ran': [f'git apply patch.diff (scratch worktree of /repo@{head})',
                            f"pytest: {res['tests_with_patch']}",
                            f"demo.py with patch: exit {rc1}", f"demo.py without patch: exit {rc2}"],
                    'detected_by': None}
            json.dump(meta, open(f'{dest}/meta.json', 'w'), indent=1)
    finally:
        sh(f'git -C /repo worktree remove --force {wt}')
