#!/venv/bin/python
"""
Run the checks against every seeded mutant (scratch copy of /repo/pytrs with
the patch applied; /repo itself is not touched) and report which are caught.
usage: run_seeded.py [--all-props] [ID-prefix ...]
"""
import glob, json, os, shutil, subprocess, sys, tempfile
from concurrent.futures import ThreadPoolExecutor
VERIF = os.path.dirname(os.path.dirname(os.path.abspath(__file__)))
args = [a for a in sys.argv[1:] if not a.startswith('--')]
allprops = '--all-props' in sys.argv
update = '--update-meta' in sys.argv
built = sorted(os.path.basename(f)[:-3].upper() for f in glob.glob(f'{VERIF}/vstatic/rules/c[0-9][0-9].py'))

def one(d):
    name = os.path.basename(d)
    pid = name.split('-')[0]
    tmp = tempfile.mkdtemp(prefix=f'mut-{name}-', dir='/tmp')
    try:
        shutil.copytree('/repo/pytrs', f'{tmp}/pytrs', ignore=shutil.ignore_patterns('__pycache__'))
        p = subprocess.run(['git', 'apply', '--unsafe-paths', f'--directory={tmp}', f'{d}/patch.diff'],
                           cwd='/', capture_output=True, text=True)
        if p.returncode != 0:
            p = subprocess.run(f'cd {tmp} && patch -p1 -s < {d}/patch.diff', shell=True, capture_output=True, text=True)
            if p.returncode != 0:
                return name, {'error': 'patch failed: ' + (p.stderr or p.stdout)[-200:]}
        props = built if allprops else ([pid] if pid in built else [])
        res = {}
        for pr in props:
            q = subprocess.run(['/venv/bin/python', '-m', 'vstatic', pr, '--repo', tmp, '--evidence-dir', f'{tmp}/ev'],
                               cwd=VERIF, capture_output=True, text=True)
            lines = [l for l in q.stdout.splitlines() if l.startswith(('  rule=', 'ANALYSIS-ERROR'))]
            res[pr] = (q.returncode, lines[:3])
        return name, res
    finally:
        shutil.rmtree(tmp, ignore_errors=True)

dirs = [d for d in sorted(glob.glob(f'{VERIF}/seeded/C*')) if not args or any(os.path.basename(d).startswith(a) for a in args)]
with ThreadPoolExecutor(12) as ex:
    results = list(ex.map(one, dirs))
caught = 0; total = 0
for name, res in results:
    pid = name.split('-')[0]
    if 'error' in res:
        print(f"{name}: {res['error']}"); continue
    if not res:
        print(f"{name}: (no check built for {pid})"); total += 1; continue
    total += 1
    hit = [pr for pr, (rc, _) in res.items() if rc == 1]
    err = [pr for pr, (rc, _) in res.items() if rc == 2]
    if hit: caught += 1
    detail = '; '.join(f"{pr}: {' | '.join(l.strip() for l in ls)}" for pr, (rc, ls) in res.items() if rc != 0)
    print(f"{name}: {'CAUGHT by ' + ','.join(hit) if hit else 'missed'}{' ANALYSIS-ERROR in ' + ','.join(err) if err else ''} {detail[:260]}")
    if update:
        mp = f'{VERIF}/seeded/{name}/meta.json'
        m = json.load(open(mp)); m['detected_by'] = hit or None
        m['analysis_error_in'] = err or None
        json.dump(m, open(mp, 'w'), indent=1)
print(f"caught {caught} / {total}")
