#!/venv/bin/python
"""Regenerate /verif/MANIFEST.json from the rule modules' META blocks."""
import importlib, json, os, sys
HERE = os.path.dirname(os.path.dirname(os.path.abspath(__file__)))
sys.path.insert(0, HERE)
props = [json.loads(l) for l in open(os.path.join(HERE, 'properties.jsonl'))]
checks, na = [], []
for p in props:
    pid = p['id']
    try:
        mod = importlib.import_module(f"vstatic.rules.{pid.lower()}")
    except ModuleNotFoundError:
        mod = None
    if mod is None or getattr(mod, 'META', {}).get('not_applicable'):
        reason = (mod.META['not_applicable'] if mod else
                  "check not built yet (see DESIGN.md section 5 for the planned static rule)")
        na.append({'property_id': pid, 'reason': reason})
        continue
    M = mod.META
    checks.append({
        'property_id': pid,
        'quick_cmd': f"/venv/bin/python -m vstatic {pid} --tier quick",
        'thorough_cmd': f"/venv/bin/python -m vstatic {pid} --tier thorough",
        'evidence_file': f"/verif/evidence/{pid}.json",
        'replay_cmd_template': "/venv/bin/python -m vstatic --replay {path}",
        'engine': 'vstatic',
        'level_claimed': {
            'category': 'other',
            'text': M.get('level_text') or M['explanation'],
            'design_ref': M.get('design_ref', f"DESIGN.md section 5 ({pid})"),
        },
        'level_note': M.get('level_note') or '; '.join(M.get('assumptions', [])) or 'see DESIGN.md',
        'technique': M.get('technique', 'repository-specific static analysis (ast + re._parser): ' + ', '.join(M.get('families', []))),
    })
manifest = {
    'version': 1,
    'setup_cmd': "/venv/bin/python -m compileall -q vstatic",
    'hooks': {
        'guard': 'PYTRS_VERIF',
        'enable': "none needed: the checks only read /repo's source (static analysis); nothing is compiled in or executed, so no hook exists in /repo",
        'baseline_off_cmd': "cd /repo && /venv/bin/python -m pytest -ra -q -p no:cacheprovider --timeout=900 --continue-on-collection-errors",
        'source_commits': [],
        'add_only': True,
    },
    'engines': [{
        'name': 'vstatic',
        'path': '/verif/vstatic',
        'serves_properties': [c['property_id'] for c in checks],
        'kind_free_text': "repository-specific static analyser: ast source model, constant folder for the regex/table sub-language, regex toolkit (exact membership on constants, group facts, Glushkov automaton ambiguity analysis, language inclusion), statement CFG / reaching definitions; never imports or runs pytrs",
    }],
    'checks': checks,
    'notes': ("Every check is static: it parses /repo/pytrs on each run and decides rule instances on the source. "
              "Verdicts are tri-state per rule instance: ok / violation (semantic fact or recognised-bad shape: exit 1 with a VIOLATION line) / "
              "undecided (construct present but shape not recognised: exit 0, counted and listed in the evidence). "
              "Exit 2 + 'ANALYSIS-ERROR' only when a primary anchor (a function / class / regex / file the property itself names) vanished or on an internal error. "
              "Known findings: /verif/known_findings.json. Each check decides the named structural clauses of its property "
              "(necessary conditions), not the behaviour as a whole; the declined clauses are listed per property in DESIGN.md section 5/6."),
    'not_applicable': na,
}
json.dump(manifest, open(os.path.join(HERE, 'MANIFEST.json'), 'w'), indent=1, ensure_ascii=False)
print(f"{len(checks)} checks, {len(na)} not applicable")
