"""
Partial evaluation of small string computations of the analysed source on
CONSTANT inputs chosen by a rule (witness texts): `lt.split('L')[-1]`,
`re.sub(r'[\\s.]', '', q).upper()`, `RX.search(lt).group()`, `int(...)` ...

Nothing of the repository is executed: the expression's AST is interpreted
here, string methods are applied to the constants by this module, and regex
operations go through ``rx.Lang`` (the model of the folded pattern), never
through the repo's compiled objects.  Anything outside the supported subset
raises ``Unsupported`` - the calling rule then reports *undecided*.
"""

import ast

from . import AnalysisError, rx
from .srcmodel import dotted

_STR_METHODS_0 = ('upper', 'lower', 'strip', 'lstrip', 'rstrip', 'title', 'capitalize', 'casefold', 'swapcase',
                  'isdigit', 'isalpha', 'isnumeric', 'isdecimal', 'isspace', 'split', 'rsplit')
_STR_METHODS_N = ('strip', 'lstrip', 'rstrip', 'replace', 'split', 'rsplit', 'partition', 'rpartition', 'startswith',
                  'endswith', 'removeprefix', 'removesuffix', 'zfill', 'rjust', 'ljust', 'center', 'find', 'rfind',
                  'count', 'index', 'join')


class Unsupported(Exception):
    pass


class Match:
    def __init__(self, s, start, end):
        self.s, self.start, self.end = s, start, end

    def group0(self):
        return self.s[self.start:self.end]


class StrEval:
    def __init__(self, ctx, fi, env=None, hooks=None):
        """env: name -> constant; hooks: callables (node, self) -> value or NotImplemented"""
        self.ctx, self.fi = ctx, fi
        self.env = dict(env or {})
        self.hooks = list(hooks or [])
        self.defs = {}
        if fi is not None:
            from .srcmodel import walk_local
            for st in walk_local(fi.node):
                if isinstance(st, ast.Assign) and len(st.targets) == 1 and isinstance(st.targets[0], ast.Name):
                    self.defs.setdefault(st.targets[0].id, []).append(st.value)

    # -- regex helpers ---------------------------------------------------
    def _regex(self, node):
        """(pattern, flags) of the regex an expression denotes"""
        from .rules.common import fold_in_func
        if isinstance(node, ast.Constant) and isinstance(node.value, str):
            return node.value, 0

        def compute():
            try:
                return fold_in_func(self.ctx, self.fi, node) if self.fi is not None else None
            except AnalysisError:
                return None
        v = self.ctx.cache(('streval-fold', self.fi.fullname if self.fi is not None else None, ast.unparse(node)), compute)
        if isinstance(v, str):
            return v, 0
        if v is not None and hasattr(v, 'pattern') and isinstance(v.pattern, str):
            return v.pattern, int(getattr(v, 'flags', 0) or 0)
        raise Unsupported(f"regex `{ast.unparse(node)[:40]}` does not fold")

    def _search(self, pat, flags, s, mode):
        L = rx.Lang(pat, flags)
        if mode == 'fullmatch':
            return Match(s, 0, len(s)) if L.fullmatch(s) else None
        starts = [0] if mode == 'match' else range(len(s) + 1)
        for i in starts:
            e = L.first_end(s, i)
            if e is not None:
                return Match(s, i, e)
        return None

    def _folded(self, node):
        from .rules.common import fold_in_func
        from .fold import is_unknown

        def compute():
            try:
                return fold_in_func(self.ctx, self.fi, node) if self.fi is not None else None
            except AnalysisError:
                return None
        v = self.ctx.cache(('streval-fold', self.fi.fullname if self.fi is not None else None, ast.unparse(node)), compute)
        if v is None or is_unknown(v):
            raise Unsupported(f"`{ast.unparse(node)[:40]}` does not fold")
        if isinstance(v, (str, int, tuple, list, dict, set, frozenset, bool)):
            return v
        raise Unsupported(f"`{ast.unparse(node)[:40]}` is not a plain constant")

    # -- evaluation ------------------------------------------------------
    def ev(self, e, depth=0):
        if depth > 25:
            raise Unsupported('depth')
        for h in self.hooks:
            r = h(e, self)
            if r is not NotImplemented:
                return r
        d = depth + 1
        if isinstance(e, ast.Constant):
            return e.value
        if isinstance(e, ast.Name):
            if e.id in self.env:
                return self.env[e.id]
            if e.id in self.defs and len(self.defs[e.id]) == 1:
                return self.ev(self.defs[e.id][0], d)
            return self._folded(e)
        if isinstance(e, ast.Attribute) and dotted(e) and not isinstance(e.ctx, ast.Store):
            root = e
            while isinstance(root, ast.Attribute):
                root = root.value
            if isinstance(root, ast.Name) and root.id not in self.env and root.id not in self.defs:
                return self._folded(e)
        if isinstance(e, ast.BoolOp):
            last = None
            for x in e.values:
                last = self.ev(x, d)
                if isinstance(e.op, ast.And) and not last:
                    return last
                if isinstance(e.op, ast.Or) and last:
                    return last
            return last
        if isinstance(e, ast.UnaryOp) and isinstance(e.op, ast.Not):
            return not self.ev(e.operand, d)
        if isinstance(e, ast.JoinedStr):
            out = ''
            for part in e.values:
                if isinstance(part, ast.Constant):
                    out += str(part.value)
                elif isinstance(part, ast.FormattedValue) and part.format_spec is None and part.conversion == -1:
                    out += str(self.ev(part.value, d))
                else:
                    raise Unsupported('format spec')
            return out
        if isinstance(e, ast.BinOp) and isinstance(e.op, ast.Add):
            a, b = self.ev(e.left, d), self.ev(e.right, d)
            if type(a) is type(b) and isinstance(a, (str, int, list, tuple)):
                return a + b
            raise Unsupported('+ on mixed types')
        if isinstance(e, ast.Subscript):
            base = self.ev(e.value, d)
            if isinstance(base, Match):
                k = self.ev(e.slice, d)
                if k == 0:
                    return base.group0()
                raise Unsupported('match group other than 0')
            if isinstance(e.slice, ast.Slice):
                lo = self.ev(e.slice.lower, d) if e.slice.lower is not None else None
                hi = self.ev(e.slice.upper, d) if e.slice.upper is not None else None
                st = self.ev(e.slice.step, d) if e.slice.step is not None else None
                if isinstance(base, (str, list, tuple)) and all(x is None or isinstance(x, int) for x in (lo, hi, st)):
                    return base[lo:hi:st]
                raise Unsupported('slice')
            k = self.ev(e.slice, d)
            if isinstance(base, (str, list, tuple)) and isinstance(k, int) and not isinstance(k, bool):
                if -len(base) <= k < len(base):
                    return base[k]
                raise Unsupported('IndexError')
            if isinstance(base, dict) and isinstance(k, (str, int)):
                if k in base:
                    return base[k]
                raise Unsupported('KeyError')
            raise Unsupported('subscript')
        if isinstance(e, ast.Call):
            f = e.func
            name = dotted(f)
            if name in ('int', 'str', 'len', 'bool') and len(e.args) == 1 and not e.keywords:
                v = self.ev(e.args[0], d)
                try:
                    if name == 'int' and isinstance(v, (str, int)):
                        return int(v)
                    if name == 'str' and isinstance(v, (str, int)):
                        return str(v)
                    if name == 'len' and isinstance(v, (str, list, tuple, dict)):
                        return len(v)
                    if name == 'bool':
                        return bool(v)
                except ValueError:
                    raise Unsupported(f"ValueError: int({v!r})")
                raise Unsupported(name)
            if name == 're.split' and len(e.args) == 2:
                pat, flags = self._regex(e.args[0])
                s_ = self.ev(e.args[1], d)
                if not isinstance(s_, str):
                    raise Unsupported('subject is not a string')
                L = rx.Lang(pat, flags)
                out, i, last = [], 0, 0
                while i <= len(s_):
                    en = L.first_end(s_, i)
                    if en is None or en == i:
                        i += 1
                        continue
                    out.append(s_[last:i])
                    last = i = en
                out.append(s_[last:])
                return out
            if name in ('re.sub', 're.search', 're.match', 're.fullmatch'):
                pat, flags = self._regex(e.args[0])
                if name == 're.sub':
                    rep, s = self.ev(e.args[1], d), self.ev(e.args[2], d)
                    if isinstance(rep, str) and isinstance(s, str):
                        return rx.Lang(pat, flags).sub(rep, s)
                    raise Unsupported('re.sub arguments')
                s = self.ev(e.args[1], d)
                if not isinstance(s, str):
                    raise Unsupported('subject is not a string')
                return self._search(pat, flags, s, name.split('.')[1])
            if isinstance(f, ast.Attribute):
                # compiled regex object?
                if f.attr in ('search', 'match', 'fullmatch', 'sub') and not isinstance(f.value, ast.Constant):
                    try:
                        pat, flags = self._regex(f.value)
                    except Unsupported:
                        pat = None
                    if pat is not None:
                        if f.attr == 'sub':
                            rep, s = self.ev(e.args[0], d), self.ev(e.args[1], d)
                            if isinstance(rep, str) and isinstance(s, str):
                                return rx.Lang(pat, flags).sub(rep, s)
                            raise Unsupported('sub arguments')
                        s = self.ev(e.args[0], d)
                        if not isinstance(s, str):
                            raise Unsupported('subject is not a string')
                        return self._search(pat, flags, s, f.attr)
                base = self.ev(f.value, d)
                if isinstance(base, Match):
                    if f.attr == 'group' and (not e.args or self.ev(e.args[0], d) == 0):
                        return base.group0()
                    if f.attr in ('start', 'end') and not e.args:
                        return getattr(base, f.attr)
                    raise Unsupported(f"match.{f.attr}")
                if base is None:
                    raise Unsupported(f"AttributeError: None.{f.attr}")
                if isinstance(base, str):
                    args = [self.ev(a, d) for a in e.args]
                    if e.keywords:
                        raise Unsupported('keyword arguments')
                    if (not args and f.attr in _STR_METHODS_0) or (args and f.attr in _STR_METHODS_N):
                        try:
                            return getattr(base, f.attr)(*args)
                        except (TypeError, ValueError) as ex:
                            raise Unsupported(f"{type(ex).__name__}: {ex}")
                raise Unsupported(f"call .{f.attr}")
            raise Unsupported(f"call {name}")
        if isinstance(e, ast.IfExp):
            return self.ev(e.body, d) if self.ev(e.test, d) else self.ev(e.orelse, d)
        if isinstance(e, ast.Compare) and len(e.ops) == 1:
            a, b = self.ev(e.left, d), self.ev(e.comparators[0], d)
            op = e.ops[0]
            try:
                if isinstance(op, ast.Eq):
                    return a == b
                if isinstance(op, ast.NotEq):
                    return a != b
                if isinstance(op, ast.In):
                    return a in b
                if isinstance(op, ast.NotIn):
                    return a not in b
                if isinstance(op, ast.Is):
                    return a is b
                if isinstance(op, ast.IsNot):
                    return a is not b
            except TypeError:
                pass
            raise Unsupported('comparison')
        if isinstance(e, (ast.Tuple, ast.List)):
            return [self.ev(x, d) for x in e.elts]
        raise Unsupported(type(e).__name__)
