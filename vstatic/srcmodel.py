"""
Source model: every ``*.py`` under ``<repo>/pytrs`` parsed with ``ast``;
module table, class table (with bases), function table keyed by qualified
name, parent links, normalised statement text (``ast.unparse``) for keys.
Nothing is imported or executed.
"""

import ast
import hashlib
import os

from . import AnalysisError

PKG = 'pytrs'


class Module:
    def __init__(self, name, path, relpath, source):
        self.name = name              # dotted, e.g. pytrs.parser.rgxlib.sec
        self.path = path
        self.relpath = relpath        # relative to repo root
        self.source = source
        self.sha256 = hashlib.sha256(source.encode('utf-8')).hexdigest()
        self.tree = ast.parse(source, filename=path)
        self.is_package = os.path.basename(path) == '__init__.py'
        for node in ast.walk(self.tree):
            for child in ast.iter_child_nodes(node):
                child._parent = node
        self.tree._parent = None
        self.tree._module = self

    @property
    def package(self):
        return self.name if self.is_package else self.name.rpartition('.')[0]


class FuncInfo:
    def __init__(self, qualname, node, module, cls, outer):
        self.qualname = qualname      # module-relative: Class.meth.inner
        self.node = node
        self.module = module
        self.cls = cls                # ClassInfo or None (direct owner)
        self.outer = outer            # enclosing FuncInfo or None

    @property
    def fullname(self):
        return f"{self.module.name}:{self.qualname}"

    @property
    def loc(self):
        return f"{self.module.relpath}:{self.node.lineno}"

    def params(self):
        a = self.node.args
        return [x.arg for x in a.posonlyargs + a.args + a.kwonlyargs]

    def param_defaults(self):
        """name -> default expr (or None when there is none)."""
        a = self.node.args
        pos = a.posonlyargs + a.args
        out = {x.arg: None for x in pos + a.kwonlyargs}
        for x, d in zip(pos[len(pos) - len(a.defaults):], a.defaults):
            out[x.arg] = d
        for x, d in zip(a.kwonlyargs, a.kw_defaults):
            out[x.arg] = d
        return out

    def __repr__(self):
        return f"<func {self.fullname}>"


class ClassInfo:
    def __init__(self, name, node, module):
        self.name = name
        self.node = node
        self.module = module
        self.methods = {}             # name -> FuncInfo
        self.base_exprs = node.bases

    @property
    def fullname(self):
        return f"{self.module.name}:{self.name}"


class Repo:
    def __init__(self, root):
        self.root = root
        self.modules = {}
        self.funcs = {}               # fullname -> FuncInfo
        self.classes = {}             # fullname -> ClassInfo
        self.moved_anchors = {}       # anchor spec -> where it was found instead
        pkg_root = os.path.join(root, PKG)
        if not os.path.isdir(pkg_root):
            raise AnalysisError(f"no package directory {pkg_root}")
        for dirpath, dirnames, filenames in os.walk(pkg_root):
            dirnames[:] = sorted(d for d in dirnames if d != '__pycache__')
            for fn in sorted(filenames):
                if not fn.endswith('.py'):
                    continue
                path = os.path.join(dirpath, fn)
                rel = os.path.relpath(path, root)
                parts = rel[:-3].split(os.sep)
                if parts[-1] == '__init__':
                    parts = parts[:-1]
                name = '.'.join(parts)
                with open(path, encoding='utf-8') as fh:
                    src = fh.read()
                try:
                    mod = Module(name, path, rel, src)
                except SyntaxError as e:
                    raise AnalysisError(f"cannot parse {rel}: {e}")
                self.modules[name] = mod
                self._index(mod)

    # ------------------------------------------------------------------
    def _index(self, mod):
        def visit(body, prefix, cls, outer):
            for st in body:
                if isinstance(st, (ast.FunctionDef, ast.AsyncFunctionDef)):
                    q = f"{prefix}{st.name}"
                    fi = FuncInfo(q, st, mod, cls, outer)
                    st._func = fi
                    self.funcs[fi.fullname] = fi
                    if cls is not None and outer is None:
                        cls.methods.setdefault(st.name, fi)
                    visit_nested(st.body, q + '.', None, fi)
                elif isinstance(st, ast.ClassDef):
                    q = f"{prefix}{st.name}"
                    ci = ClassInfo(q, st, mod)
                    st._class = ci
                    self.classes[ci.fullname] = ci
                    visit(st.body, q + '.', ci, None)
                else:
                    # defs nested in if/try/with at this level
                    for sub in _sub_bodies(st):
                        visit(sub, prefix, cls, outer)

        def visit_nested(body, prefix, cls, outer):
            for st in body:
                if isinstance(st, (ast.FunctionDef, ast.AsyncFunctionDef)):
                    q = f"{prefix}{st.name}"
                    fi = FuncInfo(q, st, mod, None, outer)
                    st._func = fi
                    self.funcs[fi.fullname] = fi
                    visit_nested(st.body, q + '.', None, fi)
                elif isinstance(st, ast.ClassDef):
                    q = f"{prefix}{st.name}"
                    ci = ClassInfo(q, st, mod)
                    st._class = ci
                    self.classes[ci.fullname] = ci
                    visit(st.body, q + '.', ci, None)
                else:
                    for sub in _sub_bodies(st):
                        visit_nested(sub, prefix, cls, outer)

        visit(mod.tree.body, '', None, None)

    # ------------------------------------------------------------------
    def module(self, suffix):
        """Module by dotted-name suffix (must be unique)."""
        hits = [m for n, m in self.modules.items()
                if n == suffix or n.endswith('.' + suffix)]
        if len(hits) != 1:
            raise AnalysisError(
                f"module {suffix!r}: {len(hits)} candidates "
                f"({[m.name for m in hits]})")
        return hits[0]

    def func(self, spec):
        """
        Function by 'modsuffix:Qual.name' or by bare qualified-name suffix.
        Must be unique; a vanished anchor is an AnalysisError.
        """
        hits = self.find_funcs(spec)
        q = spec.split(':', 1)[-1]
        exact = [h for h in hits if h.qualname == q]
        if len(exact) == 1:
            return exact[0]
        if len(hits) == 0 and q.count('.') >= 1:
            # a nested helper / method that was moved (made a method, a static
            # method, a module-level function, given a leading underscore):
            # accept it if its bare name is still unique in the package
            last = q.split('.')[-1].lstrip('_')
            moved = [f for f in self.funcs.values() if f.node.name.lstrip('_') == last]
            if msuf_ok := [f for f in moved if ':' not in spec or f.module.name.endswith(spec.split(':', 1)[0])]:
                moved = msuf_ok
            if len(moved) == 1:
                self.moved_anchors[spec] = moved[0].fullname
                return moved[0]
        if len(hits) == 0 and ':' in spec and q.count('.') == 0:
            # a module-level function that was moved to another module (and, usually, imported back):
            # accept it if its name is still unique among the module-level functions of the package
            moved = [f for f in self.funcs.values() if f.qualname == q]
            if len(moved) == 1:
                self.moved_anchors[spec] = moved[0].fullname
                return moved[0]
        if len(hits) == 0:
            from . import roles
            found = roles.relocate(self, spec)
            if found is not None:
                self.moved_anchors[spec] = found.fullname
                return found
        if len(hits) != 1:
            raise AnalysisError(
                f"function anchor {spec!r}: {len(hits)} candidates "
                f"({[h.fullname for h in hits][:6]})")
        return hits[0]

    def find_funcs(self, spec):
        if ':' in spec:
            msuf, q = spec.split(':', 1)
        else:
            msuf, q = None, spec
        out = []
        for full, fi in self.funcs.items():
            m, fq = full.split(':', 1)
            if msuf is not None and not (m == msuf or m.endswith('.' + msuf)):
                continue
            if fq == q or fq.endswith('.' + q):
                out.append(fi)
        return out

    def cls(self, spec):
        if ':' in spec:
            msuf, q = spec.split(':', 1)
        else:
            msuf, q = None, spec
        hits = []
        for full, ci in self.classes.items():
            m, cq = full.split(':', 1)
            if msuf is not None and not (m == msuf or m.endswith('.' + msuf)):
                continue
            if cq == q:
                hits.append(ci)
        if len(hits) != 1:
            raise AnalysisError(
                f"class anchor {spec!r}: {len(hits)} candidates")
        return hits[0]

    def mro(self, ci):
        """Linearised bases (simple left-to-right DFS; the repo has no
        diamonds). Bases that are not repo classes are ignored."""
        out = [ci]
        for b in ci.base_exprs:
            name = None
            if isinstance(b, ast.Name):
                name = b.id
            elif isinstance(b, ast.Attribute):
                name = b.attr
            if name is None:
                continue
            for full, c2 in self.classes.items():
                if c2.name == name:
                    for x in self.mro(c2):
                        if x not in out:
                            out.append(x)
                    break
        return out

    def find_method(self, ci, name):
        for c in self.mro(ci):
            if name in c.methods:
                return c.methods[name]
        return None

    def class_members(self, ci):
        """All names that are members of instances of ci: methods,
        properties, class-level assignments, and ``self.x = ...`` stores in
        any method of the MRO."""
        names = set()
        for c in self.mro(ci):
            for st in c.node.body:
                if isinstance(st, (ast.FunctionDef, ast.AsyncFunctionDef)):
                    names.add(st.name)
                elif isinstance(st, ast.Assign):
                    for t in st.targets:
                        if isinstance(t, ast.Name):
                            names.add(t.id)
                elif isinstance(st, ast.AnnAssign) and isinstance(st.target, ast.Name):
                    names.add(st.target.id)
            for fi in c.methods.values():
                selfname = fi.params()[0] if fi.params() else None
                for n in ast.walk(fi.node):
                    if (isinstance(n, ast.Attribute)
                            and isinstance(n.ctx, ast.Store)
                            and isinstance(n.value, ast.Name)
                            and n.value.id == selfname):
                        names.add(n.attr)
        return names

    def stats(self):
        return {
            'files': len(self.modules),
            'functions': len(self.funcs),
            'classes': len(self.classes),
        }

    def digests(self, only=None):
        return {m.relpath: m.sha256[:16] for m in self.modules.values()
                if only is None or any(m.relpath.endswith(o) for o in only)}


def _sub_bodies(st):
    out = []
    for fld in ('body', 'orelse', 'finalbody'):
        b = getattr(st, fld, None)
        if isinstance(b, list) and b and isinstance(b[0], ast.stmt):
            out.append(b)
    for h in getattr(st, 'handlers', []) or []:
        out.append(h.body)
    return out


# ----------------------------------------------------------------------
# small AST helpers shared by the rules

def unparse(node):
    try:
        return ast.unparse(node)
    except Exception:               # pragma: no cover
        return '<unparse failed>'


def norm(node):
    """Normalised text of a node (whitespace/quote style independent)."""
    return ' '.join(unparse(node).split())


def parent(node):
    return getattr(node, '_parent', None)


def enclosing_stmt(node):
    n = node
    while n is not None and not isinstance(n, ast.stmt):
        n = parent(n)
    return n


def enclosing_func(node):
    n = parent(node)
    while n is not None and not isinstance(
            n, (ast.FunctionDef, ast.AsyncFunctionDef, ast.Lambda)):
        n = parent(n)
    return n


def body_list_of(stmt):
    """(list, index) of the statement list containing stmt."""
    p = parent(stmt)
    if p is None:
        return None, None
    for fld in ('body', 'orelse', 'finalbody'):
        b = getattr(p, fld, None)
        if isinstance(b, list) and stmt in b:
            return b, b.index(stmt)
    for h in getattr(p, 'handlers', []) or []:
        if stmt in h.body:
            return h.body, h.body.index(stmt)
    return None, None


def walk_local(func_node):
    """Walk a function body without descending into nested defs/lambdas/
    classes (their bodies belong to other scopes)."""
    stack = list(func_node.body)
    while stack:
        n = stack.pop()
        yield n
        if isinstance(n, (ast.FunctionDef, ast.AsyncFunctionDef,
                          ast.ClassDef, ast.Lambda)):
            # the def node itself is visible, its body is another scope
            continue
        for c in ast.iter_child_nodes(n):
            stack.append(c)


def dotted(node):
    """'a.b.c' for Name/Attribute chains, else None."""
    parts = []
    while isinstance(node, ast.Attribute):
        parts.append(node.attr)
        node = node.value
    if isinstance(node, ast.Name):
        parts.append(node.id)
        return '.'.join(reversed(parts))
    return None


def call_name(call):
    """Dotted name of the callee of an ast.Call (or None)."""
    return dotted(call.func)


def is_docstring(st):
    return (isinstance(st, ast.Expr) and isinstance(st.value, ast.Constant)
            and isinstance(st.value.value, str))


def guards(node, stop=None):
    """
    Conditions controlling ``node`` inside its function: list of
    (test_expr, polarity) from innermost to outermost enclosing ``if`` /
    ``while`` (polarity False for the else branch), stopping at the function
    (or ``stop``).
    """
    out = []
    child = node
    p = parent(node)
    while p is not None and p is not stop and not isinstance(
            p, (ast.FunctionDef, ast.AsyncFunctionDef, ast.Lambda, ast.Module,
                ast.ClassDef)):
        if isinstance(p, (ast.If, ast.While)):
            if child in p.body:
                out.append((p.test, True))
            elif child in p.orelse:
                out.append((p.test, False))
        elif isinstance(p, ast.IfExp):
            if child is p.body:
                out.append((p.test, True))
            elif child is p.orelse:
                out.append((p.test, False))
        child = p
        p = parent(p)
    return out


def _constlike(e):
    return isinstance(e, ast.Constant) or (isinstance(e, ast.Name) and e.id.isupper()) \
        or (isinstance(e, ast.Attribute) and e.attr.isupper())


def literals(guard_list):
    """
    Atomic facts implied by a list of (test, polarity) guards, in a canonical
    spelling so that equivalent ways of writing a condition compare equal:
    ``not``, ``and`` under True / ``or`` under False are split up; ``!=``,
    ``is not``, ``not in`` become the positive operator with flipped
    polarity; a constant on the left of a symmetric comparison is moved to
    the right.  Returns a list of (expr, text, polarity); ``expr`` keeps the
    original operand nodes (so they can be handed to the flow analysis).
    """
    out = []

    def go(test, pol):
        if isinstance(test, ast.UnaryOp) and isinstance(test.op, ast.Not):
            return go(test.operand, not pol)
        if isinstance(test, ast.BoolOp):
            if (isinstance(test.op, ast.And) and pol) or (isinstance(test.op, ast.Or) and not pol):
                for v in test.values:
                    go(v, pol)
                return
            out.append((test, norm(test), pol))
            return
        if isinstance(test, ast.Compare) and len(test.ops) == 1:
            l, op, r = test.left, test.ops[0], test.comparators[0]
            if isinstance(op, (ast.Eq, ast.NotEq, ast.Is, ast.IsNot)) and _constlike(l) and not _constlike(r):
                l, r = r, l
            neg = {ast.NotEq: ast.Eq, ast.IsNot: ast.Is, ast.NotIn: ast.In}
            if type(op) in neg:
                op = neg[type(op)]()
                pol = not pol
            new = ast.Compare(left=l, ops=[op], comparators=[r])
            out.append((new, norm(new), pol))
            return
        out.append((test, norm(test), pol))
        # a condition that was given a name first (`spent = used or x in [None, ERR]` ... `if not
        # spent:`): the facts of the named expression hold as well
        if isinstance(test, ast.Name) and depth[0] < 3:
            fn = getattr(test, '_parent', None)
            while fn is not None and not isinstance(fn, (ast.FunctionDef, ast.AsyncFunctionDef)):
                fn = getattr(fn, '_parent', None)
            if fn is not None and test.id not in {a.arg for a in fn.args.args + fn.args.kwonlyargs}:
                defs = [a for a in walk_local(fn) if isinstance(a, ast.Assign) and len(a.targets) == 1
                        and isinstance(a.targets[0], ast.Name) and a.targets[0].id == test.id]
                stores = sum(1 for x in walk_local(fn) if isinstance(x, ast.Name) and isinstance(x.ctx, ast.Store) and x.id == test.id)
                if len(defs) == 1 and stores == 1 and defs[0].lineno <= getattr(test, 'lineno', 10 ** 9) \
                        and isinstance(defs[0].value, (ast.BoolOp, ast.Compare, ast.UnaryOp)):
                    depth[0] += 1
                    go(defs[0].value, pol)
                    depth[0] -= 1
    depth = [0]
    for t, p in guard_list:
        go(t, p)
    return out


def _always_exits(body):
    if not body:
        return False
    last = body[-1]
    if isinstance(last, (ast.Return, ast.Raise, ast.Continue, ast.Break)):
        return True
    if isinstance(last, ast.If):
        return bool(last.orelse) and _always_exits(last.body) and _always_exits(last.orelse)
    return False


def facts_at(node, stop=None):
    """
    Canonical literals (see ``literals``) known to hold when ``node`` runs:
    the enclosing if/while conditions plus the negations of earlier guard
    clauses (``if c: return/raise/continue/break`` preceding the statement in
    one of its enclosing blocks).  Names re-assigned between the guard clause
    and the node invalidate that clause.
    """
    gl = list(guards(node, stop))
    st = node
    while st is not None and not isinstance(st, ast.stmt):
        st = parent(st)
    while st is not None and not isinstance(st, (ast.FunctionDef, ast.AsyncFunctionDef, ast.Module, ast.ClassDef)):
        p = parent(st)
        if p is None or p is stop:
            break
        for field in ('body', 'orelse', 'finalbody'):
            bl = getattr(p, field, None)
            if isinstance(bl, list) and st in bl:
                i = bl.index(st)
                for j, prev in enumerate(bl[:i]):
                    if isinstance(prev, ast.If) and not prev.orelse and _always_exits(prev.body):
                        names = {n.id for n in ast.walk(prev.test) if isinstance(n, ast.Name)}
                        killed = any(isinstance(x, ast.Name) and isinstance(x.ctx, ast.Store) and x.id in names
                                     for mid in bl[j + 1:i] for x in ast.walk(mid))
                        if not killed:
                            gl.append((prev.test, False))
                break
        if isinstance(p, (ast.For, ast.While)) and isinstance(st, ast.stmt):
            pass
        st = p
        if isinstance(st, (ast.FunctionDef, ast.AsyncFunctionDef, ast.Lambda)):
            break
    return literals(gl)
