"""
Flow toolkit: per-function statement CFG over the statement kinds the repo
uses, dominators, must-pass-through, reaching definitions of local names
and value provenance (which calls / parameters / attributes a use derives
from, transitively through local assignments).
"""

import ast

from . import AnalysisError
from .srcmodel import unparse, norm, parent


class Node:
    __slots__ = ('ast', 'kind', 'id', 'succ', 'pred', 'label')

    def __init__(self, ast_node, kind, nid):
        self.ast = ast_node      # statement, or test/iter expression owner
        self.kind = kind         # 'stmt' | 'test' | 'iter' | 'entry' | 'exit' | 'raise' | 'except'
        self.id = nid
        self.succ = []           # list of (Node, edge_label) ; label in (None,'T','F')
        self.pred = []

    def __repr__(self):
        if self.kind in ('entry', 'exit', 'raise'):
            return f"<{self.kind}>"
        return f"<{self.kind}:{self.id} {norm(self.ast)[:40]}>"


class CFG:
    def __init__(self, func_node):
        self.func = func_node
        self.nodes = []
        self.entry = self._new(None, 'entry')
        self.exit = self._new(None, 'exit')
        self.raise_exit = self._new(None, 'raise')
        self.of_stmt = {}        # ast stmt -> first Node for it
        self._loops = []         # stack of (continue_target, break_list)
        self._handlers = []      # stack of lists of except-entry nodes
        ends = self._body(func_node.body, [(self.entry, None)])
        for n, lab in ends:
            self._edge(n, self.exit, lab)

    # -- construction ---------------------------------------------------
    def _new(self, a, kind):
        n = Node(a, kind, len(self.nodes))
        self.nodes.append(n)
        return n

    def _edge(self, a, b, label=None):
        a.succ.append((b, label))
        b.pred.append((a, label))

    def _connect(self, preds, node):
        for p, lab in preds:
            self._edge(p, node, lab)

    def _may_raise_edges(self, node):
        # any statement inside a try body may jump to the handlers
        if self._handlers:
            for h in self._handlers[-1]:
                self._edge(node, h, 'X')

    def _body(self, stmts, preds):
        for st in stmts:
            preds = self._stmt(st, preds)
        return preds

    def _stmt(self, st, preds):
        if isinstance(st, ast.If):
            t = self._new(st, 'test')
            self.of_stmt[st] = t
            self._connect(preds, t)
            self._may_raise_edges(t)
            a = self._body(st.body, [(t, 'T')])
            b = self._body(st.orelse, [(t, 'F')]) if st.orelse else [(t, 'F')]
            return a + b
        if isinstance(st, ast.While):
            t = self._new(st, 'test')
            self.of_stmt[st] = t
            self._connect(preds, t)
            self._may_raise_edges(t)
            breaks = []
            self._loops.append((t, breaks))
            const_true = isinstance(st.test, ast.Constant) and bool(st.test.value)
            body_end = self._body(st.body, [(t, 'T')])
            self._loops.pop()
            for n, lab in body_end:
                self._edge(n, t, lab)
            out = list(breaks)
            if not const_true:
                if st.orelse:
                    out += self._body(st.orelse, [(t, 'F')])
                else:
                    out.append((t, 'F'))
            return out
        if isinstance(st, (ast.For, ast.AsyncFor)):
            t = self._new(st, 'iter')
            self.of_stmt[st] = t
            self._connect(preds, t)
            self._may_raise_edges(t)
            breaks = []
            self._loops.append((t, breaks))
            body_end = self._body(st.body, [(t, 'T')])
            self._loops.pop()
            for n, lab in body_end:
                self._edge(n, t, lab)
            out = list(breaks)
            if st.orelse:
                out += self._body(st.orelse, [(t, 'F')])
            else:
                out.append((t, 'F'))
            return out
        if isinstance(st, ast.Try):
            hnodes = []
            for h in st.handlers:
                hn = self._new(h, 'except')
                hnodes.append(hn)
            marker = self._new(st, 'stmt')       # try entry
            self.of_stmt[st] = marker
            self._connect(preds, marker)
            self._handlers.append(hnodes)
            self._may_raise_edges(marker)
            body_end = self._body(st.body, [(marker, None)])
            self._handlers.pop()
            if st.orelse:
                body_end = self._body(st.orelse, body_end)
            outs = list(body_end)
            for h, hn in zip(st.handlers, hnodes):
                outs += self._body(h.body, [(hn, None)])
            if st.finalbody:
                outs = self._body(st.finalbody, outs)
            return outs
        if isinstance(st, (ast.With, ast.AsyncWith)):
            n = self._new(st, 'stmt')
            self.of_stmt[st] = n
            self._connect(preds, n)
            self._may_raise_edges(n)
            return self._body(st.body, [(n, None)])
        if isinstance(st, (ast.FunctionDef, ast.AsyncFunctionDef, ast.ClassDef)):
            n = self._new(st, 'stmt')
            self.of_stmt[st] = n
            self._connect(preds, n)
            return [(n, None)]
        # simple statements
        n = self._new(st, 'stmt')
        self.of_stmt[st] = n
        self._connect(preds, n)
        self._may_raise_edges(n)
        if isinstance(st, ast.Return):
            self._edge(n, self.exit)
            return []
        if isinstance(st, ast.Raise):
            if self._handlers:
                return []        # edges to handlers already added
            self._edge(n, self.raise_exit)
            return []
        if isinstance(st, ast.Break):
            if not self._loops:
                raise AnalysisError("break outside loop")
            self._loops[-1][1].append((n, None))
            return []
        if isinstance(st, ast.Continue):
            self._edge(n, self._loops[-1][0])
            return []
        return [(n, None)]

    # -- queries ----------------------------------------------------------
    def node_of(self, stmt):
        n = self.of_stmt.get(stmt)
        if n is None:
            raise AnalysisError("statement not in CFG")
        return n

    def reachable_from(self, start, blocked=(), skip_edge=None):
        seen = set()
        stack = [start]
        blocked = set(blocked)
        while stack:
            n = stack.pop()
            if n in seen:
                continue
            seen.add(n)
            for s, lab in n.succ:
                if skip_edge and skip_edge(n, s, lab):
                    continue
                if s in blocked:
                    continue
                stack.append(s)
        return seen

    def must_pass(self, start, targets, to=None, ignore_exceptions=True, infeasible=None):
        """Every path from ``start`` to ``to`` (default: normal exit) passes
        through a node in ``targets``."""
        to = to or self.exit
        tset = set(targets)
        if start in tset:
            return True
        def skip(a, b, lab):
            if ignore_exceptions and lab == 'X':
                return True
            return bool(infeasible and infeasible(a, b, lab))
        reach = self.reachable_from(start, blocked=tset, skip_edge=skip)
        return to not in reach

    def dominators(self):
        nodes = [n for n in self.reachable_from(self.entry)]
        allset = set(nodes)
        dom = {n: set(allset) for n in nodes}
        dom[self.entry] = {self.entry}
        changed = True
        order = sorted(nodes, key=lambda n: n.id)
        while changed:
            changed = False
            for n in order:
                if n is self.entry:
                    continue
                ps = [p for p, _ in n.pred if p in allset]
                if not ps:
                    continue
                new = set.intersection(*(dom[p] for p in ps)) | {n}
                if new != dom[n]:
                    dom[n] = new
                    changed = True
        return dom

    def precedes_always(self, a_stmt, b_stmt):
        """a dominates b (every path entry -> b goes through a)."""
        a, b = self.node_of(a_stmt), self.node_of(b_stmt)
        return a in self.dominators().get(b, set())


# ----------------------------------------------------------------------
# reaching definitions / provenance

def _targets(t):
    if isinstance(t, ast.Name):
        yield t.id
    elif isinstance(t, (ast.Tuple, ast.List)):
        for e in t.elts:
            yield from _targets(e)
    elif isinstance(t, ast.Starred):
        yield from _targets(t.value)


def defs_of(node):
    """Names (re)bound by CFG node -> list of (name, value_expr or None)."""
    a = node.ast
    out = []
    if node.kind == 'stmt':
        if isinstance(a, ast.Assign):
            for t in a.targets:
                if isinstance(t, ast.Name):
                    out.append((t.id, a.value))
                else:
                    for nm in _targets(t):
                        out.append((nm, ('unpack', a.value)))
        elif isinstance(a, ast.AnnAssign) and a.value is not None:
            for nm in _targets(a.target):
                out.append((nm, a.value))
        elif isinstance(a, ast.AugAssign):
            for nm in _targets(a.target):
                out.append((nm, ('aug', a)))
        elif isinstance(a, (ast.With, ast.AsyncWith)):
            for it in a.items:
                if it.optional_vars is not None:
                    for nm in _targets(it.optional_vars):
                        out.append((nm, it.context_expr))
        elif isinstance(a, (ast.FunctionDef, ast.AsyncFunctionDef, ast.ClassDef)):
            out.append((a.name, None))
        elif isinstance(a, (ast.Import, ast.ImportFrom)):
            for al in a.names:
                out.append(((al.asname or al.name).split('.')[0], None))
    elif node.kind == 'iter':
        for nm in _targets(a.target):
            out.append((nm, ('iter', a.iter)))
    elif node.kind == 'except':
        if a.name:
            out.append((a.name, None))
    for nm, val in _walrus_defs(node):
        if not any(o[0] == nm for o in out):
            out.append((nm, val))
    return out


def _walrus_defs(node):
    """`name := value` inside the expression a CFG node evaluates"""
    a = node.ast
    if a is None or node.kind not in ('stmt', 'test', 'iter'):
        return []
    if node.kind == 'test':
        root = getattr(a, 'test', None)
    elif node.kind == 'iter':
        root = getattr(a, 'iter', None)
    else:
        if isinstance(a, (ast.If, ast.While, ast.For, ast.AsyncFor, ast.Try, ast.With, ast.AsyncWith,
                          ast.FunctionDef, ast.AsyncFunctionDef, ast.ClassDef)):
            return []
        root = a
    if root is None:
        return []
    out = []
    stack = [root]
    while stack:
        x = stack.pop()
        if isinstance(x, (ast.FunctionDef, ast.AsyncFunctionDef, ast.Lambda, ast.ClassDef)):
            continue
        if isinstance(x, ast.NamedExpr) and isinstance(x.target, ast.Name):
            out.append((x.target.id, x.value))
        stack.extend(ast.iter_child_nodes(x))
    return out


class Reaching:
    def __init__(self, cfg, params=()):
        self.cfg = cfg
        self.params = list(params)
        # IN sets: node -> {name: set(def_ids)} ; def id = (node.id, name)
        self.defs = {}      # (node.id, name) -> value expr
        gen = {}
        for n in cfg.nodes:
            g = {}
            for nm, val in defs_of(n):
                g[nm] = (n.id, nm)
                self.defs[(n.id, nm)] = val
            gen[n] = g
        for p in self.params:
            self.defs[('param', p)] = ('param', p)
        IN = {n: {} for n in cfg.nodes}
        OUT = {n: {} for n in cfg.nodes}
        OUT[cfg.entry] = {p: {('param', p)} for p in self.params}
        work = list(cfg.nodes)
        while work:
            n = work.pop()
            if n is cfg.entry:
                new_in = {}
            else:
                new_in = {}
                for p, _ in n.pred:
                    for nm, ds in OUT[p].items():
                        new_in.setdefault(nm, set()).update(ds)
            IN[n] = new_in
            if n is cfg.entry:
                new_out = OUT[n]
            else:
                new_out = {nm: set(ds) for nm, ds in new_in.items()}
                for nm, d in gen[n].items():
                    new_out[nm] = {d}
            if new_out != OUT[n] or n is cfg.entry:
                changed = new_out != OUT[n]
                OUT[n] = new_out
                if changed or n is cfg.entry:
                    for s, _ in n.succ:
                        if s not in work:
                            work.append(s)
        self.IN = IN
        self.OUT = OUT

    def reaching(self, node, name):
        """def ids reaching the *use* of name in CFG node."""
        return set(self.IN[node].get(name, set()))

    def value_exprs(self, node, name):
        return [self.defs[d] for d in self.reaching(node, name)]


def analyse(func_node):
    """(CFG, Reaching) for a function node (cached on the node)."""
    cached = getattr(func_node, '_flow', None)
    if cached is None:
        cfg = CFG(func_node)
        a = func_node.args
        params = [x.arg for x in a.posonlyargs + a.args + a.kwonlyargs]
        if a.vararg:
            params.append(a.vararg.arg)
        if a.kwarg:
            params.append(a.kwarg.arg)
        cached = (cfg, Reaching(cfg, params))
        func_node._flow = cached
    return cached


def stmt_node(cfg, expr_or_stmt):
    """CFG node of the statement (or test/iter header) containing expr."""
    n = expr_or_stmt
    prev = None
    while n is not None:
        if n in cfg.of_stmt:
            node = cfg.of_stmt[n]
            # an expression inside an If/While body list is found at its own
            # statement first, so reaching here with a compound means the
            # expression is in the header (test / iter)
            return node
        prev = n
        n = parent(n)
    raise AnalysisError("expression not inside the function's CFG")


RESOLVER = None      # set by core.Ctx: (dotted name, call node, enclosing func node) -> FunctionDef | None
OPAQUE = None        # dotted name -> bool (a repo function we could not follow)
_ipdepth = [0]


def provenance(func_node, expr, max_depth=12, control=None):
    """
    Source atoms the value of ``expr`` (evaluated where it stands) derives
    from, following local names through reaching definitions:
      ('call', dotted_name, node) ('param', name) ('attr', dotted, node)
      ('const', value) ('sub', text, node) ('other', text, node)
    Calls are recorded AND their arguments / receiver are followed (the
    value flows through the call).
    """
    cfg, rd = analyse(func_node)
    out = set()
    seen = set()

    def visit(e, at_node, depth):
        if depth > max_depth:
            return
        if isinstance(e, tuple):
            tag = e[0]
            if tag == 'param':
                out.add(('param', e[1]))
            elif tag in ('unpack', 'iter'):
                out.add((tag, norm(e[1])))
                visit(e[1], at_node, depth + 1)
            elif tag == 'aug':
                visit(e[1].value, at_node, depth + 1)
                out.add(('aug', norm(e[1])))
            return
        if e is None:
            return
        key = (id(e), at_node.id if at_node else None)
        if key in seen:
            return
        seen.add(key)
        if isinstance(e, ast.Name):
            if isinstance(e.ctx, ast.Load):
                here = [v for nm, v in _walrus_defs(at_node) if nm == e.id] if at_node is not None else []
                if here:
                    # bound by `:=` inside the expression that reads it
                    for v in here:
                        visit(v, at_node, depth + 1)
                    return
                ds = rd.reaching(at_node, e.id)
                if not ds:
                    out.add(('global', e.id))
                for d in ds:
                    val = rd.defs[d]
                    dn = cfg.nodes[d[0]] if d[0] != 'param' else cfg.entry
                    if d[0] == 'param':
                        out.add(('param', d[1]))
                    else:
                        visit(val, dn, depth + 1)
                        if control == 'sentinel' and _is_sentinel(val):
                            # the choice of a constant is decided by the
                            # conditions that guard the assignment
                            from .srcmodel import guards as _guards
                            for test, pol in _guards(dn.ast):
                                owner = test
                                while owner is not None and owner not in cfg.of_stmt:
                                    owner = parent(owner)
                                if owner is not None:
                                    visit(test, cfg.of_stmt[owner], depth + 1)
            return
        if isinstance(e, ast.Constant):
            out.add(('const', repr(e.value)))
            return
        if isinstance(e, ast.Call):
            from .srcmodel import dotted
            nm = dotted(e.func) or (f"<expr>.{e.func.attr}" if isinstance(e.func, ast.Attribute) else '<call>')
            if nm == 'getattr' and len(e.args) >= 2 and dotted(e.args[0]):
                # getattr(obj, 'name') is the attribute obj.name; with a
                # parameter as the name it is resolved at the call site
                base = dotted(e.args[0])
                a1 = e.args[1]
                if isinstance(a1, ast.Constant) and isinstance(a1.value, str):
                    out.add(('attr', f"{base}.{a1.value}", e))
                    for extra in e.args[2:]:
                        visit(extra, at_node, depth + 1)
                    return
                if isinstance(a1, ast.Name):
                    ds = rd.reaching(at_node, a1.id)
                    if ds and all(d[0] == 'param' for d in ds):
                        out.add(('getattr', base, a1.id, e))
                        for extra in e.args[2:]:
                            visit(extra, at_node, depth + 1)
                        return
            out.add(('call', nm, e))
            callee = RESOLVER(nm, e, func_node) if RESOLVER and depth < max_depth - 2 else None
            if callee is not None and callee is not func_node and _ipdepth[0] < 3:
                # follow the value through a local / module-level helper:
                # provenance of its returns, parameters mapped to arguments
                _ipdepth[0] += 1
                try:
                    a = callee.args
                    pnames = [x.arg for x in a.posonlyargs + a.args]
                    if pnames and pnames[0] in ('self', 'cls') and isinstance(e.func, ast.Attribute):
                        pnames = pnames[1:]
                    amap = {}
                    for pn, arg in zip(pnames, e.args):
                        amap[pn] = arg
                    for k in e.keywords:
                        if k.arg:
                            amap[k.arg] = k.value
                    for r in ast.walk(callee):
                        if isinstance(r, ast.Return) and r.value is not None:
                            f = r
                            while f is not None and not isinstance(f, (ast.FunctionDef, ast.AsyncFunctionDef, ast.Lambda)):
                                f = parent(f)
                            if f is not callee:
                                continue
                            for atom in provenance(callee, r.value, max_depth=max_depth, control=control):
                                if atom[0] == 'param' and atom[1] in amap:
                                    visit(amap[atom[1]], at_node, depth + 1)
                                elif atom[0] == 'getattr':
                                    av = amap.get(atom[2])
                                    if isinstance(av, ast.Constant) and isinstance(av.value, str):
                                        out.add(('attr', f"{atom[1]}.{av.value}", e))
                                    else:
                                        out.add(('call', 'getattr', atom[3]))
                                elif atom[0] == 'param':
                                    pass
                                else:
                                    out.add(atom)
                finally:
                    _ipdepth[0] -= 1
            elif callee is None and RESOLVER and OPAQUE and OPAQUE(nm):
                out.add(('opaque', nm))
            if isinstance(e.func, ast.Attribute):
                visit(e.func.value, at_node, depth + 1)
            for a in e.args:
                visit(a.value if isinstance(a, ast.Starred) else a, at_node, depth + 1)
            for k in e.keywords:
                visit(k.value, at_node, depth + 1)
            return
        if isinstance(e, ast.Attribute):
            from .srcmodel import dotted
            d = dotted(e)
            out.add(('attr', d or norm(e), e))
            if d is None:
                visit(e.value, at_node, depth + 1)
            elif not d.startswith(('self.', 'cls.')):
                # obj.attr of a local object: the object's origin matters too
                root = e
                while isinstance(root, ast.Attribute):
                    root = root.value
                if isinstance(root, ast.Name) and rd.reaching(at_node, root.id):
                    visit(root, at_node, depth + 1)
            if d is not None and d.startswith('self.') and d.count('.') == 1 and isinstance(e.ctx, ast.Load):
                # an attribute stored earlier in this same function carries
                # the stored value (self.text = preprocessor.text ... f(self.text))
                for st in ast.walk(func_node):
                    if isinstance(st, ast.Assign) and getattr(st, 'lineno', 0) < getattr(e, 'lineno', 0) \
                            and any(isinstance(t, ast.Attribute) and dotted(t) == d for t in st.targets):
                        owner = st
                        if owner in cfg.of_stmt:
                            visit(st.value, cfg.of_stmt[owner], depth + 1)
            return
        if isinstance(e, ast.Subscript):
            out.add(('sub', norm(e), e))
            visit(e.value, at_node, depth + 1)
            visit(e.slice, at_node, depth + 1)
            return
        for c in ast.iter_child_nodes(e):
            if isinstance(c, (ast.expr,)):
                visit(c, at_node, depth + 1)
            elif isinstance(c, ast.comprehension):
                visit(c.iter, at_node, depth + 1)
                for i in c.ifs:
                    visit(i, at_node, depth + 1)
            elif isinstance(c, ast.FormattedValue):
                visit(c.value, at_node, depth + 1)

    visit(expr, stmt_node(cfg, expr), 0)
    return out


def _is_sentinel(val):
    if isinstance(val, ast.Constant):
        return True
    if isinstance(val, ast.Attribute):
        from .srcmodel import dotted
        d = dotted(val)
        return bool(d) and not d.startswith('self.')
    return False


def prov_calls(prov):
    return {p[1] for p in prov if p[0] == 'call'}


def prov_opaque(prov):
    return {p[1] for p in prov if p[0] == 'opaque'}


def prov_params(prov):
    return {p[1] for p in prov if p[0] == 'param'}


def prov_attrs(prov):
    return {p[1] for p in prov if p[0] == 'attr'}


def _uses_of(node):
    """Name loads evaluated by the CFG node itself (header only for compound
    statements; nested function / lambda / comprehension scopes excluded for
    their own bound names)."""
    a = node.ast
    if a is None:
        return []
    if node.kind == 'test':
        roots = [a.test] if hasattr(a, 'test') else []
    elif node.kind == 'iter':
        roots = [a.iter]
    elif node.kind == 'except':
        roots = [a.type] if getattr(a, 'type', None) is not None else []
    elif node.kind == 'stmt':
        if isinstance(a, (ast.FunctionDef, ast.AsyncFunctionDef)):
            roots = list(a.args.defaults) + [d for d in a.args.kw_defaults if d is not None] + list(a.decorator_list)
        elif isinstance(a, ast.ClassDef):
            roots = list(a.bases) + list(a.decorator_list)
        elif isinstance(a, (ast.With, ast.AsyncWith)):
            roots = [it.context_expr for it in a.items]
        elif isinstance(a, (ast.If, ast.While, ast.For, ast.Try)):
            roots = []
        elif isinstance(a, ast.AugAssign):
            roots = [a.value, a.target]
        else:
            roots = [a]
    else:
        roots = []
    out = []

    def walk(e, bound):
        if isinstance(e, (ast.Lambda,)):
            # the body runs when the lambda is called, not here
            for d in list(e.args.defaults) + [d for d in e.args.kw_defaults if d is not None]:
                walk(d, bound)
            return
        if isinstance(e, (ast.FunctionDef, ast.AsyncFunctionDef, ast.ClassDef)):
            return
        if isinstance(e, (ast.ListComp, ast.SetComp, ast.GeneratorExp, ast.DictComp)):
            b2 = set(bound)
            for i, g in enumerate(e.generators):
                walk(g.iter, b2 if i else bound)
                b2 |= set(_targets(g.target))
                for c in g.ifs:
                    walk(c, b2)
            if isinstance(e, ast.DictComp):
                walk(e.key, b2)
                walk(e.value, b2)
            else:
                walk(e.elt, b2)
            return
        if isinstance(e, ast.Name):
            if isinstance(e.ctx, ast.Load) and e.id not in bound:
                out.append(e)
            elif isinstance(e.ctx, ast.Store) and isinstance(a, ast.AugAssign) and e is a.target and e.id not in bound:
                out.append(e)
            return
        for c in ast.iter_child_nodes(e):
            walk(c, bound)
    for r in roots:
        walk(r, frozenset())
    return out


def possibly_undefined(func_node):
    """
    Definite-assignment analysis: (name node, CFG node) for every read of a
    local variable that some CFG path from the function entry reaches
    without an assignment (UnboundLocalError on that path).  Names that are
    never assigned in the function (globals, builtins, closure variables) and
    names declared global / nonlocal are not local.  Exception edges out of a
    try body are part of the CFG.
    """
    cfg, rd = analyse(func_node)
    gen = {n: {nm for nm, _ in defs_of(n)} for n in cfg.nodes}
    walrus = {n: set() for n in cfg.nodes}
    for n in cfg.nodes:
        # named expressions bind too
        a = n.ast
        if a is not None and n.kind in ('stmt', 'test', 'iter'):
            root = a.test if n.kind == 'test' and hasattr(a, 'test') else a.iter if n.kind == 'iter' else a
            if n.kind == 'stmt' and isinstance(a, (ast.If, ast.While, ast.For, ast.Try, ast.With, ast.FunctionDef, ast.ClassDef)):
                continue
            for x in ast.walk(root):
                if isinstance(x, ast.NamedExpr) and isinstance(x.target, ast.Name):
                    gen[n].add(x.target.id)
                    walrus[n].add(x.target.id)
    locals_ = set()
    for g in gen.values():
        locals_ |= g
    nonlocal_ = set()
    for x in ast.walk(func_node):
        if isinstance(x, (ast.Global, ast.Nonlocal)):
            nonlocal_ |= set(x.names)
    locals_ -= nonlocal_
    params = set(rd.params)
    TOP = locals_ | params
    IN = {n: set(TOP) for n in cfg.nodes}
    OUT = {n: set(TOP) for n in cfg.nodes}
    IN[cfg.entry] = set()
    OUT[cfg.entry] = set(params)
    work = [n for n in cfg.nodes if n is not cfg.entry]
    while work:
        n = work.pop()
        preds = [p for p, _ in n.pred]
        new_in = set(TOP)
        for p in preds:
            new_in &= OUT[p]
        if not preds:
            new_in = set(TOP)      # unreachable
        new_out = new_in | gen[n]
        if new_in != IN[n] or new_out != OUT[n]:
            IN[n], OUT[n] = new_in, new_out
            for s, _ in n.succ:
                if s not in work and s is not cfg.entry:
                    work.append(s)
    out = []
    for n in cfg.nodes:
        for u in _uses_of(n):
            if u.id in locals_ and u.id not in params and u.id not in IN[n]:
                if u.id in walrus[n]:
                    # bound by `:=` inside the very expression that reads it
                    # (`w for a in xs if (w := f(a))`, `(m := rx.search(t)) and m[0]`):
                    # the order inside one expression is not modelled - no report
                    continue
                out.append((u, n))
    return out
