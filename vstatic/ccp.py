"""
Conditional constant propagation over a small pure function.

For helper functions whose result depends on a handful of inputs with a
finite set of relevant classes (None / a direction letter / a flag) the rule
modules enumerate those classes and propagate constants through the body:
branches whose test folds are followed on the folded side only (Wegman-Zadeck
style), everything else is Unknown.  Numbers that stand for "some positive
magnitude" are symbolic atoms ``Sym(name)`` with an integer coefficient, so
sign arithmetic (``multiplier * num``) folds to ``+/-k * name``.

Nothing of the analysed program is imported or run: the propagator walks the
syntax tree and knows only the statement / expression kinds listed here;
anything else raises Unsupported and the caller records "undecided".
"""

import ast


class Unsupported(Exception):
    pass


class Sym:
    """coef * <name>, name standing for an unknown positive magnitude"""
    __slots__ = ('name', 'coef')

    def __init__(self, name, coef=1):
        self.name, self.coef = name, coef

    def __mul__(self, k):
        if isinstance(k, bool) or not isinstance(k, int):
            raise Unsupported('symbolic product')
        return Sym(self.name, self.coef * k)
    __rmul__ = __mul__

    def __neg__(self):
        return Sym(self.name, -self.coef)

    def __eq__(self, o):
        return isinstance(o, Sym) and (o.name, o.coef) == (self.name, self.coef)

    def __hash__(self):
        return hash((self.name, self.coef))

    def __repr__(self):
        return f"{self.coef:+d}*{self.name}"


class Obj:
    """an object with known attribute values (and, optionally, methods:
    name -> FunctionDef of the analysed source)"""
    def __init__(self, **attrs):
        self.methods = attrs.pop('_methods', {})
        self.attrs = attrs


class FuncRef:
    """a def / lambda of the analysed source, with the environment it closes over"""
    def __init__(self, node, env):
        self.node, self.env = node, env


def call(ref, posargs, kwargs, caller_env, depth=[0]):
    node = ref.node
    a = node.args
    names = [x.arg for x in a.posonlyargs + a.args]
    bound = dict(zip(names, posargs))
    if len(posargs) > len(names):
        raise Unsupported('too many arguments')
    bound.update(kwargs)
    depth[0] += 1
    try:
        if depth[0] > 12:
            raise Unsupported('call depth')
        # closures see the *current* bindings of the defining scope
        free = dict(ref.env)
        if isinstance(node, ast.Lambda):
            env = dict(free)
            pos = a.posonlyargs + a.args
            for x, d in zip(pos[len(pos) - len(a.defaults):], a.defaults):
                env.setdefault(x.arg, None)
                if x.arg not in bound:
                    bound[x.arg] = ev(d, free)
            for n in names:
                if n not in bound:
                    raise Unsupported(f"no value for parameter {n}")
            env.update(bound)
            return ev(node.body, env)
        return run(node, bound, free)
    finally:
        depth[0] -= 1


class _Return(Exception):
    def __init__(self, v):
        self.v = v


def run(func, args, free=None, max_steps=2000):
    """
    Propagate through FunctionDef ``func`` with parameter values ``args``
    (name -> value) and free-variable values ``free``.  Returns the folded
    return value (None if the function falls off its end).
    """
    env = dict(free or {})
    a = func.args
    names = [x.arg for x in a.posonlyargs + a.args + a.kwonlyargs]
    defaults = {}
    pos = a.posonlyargs + a.args
    for x, d in zip(pos[len(pos) - len(a.defaults):], a.defaults):
        defaults[x.arg] = d
    for x, d in zip(a.kwonlyargs, a.kw_defaults):
        if d is not None:
            defaults[x.arg] = d
    for n in names:
        if n in args:
            env[n] = args[n]
        elif n in defaults:
            env[n] = ev(defaults[n], env)
        else:
            raise Unsupported(f"no value for parameter {n}")
    steps = [0]
    try:
        block(func.body, env, steps, max_steps)
    except _Return as r:
        return r.v
    return None


def block(stmts, env, steps, max_steps):
    for st in stmts:
        steps[0] += 1
        if steps[0] > max_steps:
            raise Unsupported('step budget')
        if isinstance(st, ast.Expr):
            if isinstance(st.value, ast.Constant):
                continue
            raise Unsupported('expression statement')
        if isinstance(st, ast.Pass):
            continue
        if isinstance(st, ast.Return):
            raise _Return(ev(st.value, env) if st.value is not None else None)
        if isinstance(st, ast.Assign):
            v = ev(st.value, env)
            for t in st.targets:
                assign(t, v, env)
            continue
        if isinstance(st, ast.AugAssign):
            if not isinstance(st.target, ast.Name):
                raise Unsupported('augmented assignment target')
            cur = env.get(st.target.id, _MISSING)
            if cur is _MISSING:
                raise Unsupported(f"unbound {st.target.id}")
            env[st.target.id] = binop(st.op, cur, ev(st.value, env))
            continue
        if isinstance(st, ast.If):
            if truth(ev(st.test, env)):
                block(st.body, env, steps, max_steps)
            else:
                block(st.orelse, env, steps, max_steps)
            continue
        raise Unsupported(type(st).__name__)


_MISSING = object()


def assign(t, v, env):
    if isinstance(t, ast.Name):
        env[t.id] = v
    elif isinstance(t, (ast.Tuple, ast.List)) and isinstance(v, (tuple, list)) and len(v) == len(t.elts):
        for e, x in zip(t.elts, v):
            assign(e, x, env)
    else:
        raise Unsupported('assignment target')


def truth(v):
    if isinstance(v, Sym):
        return True          # a positive magnitude times a non-zero coefficient
    if isinstance(v, Obj):
        return True
    if v is None or isinstance(v, (bool, int, str, tuple, list, float)):
        return bool(v)
    raise Unsupported('truth value')


def binop(op, l, r):
    if isinstance(op, ast.Mult):
        if isinstance(l, Sym) or isinstance(r, Sym):
            return l * r
        if isinstance(l, (int,)) and isinstance(r, (int,)):
            return l * r
    if isinstance(op, ast.Add) and type(l) is type(r) and isinstance(l, (int, str)) and not isinstance(l, bool):
        return l + r
    if isinstance(op, ast.Sub) and isinstance(l, int) and isinstance(r, int):
        return l - r
    raise Unsupported('binary operator')


def ev(e, env):
    if isinstance(e, ast.Constant):
        return e.value
    if isinstance(e, ast.Name):
        v = env.get(e.id, _MISSING)
        if v is _MISSING:
            raise Unsupported(f"unbound {e.id}")
        return v
    if isinstance(e, ast.Attribute):
        o = ev(e.value, env)
        if isinstance(o, Obj) and e.attr in o.attrs:
            return o.attrs[e.attr]
        raise Unsupported(f"attribute {e.attr}")
    if isinstance(e, ast.UnaryOp):
        v = ev(e.operand, env)
        if isinstance(e.op, ast.Not):
            return not truth(v)
        if isinstance(e.op, ast.USub) and isinstance(v, (int, Sym)) and not isinstance(v, bool):
            return -v
        raise Unsupported('unary operator')
    if isinstance(e, ast.BoolOp):
        last = None
        for x in e.values:
            last = ev(x, env)
            if isinstance(e.op, ast.And) and not truth(last):
                return last
            if isinstance(e.op, ast.Or) and truth(last):
                return last
        return last
    if isinstance(e, ast.IfExp):
        return ev(e.body, env) if truth(ev(e.test, env)) else ev(e.orelse, env)
    if isinstance(e, ast.BinOp):
        return binop(e.op, ev(e.left, env), ev(e.right, env))
    if isinstance(e, ast.Compare):
        left = ev(e.left, env)
        for op, c in zip(e.ops, e.comparators):
            right = ev(c, env)
            if isinstance(op, (ast.Is, ast.IsNot)):
                if right is not None and left is not None and not isinstance(right, bool):
                    raise Unsupported('identity test')
                r = (left is right)
                r = r if isinstance(op, ast.Is) else not r
            elif isinstance(op, (ast.Eq, ast.NotEq)):
                if isinstance(left, (Sym, Obj)) or isinstance(right, (Sym, Obj)):
                    if left is None or right is None:
                        r = False
                    else:
                        raise Unsupported('symbolic equality')
                else:
                    r = (left == right)
                r = r if isinstance(op, ast.Eq) else not r
            elif isinstance(op, (ast.In, ast.NotIn)):
                if isinstance(right, (tuple, list, str, set, frozenset, dict)) and not isinstance(left, (Sym, Obj)):
                    r = left in right
                else:
                    raise Unsupported('membership')
                r = r if isinstance(op, ast.In) else not r
            elif isinstance(op, (ast.Lt, ast.LtE, ast.Gt, ast.GtE)) and all(
                    isinstance(x, int) and not isinstance(x, bool) for x in (left, right)):
                r = {ast.Lt: left < right, ast.LtE: left <= right, ast.Gt: left > right, ast.GtE: left >= right}[type(op)]
            else:
                raise Unsupported('comparison')
            if not r:
                return False
            left = right
        return True
    if isinstance(e, (ast.Tuple, ast.List)):
        return tuple(ev(x, env) for x in e.elts)
    if isinstance(e, ast.JoinedStr):
        out = ''
        for p in e.values:
            if isinstance(p, ast.Constant):
                out += str(p.value)
            elif isinstance(p, ast.FormattedValue) and p.format_spec is None and p.conversion == -1:
                v = ev(p.value, env)
                if isinstance(v, (Sym, Obj)):
                    raise Unsupported('formatting a symbol')
                out += str(v)
            else:
                raise Unsupported('format spec')
        return out
    if isinstance(e, ast.Subscript):
        c = ev(e.value, env)
        k = ev(e.slice, env)
        if isinstance(c, dict) and k in c:
            return c[k]
        if isinstance(c, (tuple, list, str)) and isinstance(k, int) and -len(c) <= k < len(c):
            return c[k]
        raise Unsupported('subscript')
    if isinstance(e, ast.Lambda):
        return FuncRef(e, env)
    if isinstance(e, ast.Dict):
        out = {}
        for k, v in zip(e.keys, e.values):
            if k is None:
                raise Unsupported('dict unpacking')
            out[ev(k, env)] = ev(v, env)
        return out
    if isinstance(e, ast.Call):
        f = e.func
        if isinstance(f, ast.Name) and isinstance(env.get(f.id), FuncRef) or \
                (not isinstance(f, ast.Name) and not isinstance(f, ast.Attribute)):
            target = env.get(f.id) if isinstance(f, ast.Name) else ev(f, env)
            if isinstance(target, FuncRef):
                return call(target, [ev(a, env) for a in e.args],
                            {k.arg: ev(k.value, env) for k in e.keywords if k.arg}, env)
        if isinstance(f, ast.Subscript):
            target = ev(f, env)
            if isinstance(target, FuncRef):
                return call(target, [ev(a, env) for a in e.args],
                            {k.arg: ev(k.value, env) for k in e.keywords if k.arg}, env)
        if isinstance(f, ast.Name) and f.id == 'getattr' and len(e.args) in (2, 3):
            o, nm = ev(e.args[0], env), ev(e.args[1], env)
            if isinstance(o, Obj) and isinstance(nm, str):
                if nm in o.attrs:
                    return o.attrs[nm]
                if len(e.args) == 3:
                    return ev(e.args[2], env)
            raise Unsupported('getattr')
        if isinstance(f, ast.Attribute) and f.attr in ('lower', 'upper', 'strip') and not e.args and not e.keywords:
            v = ev(f.value, env)
            if isinstance(v, str):
                return getattr(v, f.attr)()
        if isinstance(f, ast.Attribute):
            try:
                o = ev(f.value, env)
            except Unsupported:
                o = None
            if isinstance(o, Obj) and f.attr in o.methods:
                fn = o.methods[f.attr]
                decos = {getattr(d, 'id', getattr(d, 'attr', None)) for d in fn.decorator_list}
                args = [ev(a, env) for a in e.args]
                if 'staticmethod' not in decos:
                    args = [o] + args
                return call(FuncRef(fn, env), args, {k.arg: ev(k.value, env) for k in e.keywords if k.arg}, env)
        if isinstance(f, ast.Name) and f.id == 'bool' and len(e.args) == 1 and not e.keywords and 'bool' not in env:
            return truth(ev(e.args[0], env))
        if isinstance(f, ast.Name) and f.id in ('any', 'all') and len(e.args) == 1 and not e.keywords and f.id not in env:
            a0 = e.args[0]
            if isinstance(a0, (ast.Tuple, ast.List)):
                vals = [truth(ev(x, env)) for x in a0.elts]
                return any(vals) if f.id == 'any' else all(vals)
            raise Unsupported(f"{f.id}() of a non-literal")
        if isinstance(f, ast.Name) and f.id == 'len' and len(e.args) == 1 and not e.keywords:
            v = ev(e.args[0], env)
            if isinstance(v, (tuple, list, str, dict)):
                return len(v)
            raise Unsupported('len of a symbol')
        if isinstance(f, ast.Name) and f.id == 'isinstance' and len(e.args) == 2:
            v = ev(e.args[0], env)
            tn = e.args[1].id if isinstance(e.args[1], ast.Name) else None
            table = {'bool': bool, 'int': int, 'str': str}
            if tn in table and not isinstance(v, (Sym, Obj)):
                return isinstance(v, table[tn])
        raise Unsupported('call')
    raise Unsupported(type(e).__name__)


def _stored_names(node):
    out = set()
    for x in ast.walk(node):
        if isinstance(x, ast.Name) and isinstance(x.ctx, ast.Store):
            out.add(x.id)
    return out


def relevant_names(func, targets):
    """names whose values (or the guards of whose assignments) feed ``targets``"""
    rel = set(targets)
    changed = True
    while changed:
        changed = False

        def visit(stmts, guard_names):
            nonlocal changed
            for st in stmts:
                if isinstance(st, (ast.Assign, ast.AugAssign, ast.AnnAssign)):
                    if _stored_names(st) & rel:
                        val = st.value
                        need = {x.id for x in ast.walk(val) if isinstance(x, ast.Name)} if val is not None else set()
                        need |= guard_names
                        if not need <= rel:
                            rel.update(need)
                            changed = True
                elif isinstance(st, ast.If):
                    g = guard_names | {x.id for x in ast.walk(st.test) if isinstance(x, ast.Name)}
                    visit(st.body, g)
                    visit(st.orelse, g)
        visit(func.body, set())
    return rel


def run_slice(func, targets, env, stop_at=None):
    """
    Propagate constants through the statements of ``func`` that can influence
    the names in ``targets`` (their assignments and the if-statements around
    them), skipping everything else; stops at statement ``stop_at``.  Returns
    the environment.  Raises Unsupported when a relevant test / value does
    not fold.
    """
    rel = relevant_names(func, targets)
    env = dict(env)

    class _Stop(Exception):
        pass

    def contains_relevant(st):
        return any(isinstance(x, (ast.Assign, ast.AugAssign, ast.AnnAssign)) and _stored_names(x) & rel
                   for x in ast.walk(st))

    def go(stmts):
        for st in stmts:
            if st is stop_at or (stop_at is not None and any(x is stop_at for x in ast.walk(st))
                                 and not isinstance(st, ast.If)):
                raise _Stop()
            if isinstance(st, (ast.Assign, ast.AugAssign)):
                if _stored_names(st) & rel:
                    block([st], env, [0], 10)
            elif isinstance(st, ast.If):
                if contains_relevant(st) or (stop_at is not None and any(x is stop_at for x in ast.walk(st))):
                    if truth(ev(st.test, env)):
                        go(st.body)
                    else:
                        go(st.orelse)
            elif isinstance(st, ast.Return):
                raise _Stop()
    try:
        go(func.body)
    except _Stop:
        pass
    return env
