"""
vstatic -- repository-specific static analysis for pyTRS.

Reads the source under /repo/pytrs (``ast`` + ``re._parser``), never imports
or runs it.  See /verif/DESIGN.md.
"""

REPO_DEFAULT = '/repo'


class AnalysisError(Exception):
    """An anchor vanished / a name did not fold / a shape is not understood.

    Never a silent pass and never a VIOLATION: the run exits 2.
    """
