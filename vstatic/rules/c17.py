"""
C17 -- sorting is a stable multi-key permutation with errors last.
"""

import ast
import re

from .. import AnalysisError, rx, flow
from ..fold import is_unknown
from ..srcmodel import walk_local, norm, dotted, guards
from . import common, forward
from .c12 import anchored_calls

META = {
    'explanation': (
        "Tables of _sort_custom agree (variables, methods, key pattern, "
        "sort_defs), the key is matched as a whole and an inapplicable "
        "method raises ValueError, the substitute number for an error / "
        "undefined component is max+1 of the SAME component everywhere it is "
        "used, keys are applied left to right with list.sort(reverse=rev) - a "
        "stable primitive - and the container is only permuted in place. "
        "Sign arithmetic of the direction-aware orders is not decided."),
    'families': ['TBL', 'RX-ANCHOR', 'SIB', 'PERM', 'FORWARD', 'DEADPARAM', 'SIB-DEFAULTS'],
}


def check(ctx):
    ctx.consult('containers/containers.py')
    fi = ctx.repo.func('_TRSTractList._sort_custom')
    env = ctx.fold.func_env(fi)
    pat, legal, sort_defs = env.get('pat'), env.get('legal_methods'), env.get('sort_defs')
    if is_unknown(pat) or is_unknown(legal) or is_unknown(sort_defs) or not isinstance(sort_defs, dict):
        raise AnalysisError("_sort_custom: pat / legal_methods / sort_defs do not fold")
    gf = rx.groups(pat, 0)
    for g in ('var', 'method', 'rev'):
        if g not in gf:
            raise AnalysisError(f"_sort_custom key pattern lacks group {g}")
    var_alts = set(rx.literal_alternatives(gf['var'].node) or [])
    meth_alts = set(rx.literal_alternatives(gf['method'].node) or [])
    ctx.check(var_alts == set(legal), 'TBL', 'key pattern variables == legal_methods keys',
              detail_bad=f"pattern {sorted(var_alts)} vs table {sorted(legal)}", key="TBL|_sort_custom|vars")
    union = {m for ms in legal.values() for m in ms if m is not None}
    ctx.check(meth_alts == union, 'TBL', 'key pattern methods == union of legal methods',
              detail_bad=f"pattern {sorted(meth_alts)} vs table {sorted(union)}", key="TBL|_sort_custom|methods")
    for v, ms in legal.items():
        ctx.check(None in ms and 'num' in ms, 'TBL', f"variable {v!r}: default method 'num' is legal",
                  detail_bad=f"legal_methods[{v!r}] = {ms}", key=f"TBL|_sort_custom|default|{v}")
        for m in ms:
            if m is None:
                continue
            ctx.check(f"{v}.{m}" in sort_defs, 'TBL', f"sort_defs has '{v}.{m}'",
                      detail_bad=f"legal key '{v}.{m}' has no sort definition (KeyError)",
                      key=f"TBL|_sort_custom|sort_defs|{v}.{m}")
    for k in sort_defs:
        v, m = k.split('.')
        ctx.check(v in legal and m in legal[v], 'TBL', f"sort_defs key {k!r} is reachable",
                  detail_bad=f"{k!r} is not a legal variable/method pair", key=f"TBL|_sort_custom|reach|{k}")
    # documented direction methods
    ctx.check({'ns', 'sn', 'num'} <= set(legal.get('t', ())) and {'ew', 'we', 'num'} <= set(legal.get('r', ()))
              and not ({'ns', 'sn'} & set(legal.get('r', ()))) and not ({'ew', 'we'} & set(legal.get('t', ())))
              and set(legal.get('s', ())) == {'num', None} and set(legal.get('i', ())) == {'num', None},
              'TBL', 'direction methods belong to the right variable',
              detail_bad=f"legal_methods = {legal}", key="TBL|_sort_custom|directions")
    L = rx.Lang(pat, 0)
    for k in ('i', 's', 'r', 't', 't.ns', 't.sn', 'r.ew', 'r.we', 's.num', 't.num.rev', 's.rev', 'r.ew.rev', 'i.rev'):
        ctx.check(L.fullmatch(k), 'RX-LANG', f"key syntax accepts {k!r}", detail_bad=f"{k!r} rejected by the key pattern",
                  key=f"RX-LANG|_sort_custom|{k}")
    pk = ctx.repo.func('_TRSTractList._sort_custom.parse_key')
    ctx.attempt(anchored_calls, pk, min_calls=1)
    t = ' '.join(norm(s) for s in walk_local(pk.node) if isinstance(s, ast.stmt))
    ctx.shape(any(isinstance(n, ast.Raise) for n in walk_local(pk.node)), 'TBL',
              'an uninterpretable key raises ValueError', why="no raise statement recognised in parse_key")
    ok = any(isinstance(n, ast.Raise) and 'ValueError' in norm(n) and any(
        norm(tst) == 'method not in legal_methods[var]' and pol for tst, pol in guards(n))
        for n in walk_local(pk.node))
    ok2 = ok or any(isinstance(n, ast.Raise) and any('legal_methods' in norm(tst) for tst, pol in guards(n))
                    for n in walk_local(pk.node))
    ctx.shape(ok2, 'TBL', 'a method that does not apply to the variable raises ValueError',
              why="no raise guarded by a legal_methods test recognised")
    ctx.shape("method = 'num'" in t and "rev = mo.group('rev') is not None" in t
              and "var_method = f'{var}.{method}'" in t.replace('"', "'"), 'TBL',
              "parse_key: default method 'num', rev from the .rev group, key '<var>.<method>'")
    illegal = [n for n in walk_local(fi.node) if isinstance(n, ast.Assign) and norm(n.targets[0]) == 'illegal_key_error']
    bad_t = bool(illegal) and isinstance(illegal[0].value, ast.Call) and \
        (dotted(illegal[0].value.func) or '') not in ('ValueError',) and \
        (dotted(illegal[0].value.func) or '').endswith('Error')
    ctx.tri(bool(illegal) and norm(illegal[0].value).startswith('ValueError('), bad_t, 'TBL',
            'illegal_key_error is a ValueError',
            detail_bad=f"an uninterpretable key raises {norm(illegal[0].value)[:40] if illegal else ''}, not ValueError",
            key="TBL|_sort_custom|illegal_key_error")

    ctx.attempt(_defaults, fi, env)
    ctx.attempt(_perm, fi)
    ctx.attempt(forward.check_all, module_suffixes=('containers.containers',))


def _defaults(ctx, fi, env):
    """substitute for a missing <c>_num is get_max('<c>_num') + 1 of the same component."""
    dflt = {}
    for n in walk_local(fi.node):
        if isinstance(n, ast.Assign) and isinstance(n.targets[0], ast.Name) \
                and isinstance(n.value, ast.BinOp) and isinstance(n.value.op, ast.Add) \
                and isinstance(n.value.left, ast.Call) and dotted(n.value.left.func) == 'get_max' \
                and norm(n.value.right) == '1':
            arg = n.value.left.args[0]
            if isinstance(arg, ast.Constant):
                dflt[n.targets[0].id] = arg.value
    ctx.floor('default_<component> definitions', len(dflt), 3)
    ctx.check(set(dflt.values()) == {'twp_num', 'rge_num', 'sec_num'}, 'SIB',
              'error substitutes are max+1 of twp_num, rge_num and sec_num',
              detail_bad=f"defaults: {dflt}", key="SIB|_sort_custom|defaults")
    # assume table
    assume = None
    for n in walk_local(fi.node):
        if isinstance(n, ast.Assign) and norm(n.targets[0]) == 'assume' and isinstance(n.value, ast.Dict):
            assume = {k.value: norm(v) for k, v in zip(n.value.keys, n.value.values) if isinstance(k, ast.Constant)}
    if assume is None:
        raise AnalysisError("_sort_custom: assume table not found")
    for attr, var in assume.items():
        ctx.check(dflt.get(var) == attr, 'SIB', f"assume[{attr!r}] is the substitute of the same component",
                  detail_bad=f"assume[{attr!r}] = {var}, which is max+1 of {dflt.get(var)!r}",
                  key=f"SIB|_sort_custom|assume|{attr}")
    used = set()
    for n in walk_local(fi.node):
        if isinstance(n, ast.Lambda):
            for c in ast.walk(n):
                if isinstance(c, ast.Call) and dotted(c.func) == 'extract_safe_num' and len(c.args) == 2 \
                        and isinstance(c.args[1], ast.Constant):
                    used.add(c.args[1].value)
    ctx.check(used <= set(assume) and used, 'TBL', 'every attribute given to extract_safe_num has an assumed value',
              detail_bad=f"used {sorted(used)} vs assume {sorted(assume)} (KeyError for a missing one)",
              key="TBL|_sort_custom|assume-keys")
    # each sort_defs lambda uses its own variable's attribute / helper
    pairs = {'t.num': "extract_safe_num(x, 'twp_num')", 'r.num': "extract_safe_num(x, 'rge_num')",
             's.num': "extract_safe_num(x, 'sec_num')", 't.ns': 'n_to_s(x)', 't.sn': 'n_to_s(x, reverse=True)',
             'r.we': 'w_to_e(x)', 'r.ew': 'w_to_e(x, reverse=True)', 'i.num': 'i_sort_evaluate'}
    sd = None
    for n in walk_local(fi.node):
        if isinstance(n, ast.Assign) and norm(n.targets[0]) == 'sort_defs' and isinstance(n.value, ast.Dict):
            sd = {k.value: norm(v.body if isinstance(v, ast.Lambda) else v)
                  for k, v in zip(n.value.keys, n.value.values) if isinstance(k, ast.Constant)}
    if sd is None:
        raise AnalysisError("_sort_custom: sort_defs literal not found")
    other = {'t': ('rge_num', 'sec_num', 'w_to_e'), 'r': ('twp_num', 'sec_num', 'n_to_s'),
             's': ('twp_num', 'rge_num', 'n_to_s', 'w_to_e'), 'i': ('twp_num', 'rge_num', 'sec_num')}
    for k, want in pairs.items():
        got = sd.get(k, '').replace('"', "'")
        bad = any(o in got for o in other[k[0]])
        if k in ('t.ns', 't.sn', 'r.we', 'r.ew') and got:
            # direction flag must match: plain for ns/we, reverse=True for sn/ew
            if ('reverse=True' in got) != (k in ('t.sn', 'r.ew')) and ('n_to_s(' in got or 'w_to_e(' in got):
                bad = True
        ctx.tri(got == want, bad, 'TBL', f"sort_defs[{k!r}] evaluates {want}",
                detail_bad=f"sort_defs[{k!r}] = {sd.get(k)}: sorts by another component / direction",
                key=f"TBL|_sort_custom|def|{k}")
    # direction helpers: attribute read <-> substitute
    for helper, attr, dirattr in (('n_to_s', 'twp_num', 'twp_ns'), ('w_to_e', 'rge_num', 'rge_ew')):
        h = ctx.repo.func(f"_TRSTractList._sort_custom.{helper}")
        t = [norm(s) for s in walk_local(h.node) if isinstance(s, ast.stmt)]
        reads = {n.attr for n in ast.walk(h.node) if isinstance(n, ast.Attribute) and norm(n.value) == 'element'}
        wrong = reads - {attr, dirattr}
        ctx.tri(reads == {attr, dirattr}, bool(wrong & {'twp_num', 'rge_num', 'sec_num', 'twp_ns', 'rge_ew'}), 'SIB',
                f"{helper} reads element.{attr} / element.{dirattr}",
                detail_bad=f"{helper} reads {sorted(wrong)} of the element: it orders by another component",
                key=f"SIB|{helper}|reads")
        subs = [n for n in walk_local(h.node) if isinstance(n, ast.Assign) and norm(n.targets[0]) == 'num'
                and isinstance(n.value, ast.Name) and any(norm(tt) == 'num is None' and pol for tt, pol in guards(n))]
        # every default_<x> name used in the helper must be the one of its own component
        used_d = {n.id for n in ast.walk(h.node) if isinstance(n, ast.Name) and n.id in dflt}
        wrong_d = {d for d in used_d if dflt[d] != attr}
        ctx.tri(bool(used_d) and not wrong_d, bool(wrong_d), 'SIB',
                f"{helper}: a missing {attr} is replaced by max({attr})+1",
                detail_bad=f"{helper} substitutes {sorted(wrong_d)} (max+1 of {[dflt[d] for d in sorted(wrong_d)]}) for a "
                           f"missing {attr}: error elements are not guaranteed to sort after all valid ones",
                key=f"SIB|{helper}|substitute", where=h.loc)
        ctx.shape(any('multiplier *= -1 if reverse else 1' in x for x in t), 'SIB',
                  f"{helper}: error elements keep their end of the list in both directions",
                  why="sign arithmetic restructured (not decided)")
    es = ctx.repo.func('_TRSTractList._sort_custom.extract_safe_num')
    t = [norm(s) for s in walk_local(es.node) if isinstance(s, ast.stmt)]
    ctx.shape('val = getattr(tract, var)' in t and 'val = assume[var]' in t, 'SIB',
              'extract_safe_num substitutes assume[var] for a missing number')
    gm = ctx.repo.func('_TRSTractList._sort_custom.get_max')
    t = ' '.join(norm(s) for s in walk_local(gm.node) if isinstance(s, ast.stmt))
    ctx.tri('return max(nums)' in t and 'return 0' in t and 'is not None' in t,
            'min(' in t and 'max(' not in t, 'SIB',
            'get_max: largest valid number (0 if none)', detail_bad="get_max takes a minimum", key="SIB|get_max")
    ie = ctx.repo.func('_TRSTractList._sort_custom.i_sort_evaluate')
    t = ' '.join(norm(s) for s in walk_local(ie.node) if isinstance(s, ast.stmt))
    rets = [n.value for n in walk_local(ie.node) if isinstance(n, ast.Return) and n.value is not None]
    attrs_ret = {n.attr for r_ in rets for n in ast.walk(r_) if isinstance(n, ast.Attribute)}
    ctx.tri('_Tract__uid' in attrs_ret and len(attrs_ret) == 1, bool(attrs_ret - {'_Tract__uid'}) and '_Tract__uid' not in attrs_ret,
            'SIB', "the 'i' key orders Tracts by the global creation counter",
            detail_bad=f"i_sort_evaluate returns {sorted(attrs_ret)}: not the creation counter (tracts created by "
                       f"different descriptions share index values)", key="SIB|i_sort_evaluate")


def _perm(ctx, fi):
    loops = [n for n in fi.node.body if isinstance(n, ast.For) and norm(n.iter) == 'keys']
    if len(loops) != 1:
        raise AnalysisError("_sort_custom: `for k in keys` loop not found")
    loop = loops[0]
    calls = [c for c in ast.walk(loop) if isinstance(c, ast.Call)]
    sorts = [c for c in calls if dotted(c.func) == 'self.sort']
    ok = len(sorts) == 1 and {k.arg: norm(k.value) for k in sorts[0].keywords} == {'key': 'sort_defs[sk]', 'reverse': 'rev'}
    nokw = len(sorts) == 1 and 'reverse' not in {k.arg for k in sorts[0].keywords} and len(sorts[0].args) < 2
    ctx.tri(ok, nokw, 'PERM', 'each key is one stable sort: self.sort(key=sort_defs[sk], reverse=rev)',
            detail_bad=f"per-key sort call `{norm(sorts[0]) if sorts else ''}` does not pass the key's reverse flag",
            key="PERM|_sort_custom|sortcall")
    revs = [c for c in calls if isinstance(c.func, ast.Attribute) and c.func.attr == 'reverse'
            or dotted(c.func) in ('reversed',)]
    ctx.check(not revs, 'PERM', 'no list reversal inside the per-key loop (reversal would undo stability)',
              detail_bad=f"`{norm(revs[0]) if revs else ''}` inside the key loop: ties come out in inverted prior order",
              key="PERM|_sort_custom|reverse-in-loop", where=common.loc(fi, revs[0]) if revs else None)
    t = [norm(s) for s in fi.node.body]
    ctx.shape("keys = key.split(',')" in t, 'PERM', 'keys are applied left to right (comma split, in order)')
    ctx.check(not any('reversed(' in x or '[::-1]' in x for x in t), 'PERM', 'key order is not reversed',
              detail_bad="keys iterated in another order", key="PERM|_sort_custom|order")
    s = ctx.repo.func('_TRSTractList.sort')
    t = ' '.join(norm(x) for x in walk_local(s.node) if isinstance(x, ast.stmt))
    ctx.tri('self._elements.sort(key=key, reverse=reverse)' in t, 'sorted(' in t and '_elements =' in t, 'PERM',
            'TractList.sort permutes _elements in place with list.sort (stable)',
            detail_bad="sort rebinds _elements to a sorted copy", key="PERM|sort")
    r = ctx.repo.func('_TRSTractList.reverse')
    ctx.shape(norm(r.node.body[-1]) == 'self._elements.reverse()', 'PERM', 'reverse() is list.reverse on _elements')
    # sorting functions never rebind / filter _elements
    for spec in ('_TRSTractList._sort_custom', '_TRSTractList.custom_sort', '_TRSTractList.sort'):
        f2 = ctx.repo.func(spec)
        stores = [n for n in walk_local(f2.node) if isinstance(n, ast.Attribute) and n.attr == '_elements'
                  and isinstance(n.ctx, ast.Store)]
        ctx.check(not stores, 'PERM', f"{spec} never rebinds _elements", detail_bad="_elements is reassigned while sorting",
                  key=f"PERM|{spec}|rebind")
    cs = ctx.repo.func('_TRSTractList.custom_sort')
    t = ' '.join(norm(x) for x in walk_local(cs.node) if isinstance(x, ast.stmt))
    ctx.shape('self._sort_custom(key, reverse)' in t and 'for sk, rv in zip(key, reverse)' in t
              and 'self.sort(key=key, reverse=reverse)' in t, 'PERM',
              'custom_sort dispatch: str -> _sort_custom, list -> each in order, callable -> list.sort')
    ps = ctx.repo.func('PLSSDesc.sort_tracts')
    t = ' '.join(norm(x) for x in walk_local(ps.node) if isinstance(x, ast.stmt))
    ctx.shape('self.tracts.custom_sort(key=key, reverse=reverse)' in t, 'PERM',
              'PLSSDesc.sort_tracts delegates to TractList.custom_sort')
