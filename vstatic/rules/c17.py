"""
C17 -- sorting is a stable multi-key permutation with errors last.
"""

import ast
import re

from .. import AnalysisError, rx, flow, ccp
from ..fold import is_unknown
from ..srcmodel import walk_local, norm, dotted, guards, literals
from . import common, forward
from .c12 import anchored_calls

META = {
    'explanation': (
        "Tables of _sort_custom agree (variables, methods, key pattern, "
        "sort_defs), the key is matched as a whole and an inapplicable "
        "method raises ValueError, the substitute number for an error / "
        "undefined component is max+1 of the SAME component everywhere it is "
        "used, keys are applied left to right with list.sort(reverse=rev) - a "
        "stable primitive - and the container is only permuted in place. "
        "The sign tricks ARE decided: conditional constant propagation through every sort_defs entry, for each class "
        "of element (valid N/S/E/W, error / undefined), yields +/- the element's own number resp. +(max+1) of the same "
        "component. Key functions never read the list being sorted; the key is lower-cased before every case-sensitive "
        "operation; sort() does not emulate reverse by sort-then-flip; sort_tracts forwards its key unchanged."
        " Round 7: the key normalisation pipeline is folded on legal keys with blanks / case / 'reverse'; the pattern and method table are located by use; an early return in front of the validating delegate is reported (VALIDATE); lower-casing before the unpacker."
        ' Round 8: one sort pass per key, none skipped; a counter updated through type(self) gives subclasses their own.'
        ' Round 9: piecemeal lower-casing after the case-insensitive match includes the direction letters.'
        ' Round 12: no name in the sort code is bound nowhere; a method looked up on self is not a read of the list.'),
    'families': ['TBL', 'RX-ANCHOR', 'SIB', 'PERM', 'FORWARD', 'DEADPARAM', 'SIB-DEFAULTS'],
}


DOC_KEYS = {'i.num', 't.ns', 't.sn', 't.num', 'r.ew', 'r.we', 'r.num', 's.num'}
COMPONENT = {'t': ('twp_num', 'twp_ns'), 'r': ('rge_num', 'rge_ew'), 's': ('sec_num', None)}


def check(ctx):
    ctx.consult('containers/containers.py')
    fi = ctx.repo.func('_TRSTractList._sort_custom')
    env = ctx.fold.func_env(fi)
    sort_defs = env.get('sort_defs')
    pat, legal, legal_txt = _key_tables(ctx, fi)
    if pat is None:
        raise AnalysisError("_sort_custom: key pattern does not fold")
    if is_unknown(sort_defs) or not isinstance(sort_defs, dict):
        raise AnalysisError("_sort_custom: sort_defs does not fold")
    if legal is not None and (is_unknown(legal) or not isinstance(legal, dict)):
        legal = None
    ctx.attempt(_key_grammar, fi, pat, legal, sort_defs, legal_txt)
    from .c12 import lowered_before_unpack      # the direction tests of the sort keys compare with lower-case letters
    ctx.attempt(lowered_before_unpack, rule='ORDER')
    ctx.attempt(_key_pipeline, fi, pat)
    ctx.attempt(_case_discipline, fi)
    ctx.attempt(_defaults, fi, env)
    ctx.attempt(_sign_tables, fi)
    ctx.attempt(_key_purity, fi)
    ctx.attempt(_placeholders_decompose)
    ctx.attempt(_perm, fi)
    ctx.attempt(forward.check_all, module_suffixes=('containers.containers', 'tract.tract', 'plssdesc.plssdesc'))
    ctx.attempt(forward.undefined_names, [f for f in ctx.repo.funcs.values() if f.module.name.endswith('containers.containers')])


def _key_tables(ctx, fi):
    """The key pattern is whatever parse_key full-matches the key against; the
    table of legal methods is whatever `method in <table>[var]` indexes - both
    found by use, wherever they are defined (local, class attribute, module)."""
    pk = ctx.repo.func('_TRSTractList._sort_custom.parse_key')
    pat = legal = legal_txt = None
    for c in walk_local(pk.node):
        if isinstance(c, ast.Call) and isinstance(c.func, ast.Attribute) and c.func.attr in ('fullmatch', 'match', 'search'):
            cand = c.args[0] if dotted(c.func.value) == 're' and c.args else c.func.value
            v = common.fold_in_func(ctx, pk, cand)
            if isinstance(v, str):
                pat = v
            elif hasattr(v, 'pattern') and isinstance(getattr(v, 'pattern'), str):
                pat = v.pattern
        if isinstance(c, ast.Compare) and len(c.ops) == 1 and isinstance(c.ops[0], (ast.In, ast.NotIn)) \
                and isinstance(c.comparators[0], ast.Subscript) and norm(c.left) == 'method':
            v = common.fold_in_func(ctx, pk, c.comparators[0].value)
            if isinstance(v, dict):
                legal, legal_txt = v, norm(c.comparators[0].value)
    return pat, legal, legal_txt


def _key_grammar(ctx, fi, pat, legal, sort_defs, legal_txt=None):
    gf = rx.groups(pat, 0)
    for g in ('var', 'method', 'rev'):
        if g not in gf:
            raise AnalysisError(f"_sort_custom key pattern lacks group {g}")
    var_alts = set(rx.literal_alternatives(gf['var'].node) or [])
    meth_alts = set(rx.literal_alternatives(gf['method'].node) or [])
    doc_vars = {k.split('.')[0] for k in DOC_KEYS}
    doc_meths = {k.split('.')[1] for k in DOC_KEYS}
    ctx.check(doc_vars <= var_alts, 'TBL', 'key pattern knows the variables i, t, r, s',
              detail_bad=f"pattern accepts variables {sorted(var_alts)}: {sorted(doc_vars - var_alts)} missing", key="TBL|_sort_custom|vars")
    ctx.check(doc_meths <= meth_alts, 'TBL', 'key pattern knows the methods ns, sn, ew, we, num',
              detail_bad=f"pattern accepts methods {sorted(meth_alts)}: {sorted(doc_meths - meth_alts)} missing", key="TBL|_sort_custom|methods")
    L = rx.Lang(pat, 0)
    for k in ('i', 's', 'r', 't', 't.ns', 't.sn', 'r.ew', 'r.we', 's.num', 't.num.rev', 's.rev', 'r.ew.rev', 'i.rev'):
        ctx.check(L.fullmatch(k), 'RX-LANG', f"key syntax accepts {k!r}", detail_bad=f"{k!r} rejected by the key pattern",
                  key=f"RX-LANG|_sort_custom|{k}")
    pk = ctx.repo.func('_TRSTractList._sort_custom.parse_key')
    ctx.attempt(anchored_calls, pk, min_calls=1)
    # which (variable, method) pairs get past parse_key: read off the guard of
    # its `raise` statements
    raises = [n for n in walk_local(pk.node) if isinstance(n, ast.Raise)]
    ctx.shape(bool(raises), 'TBL', 'an uninterpretable key raises', why="no raise statement in parse_key")
    accepted = None
    how = None
    for r_ in raises:
        for _e, txt, pol in literals(guards(r_)):
            t = txt.replace('"', "'")
            if legal is not None and t == f"method in {legal_txt}[var]".replace('"', "'") and not pol:
                accepted = {f"{v}.{m}" for v, ms in legal.items() for m in ms if m is not None}
                how = 'legal_methods'
                ctx.check(all(None in ms or 'num' in ms for ms in legal.values()), 'TBL',
                          "every variable accepts its default method",
                          detail_bad=f"legal_methods = {legal}", key="TBL|_sort_custom|default")
            elif t in ('var_method in sort_defs', "f'{var}.{method}' in sort_defs",
                       'var_method in sort_defs.keys()') and not pol:
                accepted = set(sort_defs)
                how = 'sort_defs keys'
    if accepted is None:
        ctx.undecided('TBL', 'accepted variable/method pairs', 'legality guard of parse_key not recognised')
    else:
        # only a DIRECTION accepted for a documented variable it does not belong
        # to is a defect; further variables / methods are extensions
        wrong_dir = {'t': {'ew', 'we'}, 'r': {'ns', 'sn'}, 's': {'ns', 'sn', 'ew', 'we'}, 'i': {'ns', 'sn', 'ew', 'we'}}
        extra = {k_ for k_ in accepted - DOC_KEYS if k_.split('.')[0] in wrong_dir and k_.split('.')[-1] in wrong_dir[k_.split('.')[0]]}
        missing = DOC_KEYS - accepted
        ctx.check(not extra, 'TBL', f"no direction is accepted for a variable it does not apply to (via {how})",
                  f"{sorted(accepted)}",
                  f"parse_key lets {sorted(extra)} through: a direction that does not apply to the variable is not "
                  f"rejected with ValueError", key=f"TBL|_sort_custom|accepted-extra|{','.join(sorted(extra))}")
        ctx.check(not missing, 'TBL', 'every documented key is accepted',
                  detail_bad=f"documented keys {sorted(missing)} are rejected", key=f"TBL|_sort_custom|accepted-missing|{','.join(sorted(missing))}")
        nodef = accepted - set(sort_defs)
        if not all(isinstance(k_, str) for k_ in sort_defs):
            ctx.undecided('TBL', 'every accepted key has a sort definition', 'sort_defs is not keyed by "<var>.<method>" strings')
            nodef = set()
        ctx.check(not nodef, 'TBL', 'every accepted key has a sort definition',
                  detail_bad=f"accepted keys {sorted(nodef)} have no entry in sort_defs (KeyError)",
                  key=f"TBL|_sort_custom|nodef|{','.join(sorted(nodef))}")
    # the exception type
    for r_ in raises:
        exc = r_.exc
        name = None
        if isinstance(exc, ast.Call):
            name = dotted(exc.func)
        elif isinstance(exc, ast.Name):
            defs = [n for n in walk_local(fi.node) if isinstance(n, ast.Assign) and norm(n.targets[0]) == exc.id
                    and isinstance(n.value, ast.Call)]
            name = dotted(defs[0].value.func) if defs else None
        ctx.tri(name == 'ValueError', bool(name) and name.endswith('Error') and name != 'ValueError', 'TBL',
                f"parse_key raises ValueError (`{norm(r_)[:40]}`)",
                detail_bad=f"an uninterpretable key raises {name}, not ValueError",
                key=f"TBL|_sort_custom|exctype|{name}")
    # method default and key assembly
    t = ' '.join(norm(s) for s in walk_local(pk.node) if isinstance(s, ast.stmt)).replace('"', "'")
    ctx.shape("method = 'num'" in t and "mo.group('rev') is not None" in t, 'TBL',
              "parse_key: default method 'num', rev from the .rev group")


def _key_pipeline(ctx, fi, pat):
    """The statements that turn the caller's key string into the list of key
    components (`key = key.lower()`, `re.sub(...)`, `keys = key.split(',')`)
    are interpreted, in order, on legal keys in the spellings the docstring
    allows (optional blanks anywhere, any case, 'reverse' for 'rev'); every
    component that comes out must be a whole match of the key pattern -
    otherwise a legal key raises ValueError."""
    from ..streval import StrEval, Unsupported
    construct = '_sort_custom: legal keys survive the normalisation (blanks, case, reverse)'
    witnesses = ['i,s,r.ew', 'i, s, r.ew', 's .rev', 't. ns', 'r. we . reverse', 'S.Reverse', ' t.num ,s ', 'T.NS,R.EW.REV',
                 's.rev , t.sn', 'r.num.reverse']
    L = rx.Lang(pat, 0)
    loop = next((st for st in fi.node.body if isinstance(st, ast.For) and norm(st.iter) == 'keys'), None)
    if loop is None:
        ctx.undecided('RX-LANG', construct, '`for k in keys` not found')
        return
    pre = [st for st in fi.node.body[:fi.node.body.index(loop)] if isinstance(st, ast.Assign) and len(st.targets) == 1
           and isinstance(st.targets[0], ast.Name) and st.targets[0].id in ('key', 'keys')]
    bad = None
    try:
        for w in witnesses:
            env = {'key': w}
            for st in pre:
                env[st.targets[0].id] = StrEval(ctx, None, env=env).ev(st.value)
            comps = env.get('keys')
            if not isinstance(comps, list):
                raise Unsupported('keys is not a list')
            for c_ in comps:
                if not (isinstance(c_, str) and L.fullmatch(c_.lower())):
                    bad = (w, c_, comps)
                    break
            if bad:
                break
    except Unsupported as e:
        ctx.undecided('RX-LANG', construct, f"pipeline not interpreted ({e})")
        return
    ctx.check(bad is None, 'RX-LANG', construct, f"{len(witnesses)} legal keys give valid components",
              f"the legal key {bad[0]!r} is cut into {bad[2]}: the component {bad[1]!r} is not a key, so custom_sort / "
              f"sort_tracts raise ValueError for a documented spelling" if bad else '',
              key="RX-LANG|_sort_custom|pipeline", where=common.loc(fi, pre[-1]) if pre else fi.loc)


def _case_discipline(ctx, fi):
    """every case-sensitive operation on the key text (re.sub / fullmatch with
    lower-case literals, comparisons with lower-case words) sees a lowered
    key: `S.Reverse` and `s.rev` are the same key."""
    pk = ctx.repo.func('_TRSTractList._sort_custom.parse_key')
    n = 0
    for f, params in ((fi, {'key'}), (pk, set(pk.params()))):
        fenv = ctx.fold.func_env(fi)
        for c in walk_local(f.node):
            if not (isinstance(c, ast.Call) and dotted(c.func) in ('re.sub', 're.fullmatch', 're.match', 're.search', 're.split')):
                continue
            patv = ctx.fold.eval(c.args[0], fenv, f.module.name) if c.args else None
            if not isinstance(patv, str) or not any(ch.isalpha() and ch.islower() for ch in re.sub(r"\\.|\(\?P<[^>]*>", '', patv)):
                continue
            flags = [a for a in c.args[3:]] + [k.value for k in c.keywords if k.arg == 'flags']
            if any('I' in norm(x) for x in flags) and dotted(c.func) in ('re.sub', 're.split'):
                continue        # a case-insensitive rewrite is as good as lowering first
            # (for fullmatch/match/search the captured groups are used as table
            #  keys afterwards: IGNORECASE does not lower what is captured)
            subject = c.args[2] if dotted(c.func) == 're.sub' and len(c.args) > 2 else (c.args[1] if len(c.args) > 1 else None)
            if subject is None:
                continue
            prov = flow.provenance(f.node, subject)
            if not (flow.prov_params(prov) & params):
                continue
            n += 1
            lowered = 'lower' in {x.split('.')[-1] for x in flow.prov_calls(prov)}
            if not lowered and f is pk:
                # the helper's argument may have been lower-cased by the caller already
                sites = [x for x in walk_local(fi.node) if isinstance(x, ast.Call) and dotted(x.func) == pk.node.name and x.args]
                hit_params = flow.prov_params(prov) & params
                idx = [pk.params().index(p_) for p_ in hit_params if p_ in pk.params()]
                if sites and idx and all(
                        i_ < len(x.args) and 'lower' in {y.split('.')[-1] for y in flow.prov_calls(flow.provenance(fi.node, x.args[i_]))}
                        for x in sites for i_ in idx):
                    lowered = True
            ctx.check(lowered, 'ORDER', f"{f.qualname.split('.')[-1]}: `{norm(c)[:50]}` sees a lower-cased key",
                      'subject derives from .lower()',
                      f"`{norm(c)[:70]}` compares the caller's key with lower-case text but the key has not been "
                      f"lower-cased at that point: an upper / mixed-case spelling such as 'S.Reverse' takes another path",
                      key=f"ORDER|_sort_custom|case|{norm(c.args[0])[:30]}", where=common.loc(f, c))
    ctx.floor('case-sensitive operations on the sort key', n, 1)


def _defaults(ctx, fi, env):
    """substitute for a missing <c>_num is get_max('<c>_num') + 1 of the same component."""
    dflt = {}
    for n in walk_local(fi.node):
        if isinstance(n, ast.Assign) and isinstance(n.targets[0], ast.Name) \
                and isinstance(n.value, ast.BinOp) and isinstance(n.value.op, ast.Add) \
                and isinstance(n.value.left, ast.Call) and dotted(n.value.left.func) == 'get_max' \
                and norm(n.value.right) == '1':
            arg = n.value.left.args[0]
            if isinstance(arg, ast.Constant):
                dflt[n.targets[0].id] = arg.value
    # a substitute that can TIE with a valid number does not put errors last
    for x in walk_local(fi.node):
        if isinstance(x, ast.Assign) and isinstance(x.targets[0], ast.Name) and x.targets[0].id.startswith('default_') \
                and x.targets[0].id not in dflt:
            gm = [c for c in ast.walk(x.value) if isinstance(c, ast.Call) and dotted(c.func) == 'get_max']
            plus = isinstance(x.value, ast.BinOp) and isinstance(x.value.op, ast.Add)
            if gm and not plus:
                ctx.violation('SIB', f"{x.targets[0].id} is strictly greater than every valid number of its component",
                              f"`{norm(x)}` can equal the largest valid number (no `+ 1`): an error / undefined element then ties "
                              f"with that element and keeps its place instead of sorting last",
                              key=f"SIB|_sort_custom|default-tie|{x.targets[0].id}", where=common.loc(fi, x))
                if gm[0].args and isinstance(gm[0].args[0], ast.Constant):
                    dflt[x.targets[0].id] = gm[0].args[0].value
    ctx.floor('default_<component> definitions', len(dflt), 3)
    ctx.check(set(dflt.values()) == {'twp_num', 'rge_num', 'sec_num'}, 'SIB',
              'error substitutes are max+1 of twp_num, rge_num and sec_num',
              detail_bad=f"defaults: {dflt}", key="SIB|_sort_custom|defaults")
    # assume table
    assume = None
    for n in walk_local(fi.node):
        if isinstance(n, ast.Assign) and norm(n.targets[0]) == 'assume' and isinstance(n.value, ast.Dict):
            assume = {k.value: norm(v) for k, v in zip(n.value.keys, n.value.values) if isinstance(k, ast.Constant)}
    if assume is None:
        raise AnalysisError("_sort_custom: assume table not found")
    for attr, var in assume.items():
        ctx.check(dflt.get(var) == attr, 'SIB', f"assume[{attr!r}] is the substitute of the same component",
                  detail_bad=f"assume[{attr!r}] = {var}, which is max+1 of {dflt.get(var)!r}",
                  key=f"SIB|_sort_custom|assume|{attr}")
    used = set()
    for n in walk_local(fi.node):
        if isinstance(n, ast.Lambda):
            for c in ast.walk(n):
                if isinstance(c, ast.Call) and dotted(c.func) == 'extract_safe_num' and len(c.args) == 2 \
                        and isinstance(c.args[1], ast.Constant):
                    used.add(c.args[1].value)
    if not used:
        ctx.undecided('TBL', 'every attribute given to extract_safe_num has an assumed value',
                      'no extract_safe_num(x, <attribute>) call found in the sort-key table (rewritten?)')
    else:
      ctx.check(used <= set(assume), 'TBL', 'every attribute given to extract_safe_num has an assumed value',
              detail_bad=f"used {sorted(used)} vs assume {sorted(assume)} (KeyError for a missing one)",
              key="TBL|_sort_custom|assume-keys")
    ctx.notes['sort_defaults'] = dflt
    gm = ctx.repo.func('_TRSTractList._sort_custom.get_max')
    t = ' '.join(norm(s) for s in walk_local(gm.node) if isinstance(s, ast.stmt))
    ctx.tri('return max(nums)' in t and 'return 0' in t and 'is not None' in t,
            'min(' in t and 'max(' not in t, 'SIB',
            'get_max: largest valid number (0 if none)', detail_bad="get_max takes a minimum", key="SIB|get_max")
    ie = ctx.repo.func('_TRSTractList._sort_custom.i_sort_evaluate')
    t = ' '.join(norm(s) for s in walk_local(ie.node) if isinstance(s, ast.stmt))
    rets = [n.value for n in walk_local(ie.node) if isinstance(n, ast.Return) and n.value is not None]
    attrs_ret = {n.attr for r_ in rets for n in ast.walk(r_) if isinstance(n, ast.Attribute)}
    ctx.tri('_Tract__uid' in attrs_ret and len(attrs_ret) == 1, bool(attrs_ret - {'_Tract__uid'}) and '_Tract__uid' not in attrs_ret,
            'SIB', "the 'i' key orders Tracts by the global creation counter",
            detail_bad=f"i_sort_evaluate returns {sorted(attrs_ret)}: not the creation counter (tracts created by "
                       f"different descriptions share index values)", key="SIB|i_sort_evaluate")



def _scope(ctx, fi):
    """constant environment of _sort_custom for the propagator: the
    default_<c> substitutes as symbols, the assume table, the nested helpers
    and the sort_defs table."""
    dflt = ctx.notes.get('sort_defaults') or {}
    scope = {'Tract': 'Tract'}
    for name, comp in dflt.items():
        scope[name] = ccp.Sym(f"max+1({comp})")
    for n in fi.node.body:
        if isinstance(n, ast.FunctionDef):
            scope[n.name] = ccp.FuncRef(n, scope)
    for n in fi.node.body:
        if isinstance(n, ast.Assign) and len(n.targets) == 1 and isinstance(n.targets[0], ast.Name) \
                and n.targets[0].id in ('assume', 'sort_defs'):
            try:
                scope[n.targets[0].id] = ccp.ev(n.value, scope)
            except ccp.Unsupported:
                pass
    return scope


def _sign_tables(ctx, fi):
    """Conditional constant propagation through sort_defs[<key>] for each
    class of element: a valid component yields +/- its own number with the
    sign the direction asks for; an error / undefined component yields
    +(max+1) of the SAME component for every key, so it sorts after all valid
    ones (and first when the pass is reversed by list.sort(reverse=True))."""
    scope = _scope(ctx, fi)
    sd = scope.get('sort_defs')
    if not isinstance(sd, dict):
        ctx.undecided('SIB', 'sort key functions', 'sort_defs table not propagated')
        return
    want_sign = {'t.num': {'n': 1, 's': 1}, 't.ns': {'n': -1, 's': 1}, 't.sn': {'n': 1, 's': -1},
                 'r.num': {'e': 1, 'w': 1}, 'r.we': {'w': -1, 'e': 1}, 'r.ew': {'w': 1, 'e': -1},
                 's.num': {None: 1}}
    n = 0
    for key, signs in want_sign.items():
        if key not in sd:
            continue
        num_attr, dir_attr = COMPONENT[key[0]]
        base = dict(twp_num=ccp.Sym('twp_num'), twp_ns='n', rge_num=ccp.Sym('rge_num'), rge_ew='w',
                    sec_num=ccp.Sym('sec_num'))
        cases = []
        for d, sg in signs.items():
            attrs = dict(base)
            if dir_attr:
                attrs[dir_attr] = d
            cases.append((f"valid {num_attr}" + (f", {dir_attr}={d!r}" if dir_attr else ''), attrs, ccp.Sym(num_attr, sg)))
        zero = dict(base)
        zero[num_attr] = 0
        cases.append((f"valid {num_attr} = 0", zero, 0))
        err = dict(base)
        err[num_attr] = None
        if dir_attr:
            err[dir_attr] = None
        cases.append((f"error/undefined {num_attr}", err, ccp.Sym(f"max+1({num_attr})", 1)))
        for label, attrs, want in cases:
            construct = f"sort_defs[{key!r}] on an element with {label} -> {want}"
            try:
                got = ccp.call(sd[key], [ccp.Obj(**attrs)], {}, scope) if isinstance(sd[key], ccp.FuncRef) else None
            except ccp.Unsupported as e:
                ctx.undecided('SIB', construct, f"not propagated ({e})")
                continue
            if got is None and not isinstance(sd[key], ccp.FuncRef):
                ctx.undecided('SIB', construct, 'sort_defs entry is not a function of the scope')
                continue
            n += 1
            if (isinstance(got, ccp.Sym) and got == want) or (isinstance(want, int) and not isinstance(got, ccp.Sym)
                                                          and isinstance(got, int) and got == want):
                ctx.ok('SIB', construct, 'constant propagation')
            elif isinstance(want, int):
                ctx.violation('SIB', construct,
                              f"the key function yields {got} for a valid number 0 (Section 00 / Township 0): a falsy but valid "
                              f"number is taken for a missing one and sorted with the error elements",
                              key=f"SIB|_sort_custom|{key}|zero|{got}", where=fi.loc)
            elif isinstance(got, ccp.Sym):
                what = ("error / undefined elements do not sort after all valid ones for this key"
                        if 'error' in label else "the order of valid elements is not the one the key names")
                ctx.violation('SIB', construct, f"the key function yields {got} for this class of element: {what}",
                              key=f"SIB|_sort_custom|{key}|{label.split(',')[-1].strip()}|{got}", where=fi.loc)
            else:
                ctx.undecided('SIB', construct, f"folded to {got!r}")
    ctx.floor('sort key classes propagated', n, 10)


def _key_purity(ctx, fi):
    """list.sort() empties the list while it runs, so a key function (and
    anything it calls) must not look at the list being sorted."""
    nested = {n.name: n for n in fi.node.body if isinstance(n, ast.FunctionDef)}
    sdn = [n for n in fi.node.body if isinstance(n, ast.Assign) and norm(n.targets[0]) == 'sort_defs']
    if not sdn or not isinstance(sdn[0].value, ast.Dict):
        ctx.undecided('PURITY', 'sort key functions do not read the list', 'sort_defs literal not found')
        return
    reach, work = set(), []
    for v in sdn[0].value.values:
        for x in ast.walk(v):
            if isinstance(x, ast.Name) and x.id in nested:
                work.append(x.id)
    while work:
        f = work.pop()
        if f in reach:
            continue
        reach.add(f)
        for x in ast.walk(nested[f]):
            if isinstance(x, ast.Name) and x.id in nested and x.id not in reach:
                work.append(x.id)
    bad = []
    for f in sorted(reach):
        for x in ast.walk(nested[f]):
            if isinstance(x, ast.Name) and x.id == 'self' and isinstance(x.ctx, ast.Load):
                bad.append((f, x))
    try:
        methods_ = set(ctx.repo.cls('containers:_TRSTractList').methods)
    except AnalysisError:
        methods_ = set()
    for v in sdn[0].value.values:
        for x in ast.walk(v):
            if isinstance(x, ast.Name) and x.id == 'self':
                par_ = getattr(x, '_parent', None)
                if isinstance(par_, ast.Attribute) and par_.attr in methods_ and par_.attr not in ('_elements',):
                    continue        # `self._creation_index`: a method looked up on the container, not its contents
                bad.append(('sort_defs lambda', x))
    ctx.check(not bad, 'PURITY', f"sort key functions ({', '.join(sorted(reach))}) never read the list being sorted",
              detail_bad=f"{bad[0][0] if bad else ''} reads `self` while list.sort() runs (the list is empty during "
                         f"the sort: maxima computed there are 0, so error elements get the value 1)",
              key=f"PURITY|_sort_custom|{bad[0][0] if bad else ''}", where=common.loc(fi, bad[0][1]) if bad else None)


def _placeholders_decompose(ctx):
    """a TRS with ONE error / undefined component still decomposes (so that
    only that component sorts last): the unpacker accepts the placeholder
    spellings as trs_to_dict presents them (lower-cased)"""
    from .c12 import unpacker, _subject_prov, unpack_func
    rv = unpacker(ctx)
    L = common.lang(ctx, rv)
    td = unpack_func(ctx)
    lowered = 'lower' in {c.split('.')[-1] for c in flow.prov_calls(_subject_prov(ctx, td))}
    mc = lambda a: ctx.fold.get_attr('master_config', 'MasterConfig', a)
    for s_ in (f"154n97w{mc('_ERR_SEC')}", f"{mc('_ERR_TWP')}97w01", f"154n{mc('_ERR_RGE')}01", f"154n97w{mc('_UNDEF_SEC')}"):
        t_ = s_.lower() if lowered else s_
        ctx.check(L.fullmatch(t_), 'RX-LANG', f"the TRS unpacker decomposes {s_!r}",
                  detail_bad=f"{t_!r} (as trs_to_dict hands it over) is not matched by the unpacker: a TRS with one error component "
                             f"becomes the all-error TRS, so its valid Twp / Rge sort last too",
                  key=f"RX-LANG|TRS unpacker|{s_}")


def _perm(ctx, fi):
    loops = [n for n in fi.node.body if isinstance(n, ast.For) and norm(n.iter) == 'keys']
    if len(loops) != 1:
        raise AnalysisError("_sort_custom: `for k in keys` loop not found")
    loop = loops[0]
    calls = [c for c in ast.walk(loop) if isinstance(c, ast.Call)]
    sorts = [c for c in calls if dotted(c.func) == 'self.sort']
    ok = len(sorts) == 1 and {k.arg: norm(k.value) for k in sorts[0].keywords} == {'key': 'sort_defs[sk]', 'reverse': 'rev'}
    nokw = len(sorts) == 1 and 'reverse' not in {k.arg for k in sorts[0].keywords} and len(sorts[0].args) < 2
    ctx.tri(ok, nokw, 'PERM', 'each key is one stable sort: self.sort(key=sort_defs[sk], reverse=rev)',
            detail_bad=f"per-key sort call `{norm(sorts[0]) if sorts else ''}` does not pass the key's reverse flag",
            key="PERM|_sort_custom|sortcall")
    # exactly one pass per key: no further sort call (it would order by something the key does not
    # name), and no pass is skipped (a key given twice is applied twice: left-to-right priority)
    extra = [c for c in sorts if 'sort_defs' not in norm(c)] if len(sorts) > 1 else []
    other = [c for c in calls if isinstance(c.func, ast.Attribute) and c.func.attr == 'sort' and dotted(c.func) != 'self.sort']
    ctx.check(not extra and not other, 'PERM', 'the per-key loop makes no second sort pass',
              detail_bad=f"`{norm((extra + other)[0])[:70] if (extra + other) else ''}` is a further pass inside the key loop: it reorders "
                         f"the list by a criterion the key does not name (an error in ANOTHER component moves an element), and, being "
                         f"applied last, it outranks the key itself", key="PERM|_sort_custom|extra-pass",
              where=common.loc(fi, (extra + other)[0]) if (extra + other) else None)
    skips = [x for x in ast.walk(loop) if isinstance(x, (ast.Continue, ast.Break))]
    ctx.check(not skips, 'PERM', 'no key is skipped in the per-key loop',
              detail_bad=f"a `{type(skips[0]).__name__.lower() if skips else ''}` at line {skips[0].lineno if skips else 0} leaves out a sort pass: "
                         f"with keys 's,t,s' the last key must be applied again (it is the most significant one); skipping it "
                         f"gives the order of 's,t'", key="PERM|_sort_custom|skipped-pass",
              where=common.loc(fi, skips[0]) if skips else None)
    revs = [c for c in calls if isinstance(c.func, ast.Attribute) and c.func.attr == 'reverse'
            or dotted(c.func) in ('reversed',)]
    ctx.check(not revs, 'PERM', 'no list reversal inside the per-key loop (reversal would undo stability)',
              detail_bad=f"`{norm(revs[0]) if revs else ''}` inside the key loop: ties come out in inverted prior order",
              key="PERM|_sort_custom|reverse-in-loop", where=common.loc(fi, revs[0]) if revs else None)
    t = [norm(s) for s in fi.node.body]
    ctx.shape("keys = key.split(',')" in t, 'PERM', 'keys are applied left to right (comma split, in order)')
    ctx.check(not any('reversed(' in x or '[::-1]' in x for x in t), 'PERM', 'key order is not reversed',
              detail_bad="keys iterated in another order", key="PERM|_sort_custom|order")
    s = ctx.repo.func('_TRSTractList.sort')
    t = ' '.join(norm(x) for x in walk_local(s.node) if isinstance(x, ast.stmt))
    sorts = [c for c in walk_local(s.node) if isinstance(c, ast.Call) and isinstance(c.func, ast.Attribute)
             and c.func.attr == 'sort' and norm(c.func.value) == 'self._elements']
    flips = [c for c in walk_local(s.node)
             if (isinstance(c, ast.Call) and isinstance(c.func, ast.Attribute) and c.func.attr == 'reverse')
             or (isinstance(c, ast.Call) and dotted(c.func) == 'reversed')
             or (isinstance(c, ast.Subscript) and isinstance(c.slice, ast.Slice) and c.slice.step is not None
                 and norm(c.slice.step) == '-1')]
    rev_ok = False
    if len(sorts) == 1:
        kw = {k.arg: k.value for k in sorts[0].keywords if k.arg}
        if 'reverse' in kw:
            rev_ok = 'reverse' in flow.prov_params(flow.provenance(s.node, kw['reverse']))
    ctx.tri(len(sorts) == 1 and rev_ok and not flips, bool(flips) or 'sorted(' in t and '_elements =' in t, 'PERM',
            'TractList.sort permutes _elements in place with one list.sort(key, reverse=reverse) (stable both ways)',
            detail_bad=(f"`{norm(flips[0])[:50]}` in sort(): a descending pass done by sorting and then reversing inverts "
                        f"the order of ties, so the order left by earlier keys is lost" if flips
                        else "sort rebinds _elements to a sorted copy"),
            key="PERM|sort|" + ('flip' if flips else 'copy'), where=common.loc(s, flips[0]) if flips else None)
    r = ctx.repo.func('_TRSTractList.reverse')
    ctx.shape(norm(r.node.body[-1]) == 'self._elements.reverse()', 'PERM', 'reverse() is list.reverse on _elements')
    # sorting functions never rebind / filter _elements
    for spec in ('_TRSTractList._sort_custom', '_TRSTractList.custom_sort', '_TRSTractList.sort'):
        f2 = ctx.repo.func(spec)
        stores = [n for n in walk_local(f2.node) if isinstance(n, ast.Attribute) and n.attr == '_elements'
                  and isinstance(n.ctx, ast.Store)]
        ctx.check(not stores, 'PERM', f"{spec} never rebinds _elements", detail_bad="_elements is reassigned while sorting",
                  key=f"PERM|{spec}|rebind")
    cs = ctx.repo.func('_TRSTractList.custom_sort')
    t = ' '.join(norm(x) for x in walk_local(cs.node) if isinstance(x, ast.stmt))
    ctx.shape('self._sort_custom(key, reverse)' in t and 'for sk, rv in zip(key, reverse)' in t
              and 'self.sort(key=key, reverse=reverse)' in t, 'PERM',
              'custom_sort dispatch: str -> _sort_custom, list -> each in order, callable -> list.sort')
    ps = ctx.repo.func('PLSSDesc.sort_tracts')
    dcalls = [c for c in walk_local(ps.node) if isinstance(c, ast.Call) and (dotted(c.func) or '').endswith('custom_sort')]
    if dcalls:
        kwv = {k.arg: k.value for k in dcalls[0].keywords if k.arg}
        keyv = kwv.get('key', dcalls[0].args[0] if dcalls[0].args else None)
        if keyv is not None:
            cfg_, rd_ = flow.analyse(ps.node)
            defs_ = rd_.reaching(flow.stmt_node(cfg_, keyv), keyv.id) if isinstance(keyv, ast.Name) else set()
            altered = isinstance(keyv, ast.Name) and any(d[0] != 'param' for d in defs_)
            ctx.tri(isinstance(keyv, ast.Name) and keyv.id == 'key' and not altered, altered, 'PERM',
                    'PLSSDesc.sort_tracts hands its key to TractList.custom_sort unchanged',
                    detail_bad="sort_tracts rewrites the key before delegating: sort_tracts(k) and tracts.custom_sort(k) "
                               "no longer apply the same passes (a dropped pass changes the order of ties)",
                    key="PERM|PLSSDesc.sort_tracts|key-altered", where=common.loc(ps, dcalls[0]))
    t = ' '.join(norm(x) for x in walk_local(ps.node) if isinstance(x, ast.stmt))
    ctx.shape('self.tracts.custom_sort(key=key, reverse=reverse)' in t, 'PERM',
              'PLSSDesc.sort_tracts delegates to TractList.custom_sort')
