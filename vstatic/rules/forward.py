"""
Option forwarding between the layers of the library (FORWARD / DEADPARAM /
SIB-DEFAULTS).

pyTRS hands its options down by name: PLSSDesc.parse -> PLSSParser ->
ChunkParser / Tract.parse -> TractParser -> parse_aliquot ..., TRS wrappers
-> construct_trs, list wrappers -> _TRSTractList methods.  Three rules are
decided from the resolved call sites, all with an empty baseline on the
pinned tree (so no exception table is needed):

  DEADPARAM     a parameter that is never read in its function although a
                callee invoked there (or an attribute of ``self``) carries the
                same name: the option given by the caller has no effect.
  FORWARD       a parameter handed to a callee in the slot of a *different*
                parameter of that callee while the callee also has a
                parameter of the same name (swapped / shifted arguments).
  SIB-DEFAULTS  wrapper and callee give the same-named parameter two
                different constant defaults (None = "decide later" excluded).

Callee resolution: the engine resolver (nested helper, module function,
self.method) first; otherwise every function / __init__ of that name in the
package, provided they all agree on the parameter list.
"""

import ast

from ..srcmodel import walk_local, dotted, norm, literals, enclosing_stmt
from . import common


def _sig(f, bound):
    a = f.node.args
    pos = [x.arg for x in a.posonlyargs + a.args]
    if bound and pos and pos[0] in ('self', 'cls'):
        pos = pos[1:]
    return pos, [x.arg for x in a.kwonlyargs]


def _is_method_like(f):
    a = f.node.args
    ps = [x.arg for x in a.posonlyargs + a.args]
    return bool(ps) and ps[0] in ('self', 'cls')


def resolve(ctx, fi, call):
    """-> (callee FuncInfo, positional names, kw-only names) or None"""
    from .. import flow
    nm = dotted(call.func)
    if not nm:
        return None
    last = nm.split('.')[-1]
    node = flow.RESOLVER(nm, call, fi.node) if flow.RESOLVER else None
    cf = getattr(node, '_func', None) if node is not None else None
    if cf is not None and cf.node.name == '__init__' and not last[:1].isupper():
        cf = None
    if cf is None:
        if last[:1].isupper():
            cands = [f for f in ctx.repo.funcs.values()
                     if f.node.name == '__init__' and f.cls is not None and f.cls.name == last and f.outer is None]
        else:
            cands = [f for f in ctx.repo.funcs.values() if f.node.name == last]
        if not cands:
            return None
        sigs = {(tuple(_sig(f, _is_method_like(f))[0]), tuple(_sig(f, _is_method_like(f))[1])) for f in cands}
        if len(sigs) != 1:
            return None
        cf = cands[0]
    if cf is fi:
        return None
    bound = _is_method_like(cf) and ('.' in nm or last[:1].isupper() or cf.node.name == '__init__')
    if _is_method_like(cf) and not bound:
        # Class.method(obj, ...) called through the class: first arg is self
        bound = False
    pos, kwo = _sig(cf, bound)
    return cf, pos, kwo


def _own_params(fi):
    return [p for p in fi.params() if p not in ('self', 'cls')]


def _is_stub(fi):
    real = [s for s in fi.node.body if not (isinstance(s, ast.Expr) and isinstance(s.value, ast.Constant))]
    return len(real) <= 1 and (not real or isinstance(real[0], (ast.Pass, ast.Raise)))


def dead_params(ctx, funcs, rule='DEADPARAM'):
    n = 0
    for fi in funcs:
        if _is_stub(fi):
            continue
        loads = {x.id for x in ast.walk(fi.node) if isinstance(x, ast.Name) and isinstance(x.ctx, ast.Load)}
        dead = [p for p in _own_params(fi) if p not in loads and not p.startswith('_')]
        n += len(_own_params(fi))
        if not dead:
            continue
        callee_params = set()
        for c in walk_local(fi.node):
            if isinstance(c, ast.Call):
                r = resolve(ctx, fi, c)
                if r:
                    callee_params |= set(r[1]) | set(r[2])
        members = set()
        top = fi
        while top.outer is not None:
            top = top.outer
        if top.cls is not None:
            members = set(ctx.repo.class_members(top.cls))
        for p in dead:
            construct = f"{fi.qualname}({p})"
            if p in callee_params or p in members:
                ctx.violation(rule, construct,
                              f"parameter `{p}` is never read in {fi.qualname} although "
                              f"{'a function called there takes' if p in callee_params else 'the object has'} `{p}`: "
                              f"what the caller passes has no effect",
                              key=f"{rule}|{fi.qualname}|{p}", where=fi.loc)
            else:
                ctx.undecided(rule, construct, f"parameter `{p}` is never read (no same-named option downstream)")
    return n


def swapped_forward(ctx, funcs, rule='FORWARD'):
    n = 0
    for fi in funcs:
        wp = set(_own_params(fi))
        if not wp:
            continue
        stored = {x.id for x in ast.walk(fi.node) if isinstance(x, ast.Name) and isinstance(x.ctx, ast.Store)}
        for c in walk_local(fi.node):
            if not isinstance(c, ast.Call):
                continue
            r = resolve(ctx, fi, c)
            if not r:
                continue
            cf, pos, kwo = r
            allp = set(pos) | set(kwo)
            binds = []
            for i, arg in enumerate(c.args):
                if isinstance(arg, ast.Starred):
                    break
                if isinstance(arg, ast.Name) and i < len(pos):
                    binds.append((arg.id, pos[i], arg))
            for k in c.keywords:
                if k.arg and isinstance(k.value, ast.Name):
                    binds.append((k.value.id, k.arg, k.value))
            for p, q, node in binds:
                if p not in wp:
                    continue
                n += 1
                if p != q and p in allp and q in wp:
                    ctx.violation(rule, f"{fi.qualname} -> {cf.qualname}: `{p}` handed over as `{q}`",
                                  f"`{norm(c)[:90]}` passes this function's `{p}` in the slot of the callee's `{q}` "
                                  f"(the callee has its own `{p}`): the two options are swapped / shifted",
                                  key=f"{rule}|{fi.qualname}|{cf.node.name}|{p}->{q}", where=common.loc(fi, c))
    return n


def default_agreement(ctx, funcs, rule='SIB-DEFAULTS'):
    n = 0
    for fi in funcs:
        wd = fi.param_defaults()
        for c in walk_local(fi.node):
            if not isinstance(c, ast.Call):
                continue
            r = resolve(ctx, fi, c)
            if not r:
                continue
            cf, pos, kwo = r
            cd = cf.param_defaults()
            binds = []
            for i, arg in enumerate(c.args):
                if isinstance(arg, ast.Starred):
                    break
                if isinstance(arg, ast.Name) and i < len(pos):
                    binds.append((arg.id, pos[i]))
            for k in c.keywords:
                if k.arg and isinstance(k.value, ast.Name):
                    binds.append((k.value.id, k.arg))
            for p, q in binds:
                if p != q or wd.get(p) is None or cd.get(q) is None:
                    continue
                a, b = wd[p], cd[q]
                if not (isinstance(a, ast.Constant) and isinstance(b, ast.Constant)):
                    continue
                if a.value is None:
                    continue
                if b.value is None:
                    # the callee's None means "keep what is configured"; a
                    # wrapper that defaults to a concrete switch value forces it
                    if isinstance(a.value, bool) and fi.node.name != '__init__':
                        n += 1
                        ctx.violation(rule, f"{fi.qualname}({p}={a.value!r}) agrees with {cf.qualname}({q}=None)",
                                      f"{fi.qualname} defaults `{p}` to {a.value!r} and hands it to {cf.qualname}, where the default "
                                      f"None means 'use what the object is configured with': a plain call of the wrapper now "
                                      f"overrides the configured setting", key=f"{rule}|{fi.qualname}|{cf.node.name}|{p}",
                                      where=fi.loc)
                    continue
                n += 1
                if a.value != b.value and isinstance(a.value, str) and isinstance(b.value, str):
                    # a mode word the callee resolves itself:  if P == '<b>': P = '<x>' [...]
                    resolved = set()
                    for st_ in walk_local(cf.node):
                        if isinstance(st_, (ast.If, ast.IfExp)) and any(
                                txt == f"{q} == {b.value!r}" and pol for _e, txt, pol in literals([(st_.test, True)])):
                            for y in ast.walk(st_):
                                if isinstance(y, ast.Assign) and norm(y.targets[0]) == q and isinstance(y.value, ast.Constant):
                                    resolved.add(y.value.value)
                    if resolved:
                        n += 1
                        ctx.check(a.value in resolved, rule,
                                  f"{fi.qualname}({p}={a.value!r}) names what {cf.qualname}({q}={b.value!r}) resolves to",
                                  f"{b.value!r} -> {sorted(resolved)}",
                                  f"{fi.qualname} defaults `{p}` to {a.value!r}, but {cf.qualname}'s own default {b.value!r} resolves "
                                  f"to {sorted(resolved)}: the wrapper silently applies another mode than a direct call",
                                  key=f"{rule}|{fi.qualname}|{cf.node.name}|{p}", where=fi.loc)
                        continue
                if a.value != b.value and (isinstance(a.value, str) or isinstance(b.value, str)):
                    # two mode words may name the same behaviour (PLSSDesc.
                    # filter_duplicates 'instance' == TractList 'default')
                    ctx.undecided(rule, f"{fi.qualname}({p}={a.value!r}) vs {cf.qualname}({q}={b.value!r})",
                                  "different mode words; whether they mean the same is not decided")
                    continue
                ctx.check(a.value == b.value, rule,
                          f"{fi.qualname}({p}={a.value!r}) agrees with {cf.qualname}({q}={b.value!r})",
                          detail_bad=f"{fi.qualname} defaults `{p}` to {a.value!r} but hands it to {cf.qualname}, whose own "
                                     f"default is {b.value!r}: the two entry points behave differently when the option is "
                                     f"left out",
                          key=f"{rule}|{fi.qualname}|{cf.node.name}|{p}", where=fi.loc)
    return n


def check_all(ctx, module_suffixes=None, funcs=None, rules=('DEADPARAM', 'FORWARD', 'SIB-DEFAULTS')):
    if funcs is None:
        funcs = [f for f in ctx.repo.funcs.values()
                 if module_suffixes is None or any(f.module.name.endswith(s) for s in module_suffixes)]
    out = {}
    if 'DEADPARAM' in rules:
        out['params'] = dead_params(ctx, funcs)
    if 'FORWARD' in rules:
        out['forwarded'] = swapped_forward(ctx, funcs)
    if 'SIB-DEFAULTS' in rules:
        out['defaults'] = default_agreement(ctx, funcs)
    if 'FORWARD' in rules:
        out['delegates'] = delegate_names(ctx, funcs)
    out['stores'] = dead_stores(ctx, funcs) + overwritten_attr_stores(ctx, funcs)
    out['returns'] = mixed_returns(ctx, funcs)
    out['shadow'] = instance_shadow_updates(ctx, funcs)
    out['lengths'] = stale_lengths(ctx, funcs)
    out['gates'] = stale_loop_gates(ctx, funcs)
    out['bounds'] = index_vs_len(ctx, funcs)
    from . import memo
    out['memo'] = memo.check(ctx, funcs)
    out['validate'] = validated_on_every_path(ctx, funcs)
    out['prefilters'] = common.prefilters(ctx, funcs)
    out['aliases'] = common.alias_grown_in_place(ctx, funcs)
    ctx.ok('FORWARD', f"option forwarding in {len(funcs)} functions",
           f"{out.get('params', 0)} parameters examined for use, {out.get('forwarded', 0)} arguments handed "
           f"down under a parameter name, {out.get('defaults', 0)} default pairs compared, "
           f"{out.get('stores', 0)} computed local values checked for use")
    ctx.floor('functions examined for option forwarding', len(funcs), 5)
    return out


def delegate_names(ctx, funcs, rule='FORWARD'):
    """
    A thin wrapper `def X(self, ...): return self.<part>.Y(...)` whose
    delegate class also has a method called X must delegate to X: calling the
    sibling Y is a copy/paste slip (iter_to_list -> iter_to_dict).  Empty
    baseline on the pinned tree.
    """
    by_class = {ci.name: set(ci.methods) for ci in ctx.repo.classes.values()}
    n = 0
    for fi in funcs:
        if fi.cls is None or fi.outer is not None:
            continue
        body = [s for s in fi.node.body if not (isinstance(s, ast.Expr) and isinstance(s.value, ast.Constant))]
        if not body:
            continue
        last = body[-1]
        call = last.value if isinstance(last, (ast.Return, ast.Expr)) and isinstance(getattr(last, 'value', None), ast.Call) else None
        if call is None:
            continue
        parts = (dotted(call.func) or '').split('.')
        if len(parts) != 3 or parts[0] != 'self':
            continue
        x, y = fi.node.name, parts[2]
        own = {fi.cls.name} | {b for b in getattr(fi.cls, 'bases', [])}
        owners = [c for c, ms in by_class.items() if x in ms and y in ms and c not in own
                  and not any(c == k.name for k in ctx.repo.classes.values() if fi.cls.name in getattr(k, 'bases', []))]
        if not owners:
            continue
        n += 1
        ctx.check(x == y, rule, f"{fi.qualname} delegates to the method of the same name",
                  f"self.{parts[1]}.{y}(...)",
                  f"`{norm(call)[:70]}`: {fi.qualname} hands over to `{y}` although {owners[0]} has a `{x}` of its own "
                  f"(copy/paste from the sibling wrapper): callers get the other method's kind of result",
                  key=f"{rule}|{fi.qualname}|delegate|{y}", where=common.loc(fi, call))
    return n


def dead_stores(ctx, funcs, rule='DEADSTORE'):
    """
    A value that is computed (not a constant initialiser), bound to a local
    name and never read on any path: the normalised / selected / converted
    value that the following code was meant to use is dropped, and the code
    works on something else.  Reaching-definitions over the CFG; names read in
    nested functions, lambdas and comprehensions count as read.  One constant
    initialiser (`sec_mo = None`) is the whole baseline on the pinned tree.
    """
    from .. import flow as _flow
    n = 0
    for fi in funcs:
        try:
            cfg, rd = _flow.analyse(fi.node)
        except Exception:
            continue
        used = set()
        for node in cfg.nodes:
            for u in _flow._uses_of(node):
                for d in rd.reaching(node, u.id):
                    used.add(d)
        nested_loads = set()
        for x in ast.walk(fi.node):
            if isinstance(x, (ast.FunctionDef, ast.AsyncFunctionDef, ast.Lambda)) and x is not fi.node:
                for y in ast.walk(x):
                    if isinstance(y, ast.Name) and isinstance(y.ctx, ast.Load):
                        nested_loads.add(y.id)
        for d, val in rd.defs.items():
            if d[0] == 'param':
                continue
            nid, name = d
            node = cfg.nodes[nid]
            if node.kind != 'stmt' or not isinstance(node.ast, ast.Assign) or name in nested_loads or name.startswith('_'):
                continue
            if isinstance(node.ast.value, ast.Constant) or not isinstance(val, ast.AST):
                continue
            if len(node.ast.targets) != 1 or not isinstance(node.ast.targets[0], ast.Name):
                continue            # tuple unpacking: unused fields are normal
            if node.ast.targets[0].id != name:
                continue            # a `:=` inside the assigned expression, read by that expression
            n += 1
            if d not in used:
                ctx.violation(rule, f"{fi.qualname}: the value computed for `{name}` is used",
                              f"`{norm(node.ast)[:80]}` is never read afterwards: the following code works on something "
                              f"else than the value prepared for it",
                              key=f"{rule}|{fi.qualname}|{name}", where=common.loc(fi, node.ast))
    return n


def overwritten_attr_stores(ctx, funcs, rule='DEADSTORE'):
    """
    `self.X = <computed>` that is followed - before anything can read it (no
    read of self.X, no call on self, self not handed out) - by an
    unconditional `self.X = ...` at the top level of the same function: the
    first value is lost (a block moved above the initialisers it depends on).
    Empty baseline on the pinned tree.
    """
    n = 0
    for fi in funcs:
        stores = {}
        for i, st in enumerate(fi.node.body):
            for x in ast.walk(st):
                if isinstance(x, ast.Attribute) and isinstance(x.ctx, ast.Store) and norm(x.value) == 'self':
                    stores.setdefault(x.attr, []).append((i, st, x))
        for attr, lst in stores.items():
            for (i, st, x) in lst:
                par = x._parent
                v = par.value if isinstance(par, ast.Assign) else None
                if v is None or isinstance(v, ast.Constant) or (
                        isinstance(v, (ast.List, ast.Dict, ast.Tuple, ast.Set)) and not getattr(v, 'elts', getattr(v, 'keys', []))):
                    continue
                # a store inside a branch that leaves the function (`if opted_out: self.X = ...; return`)
                # is never followed by the later store
                from ..srcmodel import _always_exits
                leaves, node_ = False, par
                while node_ is not None and node_ is not fi.node:
                    up = getattr(node_, '_parent', None)
                    for field in ('body', 'orelse'):
                        blk = getattr(up, field, None)
                        if isinstance(blk, list) and node_ in blk and up is not fi.node and _always_exits(blk):
                            leaves = True
                    node_ = up
                if leaves:
                    continue
                for (j, st2, y) in lst:
                    if j <= i or not (isinstance(st2, ast.Assign) and any(t is y for t in st2.targets)):
                        continue
                    read = False
                    for k in range(i, j + 1):
                        for z in ast.walk(fi.node.body[k]):
                            if isinstance(z, ast.Attribute) and isinstance(z.ctx, ast.Load) and norm(z) == f"self.{attr}":
                                read = True
                            if k < j and isinstance(z, ast.Call) and ((dotted(z.func) or '').startswith('self.') or any(
                                    isinstance(a, ast.Name) and a.id == 'self' for a in list(z.args) + [kw.value for kw in z.keywords])):
                                read = True
                    n += 1
                    if not read:
                        ctx.violation(rule, f"{fi.qualname}: the value stored in self.{attr} survives until it can be read",
                                      f"`{norm(par)[:60]}` is overwritten by `{norm(st2)[:50]}` further down before anything reads "
                                      f"it: what was taken over there (e.g. the flags of the parent) is lost",
                                      key=f"{rule}|{fi.qualname}|self.{attr}|overwritten", where=common.loc(fi, st))
                        break
    return n


def mixed_returns(ctx, funcs, rule='RETURNS'):
    """
    A function that returns a value on one path and falls off its end (or has
    a bare `return`) on another hands None to callers that use the result -
    typically a `return` that slipped under an `if`.  Empty baseline on the
    pinned tree (every value-returning function returns on all paths).
    """
    from .. import flow as _flow
    n = 0
    for fi in funcs:
        rets = [r for r in walk_local(fi.node) if isinstance(r, ast.Return)]
        valued = [r for r in rets if r.value is not None and not (isinstance(r.value, ast.Constant) and r.value.value is None)]
        if not valued:
            continue
        n += 1
        try:
            cfg, _ = _flow.analyse(fi.node)
        except Exception:
            continue
        fall = [p for p, _l in cfg.exit.pred if not (p.kind == 'stmt' and isinstance(p.ast, (ast.Return, ast.Raise)))]
        bare = [r for r in rets if r.value is None]
        if fall or bare:
            site = bare[0] if bare else valued[-1]
            ctx.violation(rule, f"{fi.qualname} returns its result on every path",
                          f"`{norm(valued[-1])[:50]}` is not reached on every path: on the other one the function "
                          f"{'has a bare return' if bare else 'falls off its end'} and the caller gets None instead of the result",
                          key=f"{rule}|{fi.qualname}|mixed", where=common.loc(fi, site))
    return n


def instance_shadow_updates(ctx, funcs, rule='GLOBALS'):
    """
    `self.X += ...` (or `self.X = self.X + ...`) where X is bound in the
    class body and never assigned per instance: the update creates an
    instance attribute that shadows the class value, and the class value
    (a creation counter, say) never changes.  Empty baseline.
    """
    n = 0
    for fi in funcs:
        top = fi
        while top.outer is not None:
            top = top.outer
        ci = top.cls
        if ci is None:
            continue
        class_level = {t.id for st in ci.node.body if isinstance(st, (ast.Assign, ast.AnnAssign))
                       for t in (st.targets if isinstance(st, ast.Assign) else [st.target]) if isinstance(t, ast.Name)}

        def unmangle(a):
            pre = f"_{ci.name}"
            return a[len(pre):] if a.startswith(pre + '__') else a
        # names that denote the RUNTIME class of the object (type(self), self.__class__): an
        # augmented assignment through them re-binds the attribute on a subclass, which from then on
        # has a counter of its own
        dyn = {'type(self)', 'self.__class__'}
        for y in walk_local(fi.node):
            if isinstance(y, ast.Assign) and len(y.targets) == 1 and isinstance(y.targets[0], ast.Name) \
                    and norm(y.value) in ('type(self)', 'self.__class__'):
                dyn.add(y.targets[0].id)
        for x in walk_local(fi.node):
            if isinstance(x, (ast.AugAssign, ast.Assign)):
                tg = x.target if isinstance(x, ast.AugAssign) else x.targets[0]
                if isinstance(tg, ast.Attribute) and norm(tg.value) in dyn and unmangle(tg.attr) in class_level \
                        and fi.node.name != '__init_subclass__':
                    n += 1
                    ctx.violation(rule, f"{fi.qualname}: `{norm(x)[:40]}` updates the counter of class {ci.name}",
                                  f"`{norm(x)}` goes through the runtime class of the object: for an instance of a subclass the "
                                  f"first update creates `{unmangle(tg.attr)}` on the SUBCLASS, which then counts on its own - two "
                                  f"objects get the same value (uids repeat, the 'i' sort key no longer restores creation order "
                                  f"in a list that mixes {ci.name} with a subclass)",
                                  key=f"{rule}|{fi.qualname}|subclass-counter|{unmangle(tg.attr)}", where=common.loc(fi, x))
        for x in walk_local(fi.node):
            if isinstance(x, ast.AugAssign) and isinstance(x.target, ast.Attribute) and norm(x.target.value) == 'self':
                name = unmangle(x.target.attr)
                if name not in class_level:
                    continue
                # is it ever plainly assigned through self in this class? then it is an instance attribute
                inst = any(isinstance(y, ast.Assign) and any(isinstance(t, ast.Attribute) and norm(t.value) == 'self'
                                                               and unmangle(t.attr) == name for t in y.targets)
                           for m in ci.methods.values() for y in ast.walk(m.node))
                n += 1
                ctx.check(inst, rule, f"{fi.qualname}: `{norm(x)[:40]}` updates an instance attribute",
                          'the attribute is assigned per instance',
                          f"`{norm(x)}`: `{name}` is bound in the body of class {ci.name} and never assigned per instance, so "
                          f"this creates an instance attribute and leaves {ci.name}.{name} unchanged: the shared counter never "
                          f"advances (every object sees the same value)",
                          key=f"{rule}|{fi.qualname}|shadow|{name}", where=common.loc(fi, x))
    return n


def stale_lengths(ctx, funcs, rule='DEFUSE'):
    """
    `n = len(x)` taken before `x` is re-assigned (shortened, reordered,
    standardised) and read after that re-assignment without being taken
    again: the length no longer describes the list the later code works on.
    Statement order at the top level of the function; empty baseline.
    """
    n = 0
    for fi in funcs:
        body = fi.node.body
        for i, st in enumerate(body):
            if not (isinstance(st, ast.Assign) and len(st.targets) == 1 and isinstance(st.targets[0], ast.Name)):
                continue
            name = st.targets[0].id
            for c in ast.walk(st.value):
                if not (isinstance(c, ast.Call) and dotted(c.func) == 'len' and c.args and isinstance(c.args[0], ast.Name)):
                    continue
                seq = c.args[0].id
                if seq == name:
                    continue
                n += 1
                redef = [j for j in range(i + 1, len(body))
                         if any(isinstance(y, ast.Name) and isinstance(y.ctx, ast.Store) and y.id == seq for y in ast.walk(body[j]))]
                if not redef:
                    continue
                j = redef[0]
                used = [k for k in range(j + 1, len(body))
                        if any(isinstance(y, ast.Name) and isinstance(y.ctx, ast.Load) and y.id == name for y in ast.walk(body[k]))]
                retaken = [k for k in range(i + 1, len(body))
                           if any(isinstance(y, ast.Name) and isinstance(y.ctx, ast.Store) and y.id == name for y in ast.walk(body[k]))]
                if used and not [k for k in retaken if k <= used[0]]:
                    ctx.violation(rule, f"{fi.qualname}: `{name}` still describes `{seq}` where it is used",
                                  f"`{norm(st)}` is taken before `{norm(body[j])[:60]}` changes `{seq}`, and `{name}` is read after "
                                  f"that: the count belongs to the list as it was (a chain that standardisation shortens is treated "
                                  f"as longer than it is)", key=f"{rule}|{fi.qualname}|stale-len|{name}", where=common.loc(fi, st))
    return n


def stale_loop_gates(ctx, funcs, rule='DEFUSE'):
    """
    A condition computed ONCE from the contents of a list (`any(...)` /
    `all(...)` / a comprehension over it), in front of a loop that keeps
    re-assigning that list and reads the condition in every round: the
    answer describes the list as it was before the first round (a later round
    can create exactly the situation the condition was meant to detect).
    Empty baseline.
    """
    n = 0
    for fi in funcs:
        body = fi.node.body
        for i, st in enumerate(body):
            if not (isinstance(st, ast.Assign) and len(st.targets) == 1 and isinstance(st.targets[0], ast.Name)):
                continue
            gate = st.targets[0].id
            v = st.value
            scans = [c for c in ast.walk(v) if (isinstance(c, ast.Call) and dotted(c.func) in ('any', 'all', 'sum', 'max', 'min'))
                     or isinstance(c, (ast.GeneratorExp, ast.ListComp))]
            if not scans:
                continue
            seqs = {x.id for x in ast.walk(v) if isinstance(x, ast.Name) and isinstance(x.ctx, ast.Load)} - {gate}
            for lp in body[i + 1:]:
                if not isinstance(lp, (ast.While, ast.For)):
                    continue
                reassigned = {y.id for y in ast.walk(lp) if isinstance(y, ast.Name) and isinstance(y.ctx, ast.Store)}
                hot = sorted(seqs & reassigned)
                reads = [y for y in ast.walk(lp) if isinstance(y, ast.Name) and isinstance(y.ctx, ast.Load) and y.id == gate]
                retaken = gate in reassigned
                if hot and reads and not retaken:
                    # only if the list is re-derived from itself (it really changes from round to round)
                    self_fed = any(isinstance(a, ast.Assign) and any(isinstance(t, ast.Name) and t.id == hot[0] for t in a.targets)
                                   and any(isinstance(x, ast.Name) and x.id == hot[0] for x in ast.walk(a.value)) for a in ast.walk(lp))
                    if not self_fed:
                        continue
                    n += 1
                    ctx.violation(rule, f"{fi.qualname}: `{gate}` is recomputed when `{hot[0]}` changes",
                                  f"`{norm(st)[:70]}` is evaluated once, before the loop at line {lp.lineno}; that loop re-assigns "
                                  f"`{hot[0]}` in every round and still decides by `{gate}`: a situation that only arises after a "
                                  f"round (two halves combined into a quarter that now stands in front of a half) is never seen",
                                  key=f"{rule}|{fi.qualname}|stale-gate|{gate}", where=common.loc(fi, st))
    return n


def index_vs_len(ctx, funcs, rule='BOUND'):
    """`for i, x in enumerate(S): ... i == len(S)` can never be true (the
    index stops at len(S) - 1): the branch it guards is dead.  Empty baseline."""
    n = 0
    for fi in funcs:
        for lp in walk_local(fi.node):
            if not (isinstance(lp, ast.For) and isinstance(lp.iter, ast.Call) and dotted(lp.iter.func) == 'enumerate'
                    and lp.iter.args and isinstance(lp.target, ast.Tuple) and isinstance(lp.target.elts[0], ast.Name)):
                continue
            start = 0
            for k in lp.iter.keywords:
                if k.arg == 'start' and isinstance(k.value, ast.Constant):
                    start = k.value.value
            if len(lp.iter.args) > 1 and isinstance(lp.iter.args[1], ast.Constant):
                start = lp.iter.args[1].value
            idx, seq = lp.target.elts[0].id, norm(lp.iter.args[0])
            for c in ast.walk(lp):
                if isinstance(c, ast.Compare) and len(c.ops) == 1 and isinstance(c.ops[0], ast.Eq):
                    sides = [c.left, c.comparators[0]]
                    names = [s_ for s_ in sides if isinstance(s_, ast.Name) and s_.id == idx]
                    lens = [s_ for s_ in sides if isinstance(s_, ast.Call) and dotted(s_.func) == 'len' and s_.args
                            and norm(s_.args[0]) == seq]
                    if names and lens:
                        n += 1
                        ctx.check(start >= 1, rule, f"{fi.qualname}: `{norm(c)}` can be true inside `for {idx}, ... in enumerate({seq})`",
                                  f"enumerate starts at {start}",
                                  f"`{norm(c)}`: the index of enumerate({seq}) runs from {start} to len({seq}) - 1{' + ' + str(start) if start else ''}, "
                                  f"so this is never true and the branch for the LAST element never runs (text after the last match is "
                                  f"neither a block nor reported)", key=f"{rule}|{fi.qualname}|index-eq-len|{idx}", where=common.loc(fi, c))
    return n


# ----------------------------------------------------------------------
# VALIDATE: an argument that a callee checks (raises on) is checked on every
# path through the wrapper that hands it down
def _derived_from(fi, names):
    """locals of fi whose value derives from any of ``names`` (flow-insensitive)"""
    from .memo import _Inputs
    inp = _Inputs(None, fi)
    out = set(names)
    changed = True
    while changed:
        changed = False
        for loc_, exprs in inp.defs.items():
            if loc_ in out:
                continue
            if any(isinstance(n, ast.Name) and n.id in out for e in exprs for n in ast.walk(e)):
                out.add(loc_)
                changed = True
    return out


def validated_params(ctx, g, depth=3, _memo=None):
    """parameters of ``g`` that some raise in g (or in a callee the parameter
    is handed to) is conditional on"""
    _memo = _memo if _memo is not None else {}
    if g.fullname in _memo:
        return _memo[g.fullname]
    _memo[g.fullname] = set()
    from ..srcmodel import facts_at
    out = set()
    params = _own_params(g)
    der = {p: _derived_from(g, {p}) for p in params}
    for r in walk_local(g.node):
        if isinstance(r, ast.Raise):
            names = {n.id for e, _t, _p in facts_at(r) for n in ast.walk(e) if isinstance(n, ast.Name)}
            # raise inside `except` that follows a conversion of the parameter (int(p), d[p])
            h = getattr(r, '_parent', None)
            while h is not None and not isinstance(h, (ast.FunctionDef, ast.ExceptHandler)):
                h = getattr(h, '_parent', None)
            if isinstance(h, ast.ExceptHandler):
                t = getattr(h, '_parent', None)
                if isinstance(t, ast.Try):
                    names |= {n.id for b in t.body for n in ast.walk(b) if isinstance(n, ast.Name)}
            for p in params:
                if names & der[p]:
                    out.add(p)
    if depth > 0:
        for c in walk_local(g.node):
            if not isinstance(c, ast.Call):
                continue
            r = resolve(ctx, g, c)
            if not r:
                continue
            cf, pos, kwo = r
            vp = validated_params(ctx, cf, depth - 1, _memo)
            if not vp:
                continue
            for i, a in enumerate(c.args):
                if i < len(pos) and pos[i] in vp and isinstance(a, ast.Name):
                    out |= {p for p in params if a.id in der[p]}
            for k in c.keywords:
                if k.arg in vp and isinstance(k.value, ast.Name):
                    out |= {p for p in params if k.value.id in der[p]}
    _memo[g.fullname] = out
    return out


def _stmt_of(node):
    st = node
    while st is not None and not isinstance(st, ast.stmt):
        st = getattr(st, '_parent', None)
    return st


def _dominates(call, target_stmt, func_node):
    """the statement holding ``call`` is a direct child of a block on the
    ancestor chain of ``target_stmt`` (or of the function body) and comes first"""
    sc = _stmt_of(call)
    # no short-circuit / conditional expression between the statement and the call
    x = call
    while x is not sc:
        p = getattr(x, '_parent', None)
        if isinstance(p, (ast.IfExp, ast.BoolOp, ast.Lambda, ast.ListComp, ast.GeneratorExp, ast.DictComp, ast.SetComp)) \
                and not (isinstance(p, ast.IfExp) and x is p.test) \
                and not (isinstance(p, ast.BoolOp) and x is p.values[0]):
            return False
        x = p
    owner = getattr(sc, '_parent', None)
    blk = None
    for field in ('body', 'orelse', 'finalbody'):
        b = getattr(owner, field, None)
        if isinstance(b, list) and sc in b:
            blk = b
    if blk is None:
        return False
    if isinstance(owner, (ast.For, ast.While)):
        # inside a loop: dominates only later statements of the same iteration
        pass
    if target_stmt is None:                     # falling off the end of the function
        return owner is func_node and blk is func_node.body
    t = target_stmt
    while t is not None and t is not func_node:
        p = getattr(t, '_parent', None)
        if p is owner and t in blk:
            return blk.index(t) > blk.index(sc)
        t = p
    return False


def validated_on_every_path(ctx, funcs, rule='VALIDATE'):
    from ..srcmodel import facts_at, _always_exits
    n = 0
    memo_ = {}
    for fi in funcs:
        params = _own_params(fi)
        if not params:
            continue
        handed = {}     # param -> [(call, callee)]
        for c in walk_local(fi.node):
            if not isinstance(c, ast.Call):
                continue
            r = resolve(ctx, fi, c)
            if not r:
                continue
            cf, pos, kwo = r
            vp = validated_params(ctx, cf, 3, memo_)
            if not vp:
                continue
            for i, a in enumerate(c.args):
                if i < len(pos) and pos[i] in vp and isinstance(a, ast.Name) and a.id in params:
                    handed.setdefault(a.id, []).append((c, cf))
            for k in c.keywords:
                if k.arg in vp and isinstance(k.value, ast.Name) and k.value.id in params:
                    handed.setdefault(k.value.id, []).append((c, cf))
        if not handed:
            continue
        exits = [r for r in walk_local(fi.node) if isinstance(r, ast.Return)]
        for p, sites in handed.items():
            # only the exact shape: the validating call is an unconditional top-level
            # statement of the wrapper, and a `return` sits in front of it
            all_sites = sites
            sites = [(c, cf) for c, cf in sites
                     if _stmt_of(c) in fi.node.body and _dominates(c, None, fi.node)]
            if not sites:
                continue
            first = min(fi.node.body.index(_stmt_of(c)) for c, _cf in sites)
            n += 1
            # a path chosen by looking at any argument that is handed down for validation is a
            # deliberate decision about that call, not an oversight
            der = _derived_from(fi, set(handed))
            bad = []
            for ex in exits:
                top = ex
                while getattr(top, '_parent', None) is not fi.node:
                    top = top._parent
                if top not in fi.node.body or fi.node.body.index(top) >= first:
                    continue
                if True:
                    names = {x.id for e, _t, _pl in facts_at(ex) for x in ast.walk(e) if isinstance(x, ast.Name)}
                    if names & der:
                        continue        # the path is chosen by looking at the argument itself
                    # a call that holds the validating call in its own statement (return g(p))
                    if any(_stmt_of(c) is ex for c, _cf in all_sites):
                        continue
                bad.append(ex)
            callee = sites[0][1].qualname
            where = common.loc(fi, bad[0]) if bad and bad[0] is not None else fi.loc
            ctx.check(not bad, rule, f"{fi.qualname}: `{p}` reaches {callee} (which rejects illegal values) on every path",
                      detail_bad=f"{fi.qualname} can return "
                                 f"{'at line ' + str(bad[0].lineno) if bad and bad[0] is not None else 'at its end'} "
                                 f"without handing `{p}` to {callee}: an illegal value is silently accepted on that path "
                                 f"(the path is not chosen by looking at `{p}`)",
                      key=f"{rule}|{fi.qualname}|{p}|{callee}", where=where)
    return n


def undefined_names(ctx, funcs, rule='DEFUSE'):
    """A name that is read but bound nowhere - not in the function, not in an
    enclosing function or class-free scope, not at module level (imports and
    `from x import *` followed through the constant folder's module
    environment), not a builtin - raises NameError when the line runs (a loop
    variable the surrounding code no longer has, a helper that was renamed
    everywhere but in an error message)."""
    import builtins
    n = 0
    per_module = {}
    for fi in funcs:
        if fi.module.name in per_module:
            modnames, star_unknown = per_module[fi.module.name]
        else:
          menv = ctx.fold.module_env(fi.module.name)
          modnames = set(menv)
          for st in ast.walk(fi.module.tree):
              if isinstance(st, (ast.FunctionDef, ast.AsyncFunctionDef, ast.ClassDef)) and getattr(st, '_parent', None) is fi.module.tree:
                  modnames.add(st.name)
              elif isinstance(st, ast.Name) and isinstance(st.ctx, ast.Store):
                  # any module-level store (also under `if` / `try`)
                  p_ = getattr(st, '_parent', None)
                  while p_ is not None and not isinstance(p_, (ast.FunctionDef, ast.AsyncFunctionDef, ast.ClassDef, ast.Lambda, ast.Module)):
                      p_ = getattr(p_, '_parent', None)
                  if isinstance(p_, ast.Module):
                      modnames.add(st.id)
              elif isinstance(st, (ast.Import, ast.ImportFrom)):
                  for al in st.names:
                      if al.name != '*':
                          modnames.add((al.asname or al.name).split('.')[0])
          star_unknown = any(isinstance(st, ast.ImportFrom) and any(al.name == '*' for al in st.names) and st.level == 0
                             for st in ast.walk(fi.module.tree))
          per_module[fi.module.name] = (modnames, star_unknown)

        def bound_in(fn):
            out = set()
            a = fn.args
            for x in a.posonlyargs + a.args + a.kwonlyargs:
                out.add(x.arg)
            if a.vararg:
                out.add(a.vararg.arg)
            if a.kwarg:
                out.add(a.kwarg.arg)
            for x in ast.walk(fn):
                if isinstance(x, ast.Name) and isinstance(x.ctx, (ast.Store, ast.Del)):
                    # the target of a comprehension is local to the comprehension (a walrus inside it is not)
                    p_ = getattr(x, '_parent', None)
                    in_comp_target = False
                    while p_ is not None and p_ is not fn:
                        if isinstance(p_, ast.NamedExpr):
                            break
                        if isinstance(p_, ast.comprehension):
                            in_comp_target = any(y is x for y in ast.walk(p_.target))
                            break
                        if isinstance(p_, (ast.stmt,)):
                            break
                        p_ = getattr(p_, '_parent', None)
                    if not in_comp_target:
                        out.add(x.id)
                elif isinstance(x, (ast.FunctionDef, ast.AsyncFunctionDef, ast.ClassDef)) and x is not fn:
                    out.add(x.name)
                elif isinstance(x, (ast.Import, ast.ImportFrom)):
                    for al in x.names:
                        out.add((al.asname or al.name).split('.')[0])
                elif isinstance(x, ast.ExceptHandler) and x.name:
                    out.add(x.name)
                elif isinstance(x, (ast.Global, ast.Nonlocal)):
                    out |= set(x.names)
                elif isinstance(x, ast.arg):
                    out.add(x.arg)          # parameters of nested lambdas / functions (over-approximation)
            return out
        scope = set()
        f = fi
        while f is not None:
            scope |= bound_in(f.node)
            f = f.outer
        top = fi
        while top.outer is not None:
            top = top.outer
        if top.cls is not None:
            scope.add('__class__')
        for x in walk_local(fi.node):
            if isinstance(x, ast.Name) and isinstance(x.ctx, ast.Load):
                nm = x.id
                if nm in scope or nm in modnames or hasattr(builtins, nm) or nm in ('__file__', '__name__', '__doc__'):
                    continue
                # bound by a comprehension that encloses the read?
                p_ = getattr(x, '_parent', None)
                comp_bound = False
                while p_ is not None and not isinstance(p_, (ast.FunctionDef, ast.AsyncFunctionDef, ast.Module)):
                    if isinstance(p_, (ast.ListComp, ast.SetComp, ast.GeneratorExp, ast.DictComp)):
                        if any(isinstance(y, ast.Name) and y.id == nm for g in p_.generators for y in ast.walk(g.target)):
                            comp_bound = True
                    p_ = getattr(p_, '_parent', None)
                if comp_bound:
                    continue
                n += 1
                if star_unknown:
                    ctx.undecided(rule, f"{fi.qualname}: `{nm}` is bound somewhere", 'the module star-imports from outside the package')
                    continue
                ctx.violation(rule, f"{fi.qualname}: `{nm}` is bound somewhere",
                              f"`{nm}` (line {x.lineno}) is read in {fi.qualname} but is bound neither there, nor in an enclosing "
                              f"function, nor at module level, nor is it a builtin: NameError as soon as this line runs "
                              f"(`{norm(enclosing_stmt(x))[:70]}`)", key=f"{rule}|{fi.qualname}|undefined-name|{nm}",
                              where=common.loc(fi, x))
    return n
