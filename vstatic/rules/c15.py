"""
C15 -- results depend only on text and settings, not on what ran before.
"""

import ast

from .. import AnalysisError, flow
from ..srcmodel import walk_local, norm, dotted, guards, enclosing_stmt, parent
from . import common, forward
from .c08 import calltime_defaults


META = {
    'explanation': (
        "ESCAPE: the dict kept in the TRS cache flows only into the private "
        "__trs_dict attribute, every read of it is a subscript read, and the "
        "public trs_to_dict returns a dict built in that call. GLOBALS: "
        "inventory of writers of module-/class-level state (only the "
        "confirmed cache/counter writers exist; no function mutates a "
        "module-level container, directly or through a local alias; no "
        "mutable default argument; MasterConfig defaults are read inside the "
        "call, never bound in a signature that a public route relies on). "
        "Cache purity: keyed by the complete input string, written only under "
        "_USE_CACHE, and the cached function reads nothing but its argument "
        "and constants. Not decided: histories as such."
        ' Also: class-level containers mutated through instances, cache lookup key is the raw input, parser input does not derive from committed results, frozen MasterConfig fallbacks.'
        " Round 7: rule MEMO over the whole package - a result cache is keyed by everything the skipped computation reads (by value, not identity / length) and a hit restores every attribute a miss sets; lru_cache'd functions depend on their parameters only."
        ' Round 8: MEMO also sees last-key caches, chained stores and fills that ignore the condition of their look-up; a Config object is not rewritten in place.'
        ' Round 9: _UNDEF_* / _ERR_* placeholders are rebuilt from parts of their own kind; a filtered **kwargs dict does not fall back to an import-time MasterConfig default.'
        ' Round 10: a class-level store targets an attribute the class declares or the package reads (`cls._CACHE = {}` beside `TRS.__CACHE` is reported); evicting entries of a memo is not a mutation of shared state.'
        ' Round 11: _recompile empties the cache on every path (a condition comparing the new pattern with the attribute it has just overwritten never holds); only a reader that branches on _USE_CACHE counts.'
        " Round 12: field reads of an immutable record hand out nothing shared; the counter's reader is whatever _sort_custom refers to."),
    'families': ['ESCAPE', 'GLOBALS', 'PURITY', 'FORWARD', 'DEADPARAM', 'SIB-DEFAULTS'],
}

def placeholder_kinds(ctx, rule='TBL'):
    """The derived placeholders are rebuilt from parts of their own kind: an
    `_UNDEF_*` constant from `_UNDEF_*` parts, an `_ERR_*` one from `_ERR_*`
    parts.  A mixed one ('___z___zXX' as the "undefined" TRS) makes every
    default-constructed TRS / Tract report an error section after the first
    _recompile()."""
    n = 0
    for fi in ctx.repo.funcs.values():
        if not fi.module.name.endswith(('trs.trs', 'config.master_config')):
            continue
        pairs = []
        for a in walk_local(fi.node):
            if isinstance(a, ast.Assign) and isinstance(a.targets[0], ast.Attribute):
                pairs.append((a, a.targets[0], a.value))
            elif isinstance(a, ast.Assign) and isinstance(a.targets[0], ast.Tuple) and isinstance(a.value, ast.Tuple) \
                    and len(a.targets[0].elts) == len(a.value.elts):
                pairs += [(a, t, v) for t, v in zip(a.targets[0].elts, a.value.elts) if isinstance(t, ast.Attribute)]
        for a, t_, v_ in pairs:
            if True:
                tgt = t_.attr
                kind = 'UNDEF' if '_UNDEF_' in tgt else 'ERR' if '_ERR_' in tgt else None
                if kind is None:
                    continue
                other = 'ERR' if kind == 'UNDEF' else 'UNDEF'
                parts = [x.attr for x in ast.walk(v_) if isinstance(x, ast.Attribute) and (f"_{other}_" in x.attr or f"_{kind}_" in x.attr)]
                # parts held in local names first (`undef_twprge = MC._UNDEF_TWP + MC._UNDEF_RGE`)
                for nm_ in [x for x in ast.walk(v_) if isinstance(x, ast.Name)]:
                    try:
                        parts += [at[1].split('.')[-1] for at in flow.provenance(fi.node, nm_)
                                  if at[0] == 'attr' and (f"_{other}_" in at[1] or f"_{kind}_" in at[1])]
                    except Exception:
                        pass
                if not parts:
                    continue
                n += 1
                wrong = [p_ for p_ in parts if f"_{other}_" in p_]
                ctx.check(not wrong, rule, f"{fi.qualname}: {tgt} is built from {kind} parts only",
                          detail_bad=f"`{norm(a)[:70]}` puts {wrong[0] if wrong else ''} into the {kind} placeholder: after this runs, TRS() / "
                                     f"Tract('...') / trs_to_dict(None) report {'an error' if kind == 'UNDEF' else 'an undefined'} component "
                                     f"where they reported {'an undefined' if kind == 'UNDEF' else 'an error'} one before - depending on whether "
                                     f"_recompile() was ever called in the process", key=f"{rule}|{fi.qualname}|kind-mix|{tgt}",
                          where=common.loc(fi, a))
    return n


def cache_writer(ctx):
    """The TRS method that fills the class-level cache - found by what it does
    (an item store into `...__CACHE[...]`), so a rename of the private helper
    does not lose it; the name in the property's mechanism list is the fallback."""
    ci = ctx.repo.cls('trs.trs:TRS')
    found = [m for m in ci.methods.values() if any(
        isinstance(s_, ast.Assign) and any(isinstance(t, ast.Subscript) and '__CACHE' in norm(t.value) for t in s_.targets)
        for s_ in walk_local(m.node))]
    if len(found) == 1:
        return found[0]
    return ctx.repo.func('TRS._cache_trs_to_dict')


MUT = ('append', 'extend', 'insert', 'pop', 'remove', 'clear', 'sort', 'reverse', 'update',
       'setdefault', 'add', 'discard', 'popitem')

# confirmed writers of class-level state (function -> targets), one reason each
ALLOWED_CLASS_WRITES = {
    ('Tract.__init__', 'Tract.__UID'): "creation counter; only read by the 'i' sort key",
    ('TRS._cache_trs_to_dict', 'TRS.__CACHE'): "memo write, keyed by the whole input string, gated by _USE_CACHE",
    ('TRS._clear_cache', 'cls.__CACHE'): "explicit cache reset (non-public)",
    ('TRS._recompile', 'cls._TRS_UNPACKER_REGEX'): "explicit re-configuration hook (non-public); clears the cache",
    ('TRS._recompile', 'MC._ERR_TWPRGE'): "same hook: derived placeholder",
    ('TRS._recompile', 'MC._ERR_TRS'): "same hook: derived placeholder",
    ('TRS._recompile', 'MC._UNDEF_TWPRGE'): "same hook: derived placeholder",
    ('TRS._recompile', 'MC._UNDEF_TRS'): "same hook: derived placeholder",
}


def _mutable_literal(v):
    if isinstance(v, (ast.List, ast.Dict, ast.Set, ast.ListComp, ast.DictComp, ast.SetComp)):
        return True
    if isinstance(v, ast.Call) and dotted(v.func) in ('list', 'dict', 'set', 'defaultdict', 'OrderedDict'):
        return True
    return False


def alias_roots(fi, name_node, depth=0):
    """Objects a local name may alias: ('global', id) / ('param', id) / ('fresh', text)."""
    cfg, rd = flow.analyse(fi.node)
    try:
        node = flow.stmt_node(cfg, name_node)
    except AnalysisError:
        return {('unknown', name_node.id)}
    ds = rd.reaching(node, name_node.id)
    if not ds:
        return {('global', name_node.id)}
    out = set()
    for d in ds:
        if d[0] == 'param':
            out.add(('param', d[1]))
            continue
        val = rd.defs[d]
        if isinstance(val, ast.Name) and depth < 6:
            out |= alias_roots(fi, val, depth + 1)
        elif isinstance(val, ast.Attribute):
            out.add(('attr', norm(val)))
        elif isinstance(val, tuple) or val is None:
            out.add(('fresh', 'binding'))
        else:
            out.add(('fresh', norm(val)[:40]))
    return out


def check(ctx):
    ctx.consult('trs/trs.py', 'config/master_config.py', 'tract/tract.py',
                'plssdesc/plss_preprocess.py', 'plssdesc/plss_parse.py')
    ctx.attempt(_globals_inventory)
    ctx.attempt(_class_writes)
    ctx.attempt(_class_stores_nobody_reads)
    ctx.attempt(_recompile_clears_the_cache)
    ctx.attempt(_mutable_defaults)
    ctx.attempt(_class_level_containers)
    ctx.attempt(calltime_defaults)
    ctx.attempt(_escape)
    ctx.attempt(_cache_purity)
    ctx.attempt(forward.check_all, module_suffixes=('trs.trs', 'config.master_config'))
    ctx.attempt(placeholder_kinds)
    from .c14 import settings_are_inputs    # a Config object is shared by every description created with it
    ctx.attempt(settings_are_inputs, rule='GLOBALS')
    from . import memo          # a result cache anywhere in the package is process / object state
    ctx.attempt(memo.check, list(ctx.repo.funcs.values()))
    from .c14 import fresh_inputs      # (lazy: c14 imports this module)
    ctx.attempt(fresh_inputs)


def _module_mutables(ctx):
    """module -> {name} of module-level names bound to mutable containers."""
    out = {}
    for mod in ctx.repo.modules.values():
        if mod.name.startswith('pytrs.interface_tools'):
            continue
        names = set()
        for st in mod.tree.body:
            if isinstance(st, ast.Assign) and _mutable_literal(st.value):
                for t in st.targets:
                    if isinstance(t, ast.Name):
                        names.add(t.id)
        out[mod.name] = names
    return out


def _globals_inventory(ctx):
    muts = _module_mutables(ctx)
    allmut = {n for s in muts.values() for n in s}
    ctx.notes['module_level_mutable_containers'] = sorted(allmut)
    n_sites = 0
    for fi in ctx.repo.funcs.values():
        if fi.module.name.startswith('pytrs.interface_tools'):
            continue
        # names visible as globals in this module (own + imported *)
        env = ctx.fold.module_env(fi.module.name)
        for n in walk_local(fi.node):
            if isinstance(n, ast.Global):
                ctx.violation('GLOBALS', f"{fi.qualname}: global {', '.join(n.names)}",
                              "function rebinds module-level state", key=f"GLOBALS|{fi.qualname}|global|{n.names[0]}",
                              where=common.loc(fi, n))
            tgt = None
            how = None
            if isinstance(n, ast.Call) and isinstance(n.func, ast.Attribute) and n.func.attr in MUT \
                    and isinstance(n.func.value, ast.Name):
                tgt, how = n.func.value, f".{n.func.attr}()"
            elif isinstance(n, ast.Subscript) and isinstance(n.ctx, (ast.Store, ast.Del)) \
                    and isinstance(n.value, ast.Name):
                tgt, how = n.value, '[...] ='
            elif isinstance(n, ast.AugAssign) and isinstance(n.target, ast.Name):
                # x += [...] mutates lists in place
                tgt, how = n.target, 'augmented assignment'
            if tgt is None:
                continue
            load = ast.Name(id=tgt.id, ctx=ast.Load())
            load._parent = parent(tgt) if how != 'augmented assignment' else n
            ast.copy_location(load, tgt)
            roots = alias_roots(fi, load if how == 'augmented assignment' else tgt)
            for kind, name in roots:
                if kind != 'global':
                    continue
                n_sites += 1
                # is that global a mutable container (in this module's namespace)?
                is_mut = name in allmut and name in env
                if is_mut and how == 'augmented assignment' and tgt.id == name:
                    is_mut = False     # would be a local rebinding (UnboundLocalError), not a mutation
                if is_mut and how == '[...] =':
                    # an item store into a module-level dict is the memo idiom:
                    # whether it changes results depends on the key, not decided here
                    ctx.undecided('GLOBALS', f"{fi.qualname}: `{tgt.id}{how}` on module-level `{name}`",
                                  "item store into a module-level mapping (memo / registry idiom): harmless iff keyed by the complete input")
                    continue
                if is_mut and how in ('.clear()', '.pop()', '.popitem()') and any(
                        isinstance(x, ast.Subscript) and isinstance(x.ctx, ast.Store) and isinstance(x.value, ast.Name)
                        and x.value.id == name for x in ast.walk(fi.node)):
                    # eviction from the mapping this very function fills by key (a bounded memo):
                    # removing an entry only forces a recomputation; the key is judged by MEMO
                    ctx.ok('GLOBALS', f"{fi.qualname}: `{tgt.id}{how}` on module-level `{name}`",
                           'evicts entries of the mapping the function fills by key (memo); see MEMO for the key')
                    continue
                ctx.check(not is_mut, 'GLOBALS',
                          f"{fi.qualname}: `{tgt.id}{how}` on module-level `{name}`",
                          'not a mutable module-level container',
                          f"`{norm(enclosing_stmt(n))[:80]}` mutates the module-level container `{name}` "
                          f"(reached through `{tgt.id}`): the change persists into every later call",
                          key=f"GLOBALS|{fi.qualname}|{name}|mutated", where=common.loc(fi, n))
    ctx.notes['mutation_sites_on_globals_checked'] = n_sites
    if n_sites == 0:
        ctx.ok('GLOBALS', 'no function mutates a module-level name (directly or via an alias)')
    # the scrubber tables are immutable tuples (an alias of them cannot be mutated)
    for modsuf, name in (('plss_preprocess', 'SCRUBBER_REGEXES'), ('tract_preprocess', 'SCRUBBER_REGEXES'),
                         ('tract_preprocess', 'CLEAN_QQ_REGEXES'), ('config.layouts', '_IMPLEMENTED_LAYOUTS')):
        v = ctx.fold.get(modsuf, name)
        ctx.shape(isinstance(v, tuple), 'GLOBALS', f"{modsuf}.{name} is a tuple",
                  why=f"{name} is a {type(v).__name__}: mutable, but only an actual mutation site (checked above) is a defect")
    # plss_preprocess builds its per-call list with list(...)
    fp = ctx.repo.func('plss_preprocess:plss_preprocess')
    for c in common.method_calls(fp.node, 'insert'):
        if isinstance(c.func.value, ast.Name):
            roots = alias_roots(fp, c.func.value)
            ctx.check(all(k == 'fresh' for k, _ in roots), 'GLOBALS',
                      'plss_preprocess inserts the OCR scrubber into a per-call copy',
                      f"roots {sorted(roots)}",
                      f"`{norm(c)}` acts on {sorted(roots)}: the shared scrubber table is changed "
                      f"after the first ocr_scrub parse",
                      key="GLOBALS|plss_preprocess|insert", where=common.loc(fp, c))


def _class_writes(ctx):
    seen = set()
    for fi in ctx.repo.funcs.values():
        if fi.module.name.startswith('pytrs.interface_tools'):
            continue
        for n in walk_local(fi.node):
            tgt = None
            if isinstance(n, ast.Attribute) and isinstance(n.ctx, (ast.Store, ast.Del)):
                tgt = n
            elif isinstance(n, ast.Subscript) and isinstance(n.ctx, (ast.Store, ast.Del)) \
                    and isinstance(n.value, ast.Attribute):
                tgt = n.value
            elif isinstance(n, ast.Call) and isinstance(n.func, ast.Attribute) and n.func.attr in MUT \
                    and isinstance(n.func.value, ast.Attribute):
                tgt = n.func.value
            if tgt is None or not isinstance(tgt.value, ast.Name):
                continue
            base = tgt.value.id
            if base in ('self',) or base in fi.params() and base != 'cls':
                continue
            # class-level: ClassName.attr / cls.attr / MC.attr
            is_cls = base == 'cls' or base[:1].isupper()
            if not is_cls:
                continue
            # local variables holding instances start lower-case in this repo
            key = (fi.qualname, f"{base}.{tgt.attr}")
            seen.add(key)
            if key not in ALLOWED_CLASS_WRITES and f"{base}.{tgt.attr}" == 'TRS.__CACHE' \
                    and fi.qualname == cache_writer(ctx).qualname:
                key = ('TRS._cache_trs_to_dict', 'TRS.__CACHE')       # the same writer under a new name
            if key in ALLOWED_CLASS_WRITES:
                ctx.ok('GLOBALS', f"{fi.qualname} writes {base}.{tgt.attr}", ALLOWED_CLASS_WRITES[key])
            elif isinstance(n, ast.Subscript) or (isinstance(n, ast.Call) and n.func.attr in ('setdefault', 'update')):
                # a new class-level mapping that is filled by key: memo / registry idiom
                ctx.undecided('GLOBALS', f"{fi.qualname} writes {base}.{tgt.attr}",
                              "new class-level mapping filled by key (memo idiom): harmless iff keyed by the complete input")
            elif tgt.attr in ('default_ns', 'default_ew') or tgt.attr.startswith(('_ERR', '_UNDEF', '_LEGAL')):
                ctx.violation('GLOBALS', f"{fi.qualname} writes {base}.{tgt.attr}",
                              f"`{norm(enclosing_stmt(n))[:80]}` rewrites a process-wide default / placeholder that every "
                              f"later parse reads", key=f"GLOBALS|{fi.qualname}|{base}.{tgt.attr}|classwrite",
                              where=common.loc(fi, n))
            else:
                ctx.undecided('GLOBALS', f"{fi.qualname} writes {base}.{tgt.attr}",
                              "process-wide class state that is not in the confirmed inventory; whether parse results read it is not decided")
    ctx.floor('class-level writers found', len(seen), 3)
    # the counter is only read by the i-sort
    readers = []
    for fi in ctx.repo.funcs.values():
        for n in walk_local(fi.node):
            if isinstance(n, ast.Attribute) and n.attr in ('_Tract__uid', '__uid') and isinstance(n.ctx, ast.Load):
                readers.append(fi.qualname)
    # (the reader is the sort-key evaluator of the container, whatever it is called and wherever in the
    # container class it lives: a function that _sort_custom refers to by name)
    try:
        sc_ = ctx.repo.func('_TRSTractList._sort_custom')
        sort_names = {x.id for x in ast.walk(sc_.node) if isinstance(x, ast.Name)} | {
            x.attr for x in ast.walk(sc_.node) if isinstance(x, ast.Attribute)}
    except AnalysisError:
        sort_names = set()
    readers = [r_ for r_ in readers if not (r_.startswith('_TRSTractList.') and r_.split('.')[-1] in sort_names)
               or r_ == '_TRSTractList._sort_custom.i_sort_evaluate']
    ctx.check(set(readers) <= {'_TRSTractList._sort_custom.i_sort_evaluate'}, 'GLOBALS',
              "the Tract creation counter is only read by the 'i' sort key",
              detail_bad=f"readers: {sorted(set(readers))}", key="GLOBALS|Tract.__uid|readers")
    # nothing in the package assigns MasterConfig.default_ns/ew
    for fi in ctx.repo.funcs.values():
        for n in walk_local(fi.node):
            if isinstance(n, ast.Attribute) and isinstance(n.ctx, ast.Store) \
                    and n.attr in ('default_ns', 'default_ew') and norm(n.value) in ('MasterConfig', 'MC'):
                ctx.violation('GLOBALS', f"{fi.qualname} assigns MasterConfig.{n.attr}",
                              "library code changes the process-wide default",
                              key=f"GLOBALS|{fi.qualname}|MasterConfig.{n.attr}")


def _class_level_containers(ctx):
    """A mutable container bound in a class body is shared by every instance.
    If methods mutate it through `self.<name>` (append / extend / item store)
    and no method rebinds `self.<name>` first, what one object collects shows
    up in all later ones."""
    n = 0
    for ci in ctx.repo.classes.values():
        if ci.module.name.startswith('pytrs.interface_tools'):
            continue
        shared = {}
        for st in ci.node.body:
            if isinstance(st, ast.Assign) and _mutable_literal(st.value):
                for t in st.targets:
                    if isinstance(t, ast.Name):
                        shared[t.id] = st
        if not shared:
            continue
        rebound, mutated = set(), {}
        for m in ci.methods.values():
            for x in ast.walk(m.node):
                if isinstance(x, ast.Attribute) and norm(x.value) == 'self' and x.attr in shared:
                    if isinstance(x.ctx, ast.Store):
                        rebound.add(x.attr)
                    par = x._parent
                    if isinstance(par, ast.Attribute) and par.attr in MUT and isinstance(par._parent, ast.Call) \
                            and par._parent.func is par:
                        mutated.setdefault(x.attr, (m, par._parent))
                    if isinstance(par, ast.Subscript) and par.value is x and isinstance(par.ctx, (ast.Store, ast.Del)):
                        mutated.setdefault(x.attr, (m, par))
        for name, st in sorted(shared.items()):
            n += 1
            if name in mutated and name not in rebound:
                m, site = mutated[name]
                if isinstance(site, ast.Subscript) or (isinstance(site, ast.Call) and site.func.attr == 'setdefault'):
                    # filled by key: the memo idiom; whether a later object can get a wrong
                    # answer depends on the key and on what a hit restores (rule MEMO)
                    ctx.undecided('GLOBALS', f"{ci.name}.{name} (class-level container) is not mutated through instances",
                                  f"{m.qualname} fills it by key (`{norm(site)[:50]}`): a memo, decided by the MEMO rule")
                    continue
                ctx.violation('GLOBALS', f"{ci.name}.{name} (class-level container) is not mutated through instances",
                              f"`{name} = {norm(st.value)[:30]}` is bound in the class body and {m.qualname} does "
                              f"`{norm(site)[:60]}` on it, while no method rebinds self.{name}: every instance appends to the "
                              f"same object, so results of earlier objects leak into later ones",
                              key=f"GLOBALS|{ci.name}.{name}|shared-mutated", where=common.loc(m, site))
            else:
                ctx.ok('GLOBALS', f"{ci.name}.{name} (class-level container) is not mutated through instances")
    if n == 0:
        ctx.ok('GLOBALS', 'no class binds a mutable container in its body that instances mutate')


def _mutable_defaults(ctx):
    n = 0
    for fi in ctx.repo.funcs.values():
        if fi.module.name.startswith('pytrs.interface_tools'):
            continue
        for p, d in fi.param_defaults().items():
            if d is None:
                continue
            n += 1
            if _mutable_literal(d):
                ctx.violation('GLOBALS', f"{fi.qualname}({p}={norm(d)})",
                              "mutable default argument: state leaks between calls",
                              key=f"GLOBALS|{fi.qualname}|{p}|mutable-default", where=fi.loc)
    ctx.ok('GLOBALS', f"{n} parameter defaults examined: none is a mutable container")


def _escape(ctx):
    ci = ctx.repo.cls('trs.trs:TRS')
    # what a PUBLIC function returns never comes from the cache (or the function that fills it):
    # the caller could edit the dict that every TRS with that string shares
    try:
        wname = cache_writer(ctx).node.name
    except AnalysisError:
        wname = '_cache_trs_to_dict'
    cachey = {wname} | {m.node.name for m in ci.methods.values() if m.node.name.startswith('_') and any(
        isinstance(r, ast.Return) and r.value is not None and '__CACHE' in norm(r.value) for r in walk_local(m.node))}
    for f2 in ctx.repo.funcs.values():
        if not f2.module.name.endswith('trs.trs') or f2.node.name.startswith('_') or f2.outer is not None:
            continue
        if any(isinstance(d_, ast.Name) and d_.id == 'property' for d_ in f2.node.decorator_list):
            continue
        for r in walk_local(f2.node):
            if isinstance(r, ast.Return) and r.value is not None:
                hit = [c for c in ast.walk(r.value) if (isinstance(c, ast.Call) and (dotted(c.func) or '').split('.')[-1] in cachey)
                       or (isinstance(c, ast.Attribute) and c.attr.endswith('__CACHE'))]
                if hit and not any(isinstance(c, ast.Call) and dotted(c.func) in ('dict', 'copy.copy', 'copy.deepcopy') for c in ast.walk(r.value)) \
                        and not any(isinstance(c, ast.Call) and isinstance(c.func, ast.Attribute) and c.func.attr == 'copy' for c in ast.walk(r.value)):
                    ctx.violation('ESCAPE', f"{f2.qualname} returns a dict of its own",
                                  f"`{norm(r)[:80]}` hands the caller the very dict that the TRS cache keeps for that string: editing it "
                                  f"(sec 14 -> 15) changes every existing and future TRS / Tract with that Twp/Rge/Sec",
                                  key=f"ESCAPE|{f2.qualname}|returns-cached", where=common.loc(f2, r))
    n_loads = 0
    for st in ast.walk(ci.node):
        if isinstance(st, ast.Attribute) and st.attr == '__trs_dict':
            p = parent(st)
            if isinstance(st.ctx, ast.Load):
                n_loads += 1
                ok = isinstance(p, ast.Subscript) and p.value is st and isinstance(p.ctx, ast.Load)
                ok = ok or (isinstance(p, ast.UnaryOp) and isinstance(p.op, ast.Not))   # `if not self.__trs_dict`
                # a field of an (immutable) record: `self.__trs_dict.twp` - hands out the field, not the record
                ok = ok or (isinstance(p, ast.Attribute) and p.value is st and isinstance(p.ctx, ast.Load)
                            and p.attr not in ('update', 'pop', 'popitem', 'clear', 'setdefault', '__setitem__', '__delitem__'))
                # any other test of the value (is None, truthiness in a condition) hands nothing out either
                ok = ok or isinstance(p, (ast.Compare, ast.BoolOp)) or (isinstance(p, (ast.If, ast.While, ast.IfExp)) and p.test is st)
                f = p
                while f is not None and not isinstance(f, ast.FunctionDef):
                    f = parent(f)
                where = f.name if f else '?'
                ctx.check(ok, 'ESCAPE', f"TRS.{where}: read of __trs_dict is a subscript read",
                          detail_bad=f"`{norm(p)[:70]}` hands out (or aliases) the cached dict itself: a caller "
                                     f"who edits it corrupts every later TRS/Tract with that Twp/Rge/Sec",
                          key=f"ESCAPE|TRS.{where}|{norm(p)[:40]}")
            else:
                src = norm(p.value) if isinstance(p, ast.Assign) else '?'
                wname = cache_writer(ctx).node.name
                ok = src in ('None', 'TRS.__CACHE.get(new_trs, None)', 'TRS.__CACHE.get(new_trs)', f'TRS.{wname}(new_trs)')
                ctx.shape(ok, 'ESCAPE', f"__trs_dict is set from the cache or the private caching function")
    ctx.floor('__trs_dict reads', n_loads, 6)
    # outside the class nobody touches the mangled names
    for mod in ctx.repo.modules.values():
        for n in ast.walk(mod.tree):
            if isinstance(n, ast.Attribute) and n.attr in ('_TRS__trs_dict', '_TRS__CACHE'):
                ctx.violation('ESCAPE', f"{mod.relpath}: {norm(n)}", "private cache state accessed from outside TRS",
                              key=f"ESCAPE|{mod.relpath}|{n.attr}")
    # trs_to_dict returns a dict built in this call
    fi = ctx.repo.func('TRS.trs_to_dict')
    rets = [n for n in walk_local(fi.node) if isinstance(n, ast.Return)]
    ctx.floor('trs_to_dict returns', len(rets), 2)
    for r in rets:
        if isinstance(r.value, ast.Name):
            roots = alias_roots(fi, r.value)
            ok = all(k == 'fresh' and v.startswith('{') for k, v in roots)
        else:
            ok = isinstance(r.value, ast.Dict)
            roots = {('expr', norm(r.value))}
            if not ok and isinstance(r.value, ast.Call):
                # `return TRS._compile_dict(...)`: a helper whose every return is a dict display builds it afresh
                node_ = flow.RESOLVER(dotted(r.value.func) or '', r.value, fi.node) if flow.RESOLVER else None
                if node_ is None:
                    ctx.undecided('ESCAPE', 'trs_to_dict returns a dict built in this call',
                                  f"`{norm(r.value)[:50]}`: the helper that makes the result was not resolved")
                    continue
                hrets = [x for x in ast.walk(node_) if isinstance(x, ast.Return) and x.value is not None]
                ok = bool(hrets) and all(isinstance(x.value, (ast.Dict, ast.DictComp)) or (
                    isinstance(x.value, ast.Call) and dotted(x.value.func) == 'dict') for x in hrets)
                if not ok:
                    ctx.undecided('ESCAPE', 'trs_to_dict returns a dict built in this call',
                                  f"`{norm(r.value)[:50]}`: what the helper returns was not recognised as a fresh dict")
                    continue
        ctx.check(ok, 'ESCAPE', 'trs_to_dict returns a dict built in this call',
                  f"roots {sorted(roots)}",
                  f"`{norm(r)}` can return {sorted(roots)}: not a fresh dict (shared with the cache / a TRS object)",
                  key=f"ESCAPE|trs_to_dict|return|{norm(r.value)[:30]}", where=common.loc(fi, r))
    # the module-level wrapper just delegates
    w = ctx.repo.func('trs.trs:trs_to_dict')
    ctx.shape(norm(w.node.body[-1]) == 'return TRS.trs_to_dict(trs)', 'ESCAPE',
              'pytrs.trs_to_dict delegates to TRS.trs_to_dict')
    # the cached dict is what trs_to_dict returned for the same string
    c = cache_writer(ctx)
    stores = [s for s in walk_local(c.node) if isinstance(s, ast.Assign) and isinstance(s.targets[0], ast.Subscript)
              and '__CACHE' in norm(s.targets[0].value)]
    if not stores:
        ctx.undecided('PURITY', 'the cache is keyed by the complete input string', 'cache store not recognised')
    for s in stores:
        key = s.targets[0].slice
        roots = alias_roots(c, key) if isinstance(key, ast.Name) else {('expr', norm(key))}
        whole = all(k == 'param' for k, _ in roots)
        ctx.tri(whole, not isinstance(key, ast.Name), 'PURITY', 'the cache is keyed by the complete input string',
                f"key roots {sorted(roots)}",
                f"the cache key is `{norm(key)}`, not the input string itself: different inputs share one cached decomposition",
                key="PURITY|_cache_trs_to_dict|key", where=common.loc(c, s))
        # and what is stored is what trs_to_dict returned for that same string
        pv = flow.provenance(c.node, s.value)
        ctx.shape(any(cn.endswith('trs_to_dict') for cn in flow.prov_calls(pv)), 'PURITY',
                  'the cached value is trs_to_dict(<the key>)')
    ctext = ' '.join(norm(x) for x in walk_local(c.node) if isinstance(x, ast.stmt))
    gated = bool(stores) and all(any('_USE_CACHE' in norm(t_) for t_, pol in guards(s)) for s in stores)
    early = any(isinstance(n, ast.If) and '_USE_CACHE' in norm(n.test) and any(isinstance(x, ast.Return) for x in n.body)
                for n in walk_local(c.node))
    ctx.tri(gated or early, bool(stores) and '_USE_CACHE' not in ctext, 'PURITY', 'cache is written only when _USE_CACHE is on',
            detail_bad="the cache write ignores TRS._USE_CACHE", key="PURITY|_cache_trs_to_dict|gate")


def _cache_purity(ctx):
    fi = ctx.repo.func('TRS.trs_to_dict')
    ctx.shape(any(norm(d) == 'staticmethod' for d in fi.node.decorator_list), 'PURITY',
              'trs_to_dict is a staticmethod (no instance state)')
    bad = []
    trs_cls = ctx.repo.cls('trs.trs:TRS')
    todo, seen_f = [fi.node], set()
    while todo:
        fn_ = todo.pop()
        if id(fn_) in seen_f:
            continue
        seen_f.add(id(fn_))
        for n in walk_local(fn_):
            if isinstance(n, ast.Attribute) and isinstance(n.value, ast.Name) and isinstance(n.ctx, ast.Load):
                b, a = n.value.id, n.attr
                if b in ('MC', 'MasterConfig'):
                    if not (a.startswith('_ERR') or a.startswith('_UNDEF')):
                        bad.append(norm(n))
                elif b in ('TRS', 'cls'):
                    if a in trs_cls.methods and isinstance(getattr(n, '_parent', None), ast.Call) and n._parent.func is n \
                            and a not in ('trs_to_dict', '_cache_trs_to_dict'):
                        todo.append(trs_cls.methods[a].node)      # an extracted helper: what IT reads counts
                    elif a not in ('_TRS_UNPACKER_REGEX',) and b == 'TRS':
                        bad.append(norm(n))
    ctx.check(not bad, 'PURITY', 'trs_to_dict reads only its argument, the placeholders and the compiled pattern',
              detail_bad=f"also reads {sorted(set(bad))}: a cached entry can differ from a recomputation",
              key="PURITY|trs_to_dict|reads")
    # setter consults the cache with the complete string and falls back to recomputation
    ci = ctx.repo.cls('trs.trs:TRS')
    setter = [st for st in ci.node.body if isinstance(st, ast.FunctionDef) and st.name == 'trs'
              and any('setter' in norm(d) for d in st.decorator_list)]
    if len(setter) != 1:
        raise AnalysisError("TRS.trs setter not found")
    t = [norm(s) for s in ast.walk(setter[0]) if isinstance(s, ast.stmt)]
    ctx.shape('self.__trs_dict = TRS.__CACHE.get(new_trs, None)' in t
              and f'self.__trs_dict = TRS.{cache_writer(ctx).node.name}(new_trs)' in t, 'PURITY',
              'TRS.trs setter: cache lookup by the complete string, else recompute')
    # the lookup key is the string the entry was stored under: the raw input,
    # not a tidied-up spelling of it (a hit would then return the break-down of
    # a different string than a cold cache computes)
    gets = [c for c in ast.walk(setter[0]) if isinstance(c, ast.Call) and isinstance(c.func, ast.Attribute)
            and c.func.attr in ('get', '__getitem__') and '__CACHE' in norm(c.func.value) and c.args]
    gets += [c for c in ast.walk(setter[0]) if isinstance(c, ast.Subscript) and '__CACHE' in norm(c.value)
             and isinstance(c.ctx, ast.Load)]
    sparam = [a.arg for a in setter[0].args.args if a.arg != 'self'][0]
    for g in gets:
        k = g.args[0] if isinstance(g, ast.Call) else g.slice
        pv = flow.provenance(setter[0], k)
        transformed = sorted(c for c in flow.prov_calls(pv) if c.split('.')[-1] in (
            'strip', 'lower', 'upper', 'casefold', 'replace', 'lstrip', 'rstrip', 'title', 'format', 'sub'))
        if not transformed and norm(k) != sparam:
            # sliced / indexed / otherwise derived key
            derived = [x for x in flow.provenance(setter[0], k) if x[0] in ('sub',)]
            if derived:
                transformed = sorted({d[1][:30] for d in derived})
        ctx.tri(norm(k) == sparam and not transformed, bool(transformed), 'PURITY',
                'TRS.trs setter looks the cache up under the input string itself',
                detail_bad=f"the lookup key `{norm(k)}` went through {transformed}, but entries are stored under the raw "
                           f"string: '154n97w14 ' is an error TRS with a cold cache and a valid one once '154n97w14' was "
                           f"seen, so the result depends on what was parsed before",
                key="PURITY|TRS.trs.setter|lookup-key", where=f"{ci.module.relpath}:{g.lineno}")
    # default of _USE_CACHE irrelevant to results: only the write is gated (checked above);
    # nothing else reads _USE_CACHE
    readers = set()
    for f2 in ctx.repo.funcs.values():
        for n in walk_local(f2.node):
            if isinstance(n, ast.Attribute) and n.attr == '_USE_CACHE' and isinstance(n.ctx, ast.Load):
                # only a reader that BRANCHES on the switch can make a result depend on it
                # (`return bool(cls._USE_CACHE), len(cache)` in a diagnostics helper cannot)
                p_ = parent(n)
                branching = False
                while p_ is not None and not isinstance(p_, (ast.stmt,)):
                    if isinstance(p_, (ast.IfExp, ast.BoolOp, ast.Compare)) or (isinstance(p_, ast.UnaryOp) and isinstance(p_.op, ast.Not)):
                        branching = True
                    p_ = parent(p_)
                if isinstance(p_, (ast.If, ast.While)) and any(x is n for x in ast.walk(p_.test)):
                    branching = True
                if branching:
                    readers.add(f2.qualname)
    ctx.check(readers <= {'TRS._cache_trs_to_dict', cache_writer(ctx).qualname}, 'PURITY', '_USE_CACHE only gates the cache write',
              detail_bad=f"_USE_CACHE is read by {sorted(readers)}", key="PURITY|_USE_CACHE|readers")


def _class_stores_nobody_reads(ctx):
    """`cls.X = value` / `Class.X = value` where no code of the package ever
    reads an attribute called X and the class body does not declare it: the
    store creates a new attribute next to the one that was meant (`cls._CACHE
    = {}` beside `TRS.__CACHE`), and the state it was meant to reset stays as
    it was."""
    read = set()
    for mod in ctx.repo.modules.values():
        for x in ast.walk(mod.tree):
            if isinstance(x, ast.Attribute) and isinstance(x.ctx, ast.Load):
                read.add(x.attr)
            elif isinstance(x, ast.Call) and dotted(x.func) in ('getattr', 'hasattr') and len(x.args) >= 2 \
                    and isinstance(x.args[1], ast.Constant):
                read.add(x.args[1].value)
    dynamic = any(isinstance(x, ast.Call) and dotted(x.func) == 'getattr' and len(x.args) >= 2
                  and not isinstance(x.args[1], ast.Constant)
                  for mod in ctx.repo.modules.values() for x in ast.walk(mod.tree))
    n = 0
    for fi in ctx.repo.funcs.values():
        if fi.module.name.startswith('pytrs.interface_tools'):
            continue
        top = fi
        while top.outer is not None:
            top = top.outer
        for st in walk_local(fi.node):
            if not isinstance(st, ast.Assign):
                continue
            for t in st.targets:
                if not (isinstance(t, ast.Attribute) and isinstance(t.value, ast.Name)):
                    continue
                base = t.value.id
                ci = None
                if base == 'cls' and top.cls is not None:
                    ci = top.cls
                elif base[:1].isupper():
                    ci = next((c for c in ctx.repo.classes.values() if c.name == base), None)
                if ci is None:
                    continue
                declared = set()
                for c in ctx.repo.mro(ci):
                    for b in c.node.body:
                        if isinstance(b, ast.Assign):
                            declared |= {x.id for tt in b.targets for x in ast.walk(tt) if isinstance(x, ast.Name)}
                        elif isinstance(b, ast.AnnAssign) and isinstance(b.target, ast.Name):
                            declared.add(b.target.id)
                n += 1
                if t.attr in read or t.attr in declared:
                    continue
                near = sorted(d for d in declared if d.strip('_').lower() == t.attr.strip('_').lower())
                if dynamic and not near:
                    ctx.undecided('GLOBALS', f"{fi.qualname}: `{norm(t)}` is an attribute that is read somewhere",
                                  'no literal read found, but the package reads attributes by computed name')
                    continue
                ctx.violation('GLOBALS', f"{fi.qualname}: `{norm(t)}` is an attribute that is read somewhere",
                              f"`{norm(st)[:70]}` stores into `{t.attr}`, which {ci.name} does not declare and nothing in the package reads"
                              + (f" (the class declares `{near[0]}`)" if near else '') +
                              ": the state this statement was meant to replace keeps its old content - a cache that is 'cleared' "
                              "this way still serves entries computed under the previous configuration",
                              key=f"GLOBALS|{fi.qualname}|{t.attr}|store-nobody-reads", where=common.loc(fi, st))
    if n:
        ctx.ok('GLOBALS', 'every class-level attribute store targets an attribute the class declares or the package reads',
               f"{n} stores (`cls.X = ...` / `Class.X = ...`)")
    return n


def _recompile_clears_the_cache(ctx):
    """Whatever re-derives the placeholders / the unpacker pattern
    (TRS._recompile) must empty the cache on every path: cached break-downs
    were computed under the previous placeholders.  A conditional clear is
    judged by its condition: one that compares the new pattern with the
    attribute AFTER the attribute was overwritten is always false."""
    try:
        fi = ctx.repo.func('TRS._recompile')
    except AnalysisError:
        ctx.undecided('PURITY', '_recompile empties the cache on every path', 'TRS._recompile not found')
        return
    calls = [c for c in walk_local(fi.node) if isinstance(c, ast.Call) and (dotted(c.func) or '').split('.')[-1] == '_clear_cache']
    resets = [a for a in walk_local(fi.node) if isinstance(a, ast.Assign) and any(
        isinstance(t, ast.Attribute) and t.attr.endswith('__CACHE') for t in a.targets)]
    sites = calls + resets
    construct = '_recompile empties the cache on every path'
    if not sites:
        ctx.violation('PURITY', construct, "TRS._recompile() no longer empties TRS.__CACHE: after the placeholders / the pattern "
                      "changed, TRS objects are served break-downs computed under the old ones", key="PURITY|_recompile|no-clear",
                      where=common.loc(fi, fi.node))
        return
    cfg, _rd = flow.analyse(fi.node)
    st = [enclosing_stmt(x) for x in sites]
    every = cfg.must_pass(cfg.entry, [cfg.node_of(s_) for s_ in st])
    if every:
        ctx.ok('PURITY', construct, f"{len(sites)} clearing statement(s), on every path")
        return
    # conditional: is the condition a comparison with an attribute that was already overwritten?
    for s_ in st:
        for t, pol in guards(s_):
            attrs_in_test = {norm(x) for x in ast.walk(t) if isinstance(x, ast.Attribute) and norm(x).startswith(('cls.', 'TRS.', 'self.'))}
            for a in walk_local(fi.node):
                if isinstance(a, ast.Assign) and a.lineno < s_.lineno:
                    for tg in a.targets:
                        if isinstance(tg, ast.Attribute) and any(norm(tg) == x or x.startswith(norm(tg) + '.') for x in attrs_in_test):
                            names_in_test = {x.id for x in ast.walk(t) if isinstance(x, ast.Name)}
                            if isinstance(a.value, ast.Name) and a.value.id in names_in_test:
                                ctx.violation('PURITY', construct,
                                              f"the cache is emptied only under `{norm(t)[:70]}`, but `{norm(a)[:50]}` has already run at that "
                                              f"point: both sides of the comparison are the same object, the condition never holds and the "
                                              f"cache is never emptied - stale break-downs after every re-configuration",
                                              key="PURITY|_recompile|clear-never", where=common.loc(fi, s_))
                                return
    ctx.undecided('PURITY', construct, 'the cache is emptied under a condition that was not decided')
