"""
C18 -- filter/group operations partition the list; containers never drop
silently.
"""

import ast

from .. import AnalysisError, flow
from ..srcmodel import walk_local, norm, dotted, guards, enclosing_stmt, parent, literals
from . import common, forward

META = {
    'explanation': (
        "Entry-path rule: everything that is added to the backing list "
        "`_elements` is the *result* of _verify_individual / _verify_iterable "
        "(or derives from `_elements` itself); inside the verifiers every "
        "element is either converted and appended or TypeError is raised, "
        "with the 'already verified' shortcut limited to the container's own "
        "class; grouping appends each element exactly once, unconditionally, "
        "under the plain 3-argument getattr value; selection removes by "
        "index in descending order; every method called on a container "
        "resolves in its MRO. Predicate and duplicate-method semantics are "
        "not decided."
        ' Also: swapped / dropped option forwarding in the PLSSDesc wrappers, out-parameter dicts are told from None by identity, TRS equality / hashing (shared with C12), parallel clause purity of TRS.is_error.'
        " Round 7: no silent de-duplication on insert; unverified bulk copy only for the container's own class (any spelling of the extend); is_error / is_undef tables; TRS.__eq__ true only for a TRS."
        ' Round 8: __setitem__ stores a verified iterable only under a slice; unpack_group goes into nested dicts; a first-element type test does not decide a bulk extend.'
        ' Round 10: a position (loop index) is never tested against a collection that only receives elements / keys, nor the reverse.'
        ' Round 11: partial-error TRS strings keep their valid components in the case they reach the unpacker (shared with C12).'
        ' Round 12: the verifying class methods are found by what they do; `extend([t for t in xs if t not in target])` is a silent de-duplication.'),
    'families': ['SINK', 'EXC', 'TBL', 'FORWARD', 'DEADPARAM', 'SIB-DEFAULTS'],
}

VERIFY = ('self._verify_individual', 'self._verify_iterable', 'cls._verify_individual',
          'cls._verify_iterable')


def verify_names(ctx, base):
    """dotted names of the verifying class methods, found by what they do: private classmethods of the
    container that return a value and (through calls inside the class) reach `raise TypeError` - so a
    rename (`_checked_list` / `_checked_element`) keeps them"""
    def find():
        reach = set()
        for m in base.methods.values():
            if any(isinstance(x, ast.Raise) and 'TypeError' in norm(x) for x in ast.walk(m.node)):
                reach.add(m.node.name)
        changed = True
        while changed:
            changed = False
            for m in base.methods.values():
                if m.node.name in reach:
                    continue
                if any(isinstance(c, ast.Call) and (dotted(c.func) or '').split('.')[0] in ('self', 'cls')
                       and (dotted(c.func) or '').split('.')[-1] in reach for c in ast.walk(m.node)):
                    reach.add(m.node.name)
                    changed = True
        names = [n for n in reach if n.startswith('_') and not n.startswith('__')
                 and any((dotted(d) or '') == 'classmethod' for d in base.methods[n].node.decorator_list)
                 and any(isinstance(r, ast.Return) and r.value is not None for r in ast.walk(base.methods[n].node))]
        out = set(VERIFY)
        for n in names:
            out |= {f"self.{n}", f"cls.{n}"}
        return tuple(sorted(out))
    return ctx.cache(('verify-names', base.name), find)


def check(ctx):
    ctx.consult('containers/containers.py')
    base = ctx.repo.cls('containers:_TRSTractList')
    ctx.attempt(_entry_paths, base)
    ctx.attempt(_verifiers)
    ctx.attempt(_from_multiple)
    ctx.attempt(_group)
    ctx.attempt(_selection)
    ctx.attempt(_mro_calls)
    ctx.attempt(forward.check_all, module_suffixes=('containers.containers', 'plssdesc.plssdesc'))
    ctx.attempt(_setitem_kinds)
    ctx.attempt(_unpack_group_recurses)
    ctx.attempt(common.first_element_speaks_for_all, [f for f in ctx.repo.funcs.values() if f.module.name.endswith('containers.containers')])
    ctx.attempt(common.membership_kind_mismatch, [f for f in ctx.repo.funcs.values() if f.module.name.endswith('containers.containers')])
    from .c12 import unpacker_members      # filter_errors / group_by read the components of partial-error TRS strings
    ctx.attempt(unpacker_members, rule_pos='TBL')
    ctx.attempt(common.no_dedup_on_insert, [f for f in ctx.repo.funcs.values() if f.module.name.endswith('containers.containers')])
    from .c12 import error_undef_tables      # filter_errors() relies on is_error / is_undef
    ctx.attempt(error_undef_tables)
    ctx.attempt(common.clause_purity, [f for f in ctx.repo.funcs.values() if f.module.name.endswith(('trs.trs','containers.containers'))])
    ctx.attempt(common.parallel_shapes, [f for f in ctx.repo.funcs.values() if f.module.name.endswith(('trs.trs','containers.containers'))])
    ctx.attempt(common.outparam_truthiness, [f for f in ctx.repo.funcs.values() if f.module.name.endswith('containers.containers')])
    from .c12 import _eq_hash          # filter_duplicates relies on TRS equality / hashing
    ctx.attempt(_eq_hash)
    ctx.attempt(_instance_check_first)
    ctx.attempt(common.mixed_pop_ends, [f for f in ctx.repo.funcs.values() if f.module.name.endswith('containers.containers')])


def _instance_check_first(ctx):
    """filter_duplicates finds repeated INSTANCES under every method: inside
    its element loop nothing can `continue` before the element has gone
    through the `in unique` / `unique.add` bookkeeping."""
    fi = ctx.repo.func('_TRSTractList.filter_duplicates')
    loops = [n for n in fi.node.body if isinstance(n, ast.For)]
    construct = 'filter_duplicates: the same-instance check runs for every element, whatever the method'
    if len(loops) != 1:
        ctx.undecided('ORDER', construct, 'element loop not recognised')
        return
    body = loops[0].body
    first_unique = next((i for i, st in enumerate(body) if any(isinstance(x, ast.Name) and x.id == 'unique' for x in ast.walk(st))), None)
    if first_unique is None:
        ctx.undecided('ORDER', construct, 'no `unique` bookkeeping found')
        return
    # ... and the element is REGISTERED (unique.add) unconditionally before any path can `continue`
    elem_ = norm(loops[0].target).split(', ')[-1].strip('()')
    reg = [i for i, st in enumerate(body) if isinstance(st, ast.Expr) and isinstance(st.value, ast.Call)
           and norm(st.value.func) == 'unique.add' and st.value.args and norm(st.value.args[0]) == elem_]
    # `if element in unique: ... else: unique.add(element)` registers on every path as well
    for i, st in enumerate(body):
        if isinstance(st, ast.If) and any(t_ == f"{elem_} in unique" and p_ for _e, t_, p_ in literals([(st.test, True)])) \
                and any(isinstance(x, ast.Expr) and isinstance(x.value, ast.Call) and norm(x.value.func) == 'unique.add'
                        and x.value.args and norm(x.value.args[0]) == elem_ for x in st.orelse) \
                and not any(isinstance(x, (ast.Continue, ast.Break)) for y in st.orelse for x in ast.walk(y)):
            reg.append(i)
    reg.sort()
    def _unregistered_continue(st):
        # a `continue` taken only when the element is already in `unique` loses nothing
        for x in ast.walk(st):
            if isinstance(x, ast.Continue):
                lits = [(t_, p_) for _e, t_, p_ in literals(guards(x, stop=loops[0]))]
                if not any(t_.endswith(' in unique') and p_ for t_, p_ in lits):
                    return True
        return False
    first_cont = next((i for i, st in enumerate(body) if _unregistered_continue(st)), None)
    if first_cont is not None:
        ctx.check(bool(reg) and reg[0] < first_cont, 'ORDER',
                  'filter_duplicates registers every element as seen before any `continue`',
                  detail_bad="`unique.add(element)` is not an unconditional statement ahead of the first `continue`: elements that "
                             "leave the loop body early (unparsed Tracts under method='lots_qqs') are never registered, so a later "
                             "occurrence of the same instance is not recognised as a duplicate",
                  key="ORDER|filter_duplicates|register-before-continue", where=common.loc(fi, body[first_cont]))
    early = [st for st in body[:first_unique] if any(isinstance(x, ast.Continue) for x in ast.walk(st))]
    ctx.check(not early, 'ORDER', construct, 'no `continue` before the bookkeeping',
              f"`{norm(early[0])[:70] if early else ''}` skips an element before it is compared with the instances already seen: "
              f"with that method a Tract object that occurs twice in the list is no longer reported / dropped",
              key="ORDER|filter_duplicates|skip-before-instance-check", where=common.loc(fi, early[0]) if early else None)


def _entry_paths(ctx, base):
    n = 0
    for m in base.methods.values():
        for node in walk_local(m.node):
            added = None
            what = None
            if isinstance(node, ast.Assign) and any(norm(t) == 'self._elements' for t in node.targets):
                added, what = node.value, 'self._elements = ...'
            elif isinstance(node, ast.Assign) and any(
                    isinstance(t, ast.Subscript) and norm(t.value) == 'self._elements' for t in node.targets):
                added, what = node.value, 'self._elements[i] = ...'
            elif isinstance(node, ast.Call) and isinstance(node.func, ast.Attribute) \
                    and norm(node.func.value) == 'self._elements' \
                    and node.func.attr in ('append', 'extend', 'insert'):
                added, what = node.args[-1], f"self._elements.{node.func.attr}(...)"
            if added is None:
                continue
            n += 1
            prov = flow.provenance(m.node, added)
            calls = flow.prov_calls(prov)
            attrs = flow.prov_attrs(prov)
            verified = bool(set(calls) & set(verify_names(ctx, base)))
            # the verified part must be the whole right-hand side apart from
            # existing elements: no unverified parameter flows in
            params = flow.prov_params(prov) - {'self', 'cls', 'n', 'index', 'i'}
            raw = set()
            if params:
                # a parameter is fine when it only occurs inside a verify call
                for p in params:
                    inside = False
                    for c in ast.walk(added) if not isinstance(added, ast.Name) else []:
                        pass
                    raw.add(p)
                raw = {p for p in raw if not _only_inside_verify(m, added, p, verify_names(ctx, base))}
            from_self = 'self._elements' in attrs
            ok = (verified or from_self) and not raw
            ctx.check(ok, 'SINK', f"{m.qualname}: {what}",
                      'value is verified/converted or comes from _elements itself',
                      f"`{norm(enclosing_stmt(node))[:80]}` stores {sorted(raw) or 'a value'} that did not "
                      f"pass through _verify_individual/_verify_iterable (result discarded or never called)",
                      key=f"SINK|{m.qualname}|{what}", where=common.loc(m, node))
    ctx.floor('_elements entry sites', n, 4)


def _only_inside_verify(m, expr, p, VERIFY=VERIFY):
    """every flow of parameter p into expr passes through a verify call."""
    cfg, rd = flow.analyse(m.node)

    def visit(e, node, depth=0):
        if depth > 8:
            return False
        if isinstance(e, ast.Call) and dotted(e.func) in VERIFY:
            return True                      # swallowed
        if isinstance(e, ast.Name):
            if e.id == p:
                ds = rd.reaching(node, e.id)
                return not any(d[0] == 'param' for d in ds) and all(
                    visit(rd.defs[d], cfg.nodes[d[0]], depth + 1) for d in ds if d[0] != 'param')
            ds = rd.reaching(node, e.id)
            return all(d[0] == 'param' and d[1] != p or d[0] != 'param' and (
                not isinstance(rd.defs[d], ast.AST) or visit(rd.defs[d], cfg.nodes[d[0]], depth + 1)) for d in ds)
        return all(visit(c, node, depth + 1) for c in ast.iter_child_nodes(e) if isinstance(c, ast.expr))
    return visit(expr, flow.stmt_node(cfg, expr))


def _verifiers(ctx):
    vi = ctx.repo.func('_TRSTractList._verify_iterable')
    loops = [n for n in vi.node.body if isinstance(n, ast.For) and norm(n.iter) == 'iterable']
    if len(loops) != 1:
        raise AnalysisError("_verify_iterable: element loop not found")
    loop = loops[0]
    apps = [c for c in ast.walk(loop) if isinstance(c, ast.Call) and norm(c.func) == 'into.append']
    ok = len(apps) == 1 and norm(apps[0].args[0]) == 'cls._verify_individual(elem)' \
        and not guards(apps[0], stop=loop)
    adds = [c for c in ast.walk(loop) if isinstance(c, ast.Call) and isinstance(c.func, ast.Attribute)
            and c.func.attr in ('append', 'extend', 'insert')]
    conditional = bool(adds) and all(guards(c, stop=loop) for c in adds)
    ctx.tri(ok, conditional or not adds, 'SINK', '_verify_iterable: every element is verified and appended (or TypeError)',
              'unconditional into.append(cls._verify_individual(elem))',
              "an element of the iterable can be skipped without an error "
              f"(append under {[norm(t) for t, _ in guards(apps[0], stop=loop)] if apps else 'no append'})",
              key="SINK|_verify_iterable|loop", where=common.loc(vi, loop))
    ctx.check(not any(isinstance(n, (ast.Continue, ast.Break)) for n in ast.walk(loop)), 'SINK',
              '_verify_iterable: no continue/break in the element loop',
              detail_bad="elements can be skipped", key="SINK|_verify_iterable|skip")
    # shortcut only for the container's own class
    # (any bulk add of what came in that does not go through _verify_individual)
    bulk = [c for c in walk_local(vi.node) if isinstance(c, ast.Call) and isinstance(c.func, ast.Attribute)
            and c.func.attr == 'extend' and c.args
            and any(isinstance(x, ast.Name) and x.id == 'iterable' for x in ast.walk(c.args[0]))
            and '_verify_individual' not in norm(c.args[0])]
    for c_ in bulk:
        tests = [e for e, txt, pol in literals(guards(c_)) if pol and isinstance(e, ast.Call) and dotted(e.func) == 'isinstance'
                 and e.args and norm(e.args[0]) == 'iterable']
        same = [e for e in tests if len(e.args) == 2 and norm(e.args[1]) in ('cls', 'type(self)', 'self.__class__')]
        ctx.tri(bool(same), bool(tests) and not same or not tests, 'SINK',
                "_verify_iterable: unverified bulk copy only from the same container class",
                detail_bad=f"`{norm(c_)}` under `{norm(tests[0]) if tests else 'no type test'}`: other container types are inserted "
                           f"as-is, skipping the per-element conversion (e.g. Tract objects inside a TRSList, TRS objects "
                           f"inside a TractList)",
                key="SINK|_verify_iterable|shortcut", where=common.loc(vi, c_))
    t = ' '.join(norm(s) for s in walk_local(vi.node) if isinstance(s, ast.stmt))
    ctx.shape("isinstance(iterable, str)" in t and 'raise TypeError' in t, 'SINK',
              '_verify_iterable rejects a bare str')
    ind = ctx.repo.func('_TRSTractList._verify_individual')
    t = ' '.join(norm(s) for s in walk_local(ind.node) if isinstance(s, ast.stmt))
    ok = any(isinstance(n, ast.Raise) and 'TypeError' in norm(n) and any(
        norm(tt) == 'not isinstance(obj, cls._ok_individuals)' and pol for tt, pol in guards(n))
        for n in walk_local(ind.node))
    ctx.shape(ok and 'return cls._handle_type_specially(obj)' in t, 'SINK',
              '_verify_individual: TypeError for foreign types, else the converted object')
    ht = ctx.repo.func('TRSList._handle_type_specially')
    t = ' '.join(norm(s) for s in walk_local(ht.node) if isinstance(s, ast.stmt))
    ctx.shape('return TRS(obj)' in t and 'return TRS(obj.trs)' in t and 'return obj' in t and 'raise TypeError' in t,
              'SINK', 'TRSList converts str and Tract to TRS, keeps TRS, rejects the rest')
    # class tables
    for cls, ind_, its in (('TractList', '(Tract,)', ('tuple()', '()')),
                           ('TRSList', '(str, TRS, Tract)', ('(TractList,)',))):
        ci = ctx.repo.cls(f"containers:{cls}")
        al = {norm(s.targets[0]): norm(s.value) for s in ci.node.body if isinstance(s, ast.Assign)}
        ctx.shape(al.get('_ok_individuals') == ind_ and al.get('_ok_iterables') in its, 'TBL',
                  f"{cls}: accepted element types {ind_}")


def _from_multiple(ctx):
    fi = ctx.repo.func('_TRSTractList._from_multiple')
    loops = [n for n in fi.node.body if isinstance(n, ast.For) and norm(n.iter) == 'objects']
    if len(loops) != 1:
        raise AnalysisError("_from_multiple: loop over objects not found")
    chain = loops[0].body
    if len(chain) != 1 or not isinstance(chain[0], ast.If):
        ctx.undecided('SINK', '_from_multiple branches', 'single if/elif chain not recognised')
        return
    branches = []
    node = chain[0]
    while True:
        branches.append((norm(node.test), node.body))
        if len(node.orelse) == 1 and isinstance(node.orelse[0], ast.If):
            node = node.orelse[0]
        else:
            branches.append(('else', node.orelse))
            break
    tests = [b[0] for b in branches]
    ctx.shape('isinstance(obj, cls._ok_individuals)' == tests[0], 'SINK',
              '_from_multiple: acceptable individuals first')
    str_idx = next((i for i, t in enumerate(tests) if t == 'isinstance(obj, str)'), None)
    else_idx = len(tests) - 1
    ctx.tri(str_idx is not None and str_idx < else_idx and any(
        isinstance(s, ast.Raise) and 'TypeError' in norm(s) for s in branches[str_idx][1]),
        not any('str' in t_ for t_ in tests), 'EXC',
        '_from_multiple: an unacceptable str raises TypeError before the generic recursion',
        detail_bad="a str reaches the recursive branch (each character is again a str): RecursionError",
        key="EXC|_from_multiple|str")
    for t, body in branches:
        if t == 'isinstance(obj, str)':
            continue
        txt = ' '.join(norm(s) for s in body)
        ok = 'into.append(' in txt or 'into.extend(' in txt or 'cls._from_multiple(obj_deeper, into=into)' in txt
        empty = not any(isinstance(x, ast.Call) for s_ in body for x in ast.walk(s_))
        ctx.tri(ok, empty, 'SINK', f"_from_multiple: branch `{t}` adds its objects",
                  detail_bad=f"branch `{t}` drops its object", key=f"SINK|_from_multiple|{t}")
    ctx.check(not any(isinstance(n, (ast.Continue, ast.Pass)) for n in ast.walk(loops[0])), 'SINK',
              '_from_multiple: no object is skipped', detail_bad="continue/pass in the object loop",
              key="SINK|_from_multiple|skip")
    for cls in ('TractList', 'TRSList'):
        f2 = ctx.repo.func(f"{cls}.from_multiple")
        ctx.shape(norm(f2.node.body[-1]) == 'return cls._from_multiple(objects)', 'SINK',
                  f"{cls}.from_multiple delegates to _from_multiple")


def _group(ctx):
    fi = ctx.repo.func('_TRSTractList._group')
    loops = [n for n in fi.node.body if isinstance(n, ast.For) and norm(n.iter) == 'trstractlist']
    if len(loops) != 1:
        raise AnalysisError("_group: element loop not found")
    loop = loops[0]
    vals = [n for n in loop.body if isinstance(n, ast.Assign) and norm(n.targets[0]) == 'val']
    revals = [n for n in ast.walk(loop) if isinstance(n, ast.Assign) and norm(n.targets[0]) == 'val' and n not in vals]
    if len(vals) == 1 and revals:
        # the key is replaced afterwards, under a test of its own value: values that EXIST but are
        # None / falsy are filed under the replacement
        tests = [norm(t_) for t_, _p in guards(revals[0], stop=loop)]
        ctx.violation('SINK', "_group: key is getattr(t, attribute, '<attr>: n/a')",
                      f"`{norm(revals[0])}` (under {tests}) replaces the value read from the element: an attribute that exists "
                      f"and is None (twp_num of an error TRS, source, qq_depth ...) is filed under the placeholder meant for "
                      f"elements that LACK the attribute - two different groups are merged",
                      key="SINK|_group|key", where=common.loc(fi, revals[0]))
        return
    if len(vals) != 1:
        raise AnalysisError("_group: `val = ...` not found")
    v = vals[0].value
    if isinstance(v, ast.Call) and dotted(v.func) == 'getattr' and len(v.args) == 3 \
            and norm(v.args[0]) == 't' and norm(v.args[1]) == 'attribute':
        ctx.ok('SINK', "_group: key is getattr(t, attribute, '<attr>: n/a')")
    elif isinstance(v, (ast.BoolOp, ast.IfExp)):
        ctx.violation('SINK', "_group: key is getattr(t, attribute, '<attr>: n/a')",
                      f"`{norm(vals[0])}` replaces falsy attribute values (0, None, False, '') by the "
                      f"placeholder: distinct groups are merged",
                      key="SINK|_group|key", where=common.loc(fi, vals[0]))
    else:
        raise AnalysisError(f"_group: unrecognised key expression `{norm(v)}`")
    body = [norm(s) for s in loop.body]
    # every element goes into its group exactly once: one `.append(t)` as a top-level statement of
    # the loop body (on a group taken from dct), none under a condition, no continue / break
    elem = norm(loop.target)
    apps_all = [c for c in ast.walk(loop) if isinstance(c, ast.Call) and isinstance(c.func, ast.Attribute)
                and c.func.attr in ('append', 'extend', 'insert') and any(norm(a) == elem for a in c.args)]
    apps_top = [st for st in loop.body if isinstance(st, ast.Expr) and isinstance(st.value, ast.Call) and st.value in apps_all]
    skips = [x for x in ast.walk(loop) if isinstance(x, (ast.Continue, ast.Break))]
    from_dct = False
    if len(apps_top) == 1:
        rcv = apps_top[0].value.func.value
        from_dct = 'dct' in norm(rcv) or (isinstance(rcv, ast.Name) and any(
            isinstance(a, ast.Assign) and any(isinstance(t_, ast.Name) and t_.id == rcv.id for t_ in a.targets) and 'dct' in norm(a.value)
            for a in ast.walk(loop)))
    ok = len(apps_top) == 1 and len(apps_all) == 1 and not skips and from_dct
    bad = bool(skips) or len(apps_all) != 1 or (len(apps_all) == 1 and not apps_top)
    ctx.tri(ok, bad, 'SINK', '_group: every element is appended exactly once, unconditionally, to its group',
            detail_bad=f"loop body is {body}", key="SINK|_group|append")
    ug = ctx.repo.func('_TRSTractList.unpack_group.unpack')
    t = ' '.join(norm(s) for s in walk_local(ug.node) if isinstance(s, ast.stmt))
    ctx.shape('for v_ in dct.values()' in t and 'unpack(v_)' in t and 'tl.extend(v_)' in t, 'SINK',
              'unpack_group extends with every leaf list and recurses into nested dicts')
    ad = ctx.repo.func('_TRSTractList.group_by_nested.add_to_existing_dict')
    rec = [c for c in walk_local(ad.node) if isinstance(c, ast.Call) and dotted(c.func) == 'add_to_existing_dict']
    for c in rec:
        amap = {}
        for nm_, av in zip(ad.params(), c.args):
            amap[nm_] = av
        for k_ in c.keywords:
            if k_.arg:
                amap[k_.arg] = k_.value
        for pname, av in amap.items():
            same = isinstance(av, ast.Name) and av.id == pname
            ctx.tri(not same, same, 'SINK', f"group_by_nested: the recursion descends in `{pname}`",
                    detail_bad=f"the recursive call passes `{pname}` itself: nested groups are merged into the upper level "
                               f"instead of their own sub-dict", key=f"SINK|add_to_existing_dict|descend|{pname}",
                    where=common.loc(ad, c))
    gb = ctx.repo.func('_TRSTractList.group_by')
    t = ' '.join(norm(s) for s in walk_local(gb.node) if isinstance(s, ast.stmt))
    ctx.shape('dct_2 = self._group(v1, grp_att)' in t and 'dct_new[tuple(k1_base + [k2])] = v2' in t, 'SINK',
              'group_by regroups every sub-list under the extended key')


def _selection(ctx):
    fi = ctx.repo.func('_TRSTractList._new_list_from_self')
    loops = [n for n in fi.node.body if isinstance(n, ast.For)]
    byvalue_any = [c for c in walk_local(fi.node) if isinstance(c, ast.Call) and isinstance(c.func, ast.Attribute)
                   and c.func.attr == 'remove']
    if byvalue_any:
        ctx.violation('SINK', '_new_list_from_self drops by index',
                      f"`{norm(byvalue_any[0])}` removes the first *equal* element, not the selected one: with "
                      f"repeated / equal elements the wrong one is dropped and order changes",
                      key="SINK|_new_list_from_self|drop", where=common.loc(fi, byvalue_any[0]))
    # ... or a rebuild of what stays behind by membership: `[e for e in self._elements if e not in dropped]`
    for comp in walk_local(fi.node):
        if isinstance(comp, (ast.ListComp, ast.GeneratorExp)) and len(comp.generators) == 1 and comp.generators[0].ifs:
            g = comp.generators[0]
            if isinstance(g.target, ast.Name) and any(
                    isinstance(t, ast.Compare) and len(t.ops) == 1 and isinstance(t.ops[0], (ast.In, ast.NotIn))
                    and isinstance(t.left, ast.Name) and t.left.id == g.target.id for t in g.ifs) \
                    and ('self' in norm(g.iter)):
                ctx.violation('SINK', '_new_list_from_self drops by index',
                              f"`{norm(comp)[:70]}` keeps / drops elements by VALUE (equality, identity), not by the selected positions: "
                              f"every element equal to a selected one goes too - filter_duplicates(drop=True) on ['a', 'a'] leaves "
                              f"an empty list, a Tract that occurs twice disappears entirely",
                              key="SINK|_new_list_from_self|drop-by-value", where=common.loc(fi, comp))
    pops = [c for c in walk_local(fi.node) if isinstance(c, ast.Call) and isinstance(c.func, ast.Attribute) and c.func.attr == 'pop']
    for c in pops:
        lp = next((p_ for p_ in _anc(c) if isinstance(p_, ast.For)), None)
        if lp is None:
            continue
        it = norm(lp.iter)
        desc = ('reversed(' in it or ', -1, -1)' in it.replace(' ', '').replace(',-1,-1)', ', -1, -1)') or '[::-1]' in it
                or 'reverse=True' in it)
        asc = it in ('indexes', 'sorted(indexes)', 'range(len(indexes))', 'enumerate(indexes)')
        ctx.tri(desc, asc, 'SINK', '_new_list_from_self pops the selected indexes from the highest down',
                detail_bad=f"elements are popped while iterating `{it}` in ascending order: each pop shifts the later "
                           f"indexes, so the wrong elements are dropped", key="SINK|_new_list_from_self|pop-order",
                where=common.loc(fi, c))
    if len(loops) != 1:
        ctx.undecided('SINK', '_new_list_from_self selection loop', 'single loop not recognised')
        return
    loop = loops[0]
    ctx.shape(norm(loop.iter) == 'range(len(indexes) - 1, -1, -1)', 'SINK',
              '_new_list_from_self walks the selected indexes from last to first')
    body = ' '.join(norm(s) for s in ast.walk(loop) if isinstance(s, ast.stmt))
    ctx.shape('ind = indexes[i]' in body and 'new_list.append(self[ind])' in body, 'SINK',
              '_new_list_from_self copies element self[ind]')
    removers = [c for c in ast.walk(loop) if isinstance(c, ast.Call) and isinstance(c.func, ast.Attribute)
                and c.func.attr in ('pop', 'remove') or isinstance(c, ast.Delete)]
    byvalue = [c for c in removers if isinstance(c, ast.Call) and c.func.attr == 'remove']
    if not byvalue:
        ok = any(isinstance(c, ast.Call) and norm(c) in ('self.pop(ind)', 'self._elements.pop(ind)') and any(
            norm(t) == 'drop' and pol for t, pol in guards(c)) for c in removers)
        ctx.shape(ok, 'SINK', '_new_list_from_self drops by index', 'if drop: self.pop(ind)')
    ctx.shape(any(norm(s) == 'new_list.reverse()' for s in fi.node.body), 'SINK',
              '_new_list_from_self restores the original order with one reverse()')
    for spec in ('_TRSTractList.filter', '_TRSTractList.filter_errors', '_TRSTractList.filter_duplicates'):
        f2 = ctx.repo.func(spec)
        t = ' '.join(norm(s) for s in walk_local(f2.node) if isinstance(s, ast.stmt))
        ctx.shape('for i, element in enumerate(self)' in t and 'indexes_to_include.append(i)' in t
                  and 'return self._new_list_from_self(indexes_to_include, drop)' in t, 'SINK',
                  f"{spec.split('.')[-1]} collects ascending indexes and selects through _new_list_from_self")
    f2 = ctx.repo.func('_TRSTractList.filter')
    t = ' '.join(norm(s) for s in walk_local(f2.node) if isinstance(s, ast.stmt))
    ctx.shape('if key(element)' in t, 'SINK', 'filter includes exactly the elements whose key is truthy')


def _anc(n):
    p = parent(n)
    while p is not None:
        yield p
        p = parent(p)


def _mro_calls(ctx):
    """self.<m>(...) / tlist.<m>(...) / cls.<m>(...) resolve in the container classes."""
    n = 0
    for cname in ('_TRSTractList', 'TractList', 'TRSList'):
        ci = ctx.repo.cls(f"containers:{cname}")
        members = ctx.repo.class_members(ci)
        # subclasses' members are also reachable through self on a subclass instance
        for sub in ('TractList', 'TRSList'):
            if cname == '_TRSTractList':
                members |= set()
        for m in list(ci.methods.values()) + [f for f in ctx.repo.funcs.values()
                                              if f.qualname.startswith(cname + '.') and f.outer is not None]:
            for c in walk_local(m.node):
                if isinstance(c, ast.Call) and isinstance(c.func, ast.Attribute) \
                        and isinstance(c.func.value, ast.Name) and c.func.value.id in ('self', 'cls', 'tlist', 'tl', 'v1'):
                    if c.func.value.id in ('tl', 'v1') and cname != '_TRSTractList':
                        continue
                    n += 1
                    name = c.func.attr
                    allm = members | (ctx.repo.class_members(ctx.repo.cls('containers:TractList'))
                                      if cname == '_TRSTractList' else set())
                    if name.startswith('__') and name.endswith('__') and name in dir(object):
                        continue        # object protocol (self.__class__ ...)
                    ok = name in allm or name in dir(list)
                    if cname == '_TRSTractList':
                        # must be available on BOTH subclasses
                        ok = name in members or all(
                            name in ctx.repo.class_members(ctx.repo.cls(f"containers:{s}")) for s in ('TractList', 'TRSList'))
                    ctx.check(ok, 'EXC', f"{m.qualname}: {c.func.value.id}.{name}() resolves",
                              detail_bad=f"`{norm(c)[:60]}`: no method `{name}` on the container classes (AttributeError)",
                              key=f"EXC|{m.qualname}|{name}", where=common.loc(m, c))
    ctx.floor('container method calls resolved', n, 18)


def _setitem_kinds(ctx):
    """`self._elements[index] = X` stores ONE element for an int index and a
    sequence for a slice.  A verified *iterable* (the list that
    _verify_iterable returns) may therefore only be stored when the index is
    known to be a slice; chosen by the type of the value instead,
    `tl[1] = [tract]` puts a plain list into the container as one element."""
    from ..srcmodel import facts_at
    n = 0
    for spec in ('_TRSTractList.__setitem__',):
        try:
            fi = ctx.repo.func(spec)
        except AnalysisError:
            continue
        idx = [p_ for p_ in fi.params() if p_ != 'self'][0] if len(fi.params()) > 1 else 'index'
        for a in walk_local(fi.node):
            if isinstance(a, ast.Assign) and isinstance(a.targets[0], ast.Subscript) and norm(a.targets[0].value) == 'self._elements':
                whole = any(isinstance(c, ast.Call) and (dotted(c.func) or '').split('.')[-1] == '_verify_iterable'
                            for c in ast.walk(a.value))
                if not whole:
                    continue
                n += 1
                facts = [(t, p) for _e, t, p in facts_at(a)]
                is_slice = any(t.replace(' ', '') == f"isinstance({idx},slice)" and p for t, p in facts)
                ctx.check(is_slice, 'SINK', f"{spec}: a verified iterable is stored only under a slice index",
                          detail_bad=f"`{norm(a)[:60]}` runs under {[t for t, p in facts if p][:2]}, which says nothing about `{idx}`: "
                                     f"with an int index the whole list becomes ONE element (`tl[1] = [tract]` no longer raises "
                                     f"TypeError and the container holds a list)", key=f"SINK|{spec}|iterable-under-int",
                          where=common.loc(fi, a))
    if n == 0:
        ctx.ok('SINK', '__setitem__ stores single verified elements only')


def _unpack_group_recurses(ctx):
    """group_by_nested() returns dicts of dicts (one level per attribute).
    unpack_group() must therefore tell a nested dict from a list of elements
    and go into it; handing the values to a generic flattener iterates a
    nested dict's KEYS (strings / ints) instead of its elements."""
    fi = ctx.repo.func('_TRSTractList.unpack_group')
    tells = any(isinstance(c, ast.Call) and dotted(c.func) == 'isinstance' and len(c.args) == 2 and 'dict' in norm(c.args[1])
                for c in ast.walk(fi.node))
    recurses = any(isinstance(c, ast.Call) and (dotted(c.func) or '').split('.')[-1] in
                   {fi.node.name} | {f.node.name for f in ctx.repo.funcs.values() if f.outer is fi} for c in ast.walk(fi.node))
    generic = [c for c in walk_local(fi.node) if isinstance(c, ast.Call) and (dotted(c.func) or '').split('.')[-1] in
               ('_from_multiple', 'from_multiple', 'flatten') and any('values()' in norm(a) for a in c.args)]
    ctx.tri(tells and recurses, bool(generic) and not tells, 'SINK', 'unpack_group goes into nested group dicts',
            detail_bad=f"`{norm(generic[0])[:70] if generic else ''}` hands the dict's values to a generic flattener: for the dict of dicts that "
                       f"group_by_nested() returns with two or more attributes, the inner dicts are iterated by KEY - a TRSList is "
                       f"rebuilt from the key strings (the original objects and their duplicates are gone), a TractList raises "
                       f"TypeError", key="SINK|unpack_group|nested", where=common.loc(fi, generic[0]) if generic else None)
