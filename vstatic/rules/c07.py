"""
C07 -- aliquot spelling does not matter and preprocessing is a fixed point.
"""

import ast
import re

from .. import AnalysisError, rx, flow
from ..fold import RegexVal, is_unknown
from ..srcmodel import walk_local, norm, dotted, guards, enclosing_stmt
from . import common, families as F
from .c08 import _inc
from .c16 import fixpoint_loops

from .c13 import lockdown

from .c14 import fresh_inputs

META = {
    'explanation': (
        "Regex-layer clauses: inclusion of each documented spelling family in "
        "the matching scrubber regex; exact matching of glued chains (the "
        "look-behind / look-ahead guards) and of the documented joiners; the "
        "scrubber tables map each regex to the canonical token with the same "
        "letters; every canonical token is rewritten to itself and no other "
        "scrubber matches inside canonical text; bare-quarter regexes are "
        "applied only under clean_qq and before the half-plus-quarter and "
        "intervener passes; the substitution loops re-derive their subject. "
        "Not decided: identity of lots/aliquots under every configuration."
        ' Also: Tract.parse feeds TractParser the un-preprocessed text (re-parse with clean_qq off is not contaminated), clean_qq lock-down, chain family inclusion.'
        " Round 7: the match the engine reports stops in front of '.', ';', ','; every spelling the direction / quarter sub-patterns accept is accepted by the look-ahead as the start of the next aliquot."
        " Round 8: scoped inline flags are modelled; the look-ahead is checked in both cases; the base scrubbers stop in front of '.', ';', ',' for every spelling alike."
        ' Round 9: scrub_aliquots returns only after half_plus_q and the intervener remover ran.'
        ' Round 10: the look-ahead that ends every aliquot scrubber accepts each element separator (comma, semicolon, line break, blank) and the end of text.'
        ' Round 11: the half-plus-quarter callback is re-located by role after a rename / split.'
        ' Round 12: a replacement callback of sub_scrubber rewrites every match (none is handed back unchanged); spaced-digit spellings are left neighbours in the glued-context sweep.'),
    'families': ['RX-LANG', 'TBL', 'FIXPOINT', 'ORDER', 'STRIPSET'],
}

TOKENS = {'NE': 'NE¼', 'NW': 'NW¼', 'SE': 'SE¼', 'SW': 'SW¼',
          'N': 'N½', 'S': 'S½', 'E': 'E½', 'W': 'W½'}


def _chain_language(ctx):
    """every clean chain of halves and quarters, in any order, is unpacked as ONE aliquot"""
    import re as _re
    from .. import rx as _rx
    from . import families as _F
    rv = ctx.fold.get('rgxlib.aliquots', 'aliquot_unpacker_regex')
    cex = ctx.cache(('inc', _F.ALIQUOT_CHAIN, rv.pattern, rv.flags),
                    lambda: _rx.included(_F.ALIQUOT_CHAIN, 0, rv.pattern, rv.flags))
    ctx.check(cex is None, 'RX-LANG', 'clean aliquot chains (halves and quarters in any order) <= L(aliquot_unpacker_regex)',
              'family included',
              f"the chain {cex!r} is no longer matched as a whole by aliquot_unpacker_regex: the aliquot is dropped / cut "
              f"in two by TractParser", key='RX-LANG|aliquot_unpacker_regex|chains', witness=repr(cex))


# what may directly follow an element of a tract description
ELEMENT_SEPARATORS = ('; Lot 1', ', Lot 1', '\nLot 1', ' Lot 1', '.', ';', ',')


def half_plus_q_contexts(ctx, followers):
    """a bare quarter after a half is completed whatever legitimately follows the element"""
    hq = ctx.fold.get('rgxlib.aliquots', 'half_plus_q_regex')
    Lh = common.lang(ctx, hq)
    for nxt in followers:
        for pre in ('S½NE', 'N½ SW', 'E½ of the NW'):
            s_ = pre + nxt
            ctx.check((0, len(pre)) in Lh.search_spans(s_), 'RX-LANG-CTX',
                      f"half_plus_q_regex completes {pre!r} when followed by {nxt!r}",
                      detail_bad=f"in {s_!r} the bare quarter after the half is no longer recognised (look-ahead misses {nxt!r}): "
                                 f"the element is not completed and disappears from the aliquots",
                      key=f"RX-LANG-CTX|half_plus_q_regex|{pre}|{nxt}")
            if nxt in ('.', ';', ','):
                # ... and the match the engine reports (priority order) stops in front of the
                # separator: a swallowed '.' glues this element to the next one
                for tail in ('', ' S½SW¼'):
                    end = Lh.first_end(s_ + tail, 0)
                    ctx.check(end == len(pre), 'RX-LANG-CTX',
                              f"half_plus_q_regex leaves the {nxt!r} after {pre!r} alone ({(s_ + tail)!r})",
                              detail_bad=f"in {(s_ + tail)!r} the match ends at {end}, not {len(pre)}: the separator {nxt!r} is taken "
                                         f"into the aliquot, so this element and the one after it are later joined into a single "
                                         f"(wrong) aliquot", key=f"RX-LANG-CTX|half_plus_q_regex|swallow|{pre}|{nxt}|{bool(tail)}")


def scrubbers_stop_at_sentence_end(ctx):
    """Every spelling of an aliquot is rewritten up to its last letter / digit /
    symbol: the period (or ';', ',') that ends the element stays in the text
    for ALL spellings alike.  If the word spelling swallows it ('Northeast
    Quarter. Lot 1' -> 'NE¼ Lot 1') while the symbol spelling keeps it
    ('NE/4. Lot 1'), the two spellings of one description parse differently -
    and the first glues the aliquot to what follows."""
    defs = ctx.fold.get('tract_preprocess', 'QQ_SCRUBBER_DEFINITIONS')
    if not isinstance(defs, dict):
        ctx.undecided('RX-LANG-CTX', 'aliquot scrubbers stop in front of the separator', 'QQ_SCRUBBER_DEFINITIONS does not fold')
        return
    byname = {k.name: k for k in defs if isinstance(k, RegexVal)}
    forms = {
        'ne_regex': ('Northeast Quarter', 'NE/4', 'NE¼', 'North East One Quarter', 'NE 1/4'),
        'sw_regex': ('Southwest Quarter', 'SW/4', 'SW¼'),
        'n2_regex': ('North Half', 'N/2', 'N½', 'N 1/2'),
        'e2_regex': ('East Half', 'E/2', 'E½'),
    }
    n = 0
    for name, ws in forms.items():
        rv = byname.get(name)
        if rv is None:
            continue
        L = common.lang(ctx, rv)
        for w in ws:
            if L.first_end(w, 0) != len(w):
                continue            # not a spelling this pattern takes as a whole (decided elsewhere)
            for sep, tail in (('.', ' Lot 1'), ('.', ' S½SW¼'), (';', ' Lot 1'), (',', ' Lot 1')):
                txt = w + sep + tail
                end = L.first_end(txt, 0)
                n += 1
                ctx.check(end == len(w), 'RX-LANG-CTX', f"{name} leaves the {sep!r} after {w!r} alone",
                          detail_bad=f"in {txt!r} the match of {name} ends at {end}, not {len(w)}: the {sep!r} that ends the element is "
                                     f"swallowed for this spelling but kept for the others ('NE/4.' / 'NE¼.'), so one description "
                                     f"parses differently depending on how the aliquot is spelled (and 'Quarter. Lot 1' becomes a "
                                     f"lot division)", key=f"RX-LANG-CTX|{name}|swallow|{w}|{sep}")
    ctx.floor('spelling x separator cases for the base scrubbers', n, 20)


def scrub_runs_every_stage(ctx):
    """scrub_aliquots returns only after half_plus_q and the intervener remover
    have run: text that is ALREADY written with ½ / ¼ (so that no scrubber
    changes it) still has its 'of' / 'of the' / blanks between components, and
    an early return for "nothing changed" leaves such a chain unjoined - it
    then parses as separate aliquots, unlike the same chain in any other
    spelling."""
    from .forward import _dominates
    fi = ctx.repo.func('tract_preprocess:scrub_aliquots')
    stages = [c for c in walk_local(fi.node) if isinstance(c, ast.Call)
              and (dotted(c.func) or '').split('.')[-1] in ('remove_aliquot_interveners', 'half_plus_q_scrubber')]
    if not stages:
        ctx.undecided('ORDER', 'scrub_aliquots runs every stage before it returns', 'stage calls not found')
        return
    for c in stages:
        early = [r for r in walk_local(fi.node) if isinstance(r, ast.Return) and r.lineno < c.lineno and not _dominates(c, r, fi.node)]
        ctx.check(not early, 'ORDER', f"scrub_aliquots: no return in front of {dotted(c.func)}()",
                  detail_bad=f"the `return` at line {early[0].lineno if early else 0} leaves scrub_aliquots before `{norm(c)[:40]}` ran: a chain "
                             f"that is already in ½ / ¼ symbols ('N½ of the NE¼') keeps its joiners and is read as two aliquots",
                  key=f"ORDER|scrub_aliquots|early-return|{dotted(c.func)}", where=common.loc(fi, early[0]) if early else None)


def lookahead_covers_spellings(ctx):
    """The aliquot scrubbers end in the look-ahead `aqwb_lkahead` ("what
    follows is the start of another aliquot, a separator or the end").  Two
    tables of the same module must agree: every spelling the direction /
    quarter sub-patterns (n_simple ... sw_simple) accept has to be accepted
    by the look-ahead as the start of the next aliquot, otherwise a chain
    written without blanks ('N/2So. 1/2', 'SW/4N.E. 1/4') stops being
    normalised although each of its parts is a legal spelling."""
    from .. import rx as _rx
    env = ctx.fold.module_env('pytrs.parser.rgxlib.aliquots')
    la = env.get('aqwb_lkahead')
    if not isinstance(la, str):
        ctx.undecided('SIB', 'aqwb_lkahead accepts every spelling of a following aliquot', 'aqwb_lkahead does not fold to a string')
        return
    L = _rx.Lang(la, re.I)
    n = 0
    for name, tail in (('n_simple', ' 1/2'), ('s_simple', ' 1/2'), ('e_simple', '/2'), ('w_simple', '½'),
                       ('ne_simple', '/4'), ('nw_simple', ' 1/4'), ('se_simple', '¼'), ('sw_simple', '/4')):
        pat = env.get(name)
        if not isinstance(pat, str):
            continue
        words = _rx.enumerate_words(_rx.parse(pat, re.I), re.I)
        words = list(dict.fromkeys(words + [w.lower() for w in words] + [w.upper() for w in words]))   # the patterns ignore case
        miss = [w for w in words if w and not L.matches_at(w + tail, 0)]
        n += 1
        ctx.check(not miss, 'SIB', f"aqwb_lkahead accepts every spelling of {name} as the start of the next aliquot",
                  f"{len(words)} spellings",
                  f"{name} accepts {miss[0]!r}, but the look-ahead does not see {(miss[0] + tail)!r} as the start of an aliquot: in "
                  f"a chain without blanks ('N/2{miss[0]}{tail}') the first component is no longer scrubbed and the chain "
                  f"yields no QQs ({len(miss)} of {len(words)} spellings)" if miss else '',
                  key=f"SIB|aqwb_lkahead|{name}", where='pytrs/parser/rgxlib/aliquots.py')
    ctx.floor('direction / quarter sub-patterns compared with the look-ahead', n, 6)


def lookahead_accepts_separators(ctx):
    """The same look-ahead also decides whether a raw aliquot ('NE/4') that is
    followed by an element separator is normalised at all.  The separators of
    a tract description (comma, semicolon, line break, blank) and the end of
    the text must each satisfy it; an aliquot in front of a separator the
    look-ahead rejects stays raw, the extraction loops never see it and it is
    lost ('NE/4; Lot 1' -> only the lot)."""
    from .. import rx as _rx
    env = ctx.fold.module_env('pytrs.parser.rgxlib.aliquots')
    la = env.get('aqwb_lkahead')
    if not isinstance(la, str):
        ctx.undecided('SIB', 'aqwb_lkahead accepts every element separator', 'aqwb_lkahead does not fold to a string')
        return
    L = _rx.Lang(la, re.I)
    for sep, what in ((',', 'a comma'), (';', 'a semicolon'), ('\n', 'a line break'), (' ', 'a blank'), ('', 'the end of the text')):
        ctx.check(L.matches_at(sep + ('Lot 1' if sep else ''), 0), 'SIB', f"aqwb_lkahead accepts {what} after an aliquot",
                  detail_bad=f"the look-ahead that ends every aliquot scrubber does not accept {what}: the raw aliquot in "
                             f"'NE/4{sep}Lot 1' is not normalised to NE¼, the extraction loops of TractParser.parse never see it, "
                             f"and the element is lost from the tract",
                  key=f"SIB|aqwb_lkahead|separator|{sep!r}", where='pytrs/parser/rgxlib/aliquots.py')


def _cut_length_from_match(ctx):
    """process_half_plus_q_match removes the text that was MATCHED for the
    rightmost quarter: a slice bound `-len(x)` (or `len(x)`) takes the length
    of something read from the match object, not of the replacement."""
    fi = ctx.repo.func('tract_preprocess:process_half_plus_q_match')
    n = 0
    for x in walk_local(fi.node):
        if isinstance(x, ast.Subscript) and isinstance(x.slice, ast.Slice):
            for bound in (x.slice.lower, x.slice.upper):
                if bound is None:
                    continue
                lens = [c for c in ast.walk(bound) if isinstance(c, ast.Call) and dotted(c.func) == 'len' and c.args]
                for c in lens:
                    pv = flow.provenance(fi.node, c.args[0])
                    from_match = any(p[0] == 'sub' and 'mo[' in p[1] for p in pv) or any(
                        p[0] == 'call' and p[1].split('.')[-1] == 'group' for p in pv)
                    consts = [p for p in pv if p[0] in ('global', 'const')]
                    n += 1
                    ctx.tri(from_match, not from_match and bool(consts), 'SLICE',
                            'process_half_plus_q_match cuts off as many characters as the matched quarter has',
                            f"len({norm(c.args[0])})",
                            f"`{norm(x)[:60]}` measures `{norm(c.args[0])}`, which is the replacement / a constant, not the matched "
                            f"text: a spelled-out or spaced quarter ('Northeast', 'N E') is cut at the wrong place",
                            key="SLICE|process_half_plus_q_match|cut-length", where=common.loc(fi, x))
    if n == 0:
        ctx.undecided('SLICE', 'process_half_plus_q_match cuts off as many characters as the matched quarter has', 'no len()-based slice')


def check(ctx):
    ctx.consult('tract/tract_preprocess.py', 'rgxlib/aliquots.py', 'tract/tract_parse.py')
    aq = 'rgxlib.aliquots'
    g = lambda n: ctx.fold.get(aq, n)
    base = {}
    for q in ('NE', 'NW', 'SE', 'SW'):
        base[q] = g(q.lower() + '_regex')
        _inc(ctx, 'RX-LANG', f"{q.lower()}_regex", F.quarter_family(q), base[q], f"{q} quarter spellings")
        _inc(ctx, 'RX-LANG', f"{q.lower()}_clean", F.quarter_clean_family(q), g(q.lower() + '_clean'),
             f"bare {q} (clean_qq) spellings")
    for h in 'NSEW':
        base[h] = g(h.lower() + '2_regex')
        _inc(ctx, 'RX-LANG', f"{h.lower()}2_regex", F.half_family(h), base[h], f"{h} half spellings")

    ctx.attempt(_tables, base)
    ctx.attempt(_glue, base)
    ctx.attempt(_canonical_fixed_point, base)
    ctx.attempt(_joiners)
    ctx.attempt(_order)
    ctx.attempt(_half_plus_q)
    ctx.attempt(fixpoint_loops, 'tract_preprocess', 3)
    ctx.attempt(stripset, [ctx.repo.func('tract_preprocess:process_half_plus_q_match')])
    ctx.attempt(lockdown, ctx.repo.func('Tract.parse'), only=('clean_qq',))
    ctx.attempt(lockdown, ctx.repo.func('Tract.preprocess'), only=('clean_qq',))
    ctx.attempt(fresh_inputs, specs=(('Tract.parse', 'TractParser', 'tract_parse'),))
    ctx.attempt(common.embedded_case_consistency, modules=('rgxlib.aliquots',))
    ctx.attempt(_chain_language)
    ctx.attempt(common.config_words, plss=('clean_qq',), tract=('clean_qq',))
    ctx.attempt(common.locate_by_text, ctx.repo.func('tract_preprocess:process_half_plus_q_match'))
    ctx.attempt(_cut_length_from_match)
    ctx.attempt(lookahead_covers_spellings)
    ctx.attempt(scrubbers_stop_at_sentence_end)
    ctx.attempt(scrub_runs_every_stage)


def _tables(ctx, base):
    defs = ctx.fold.get('tract_preprocess', 'QQ_SCRUBBER_DEFINITIONS')
    sc = ctx.fold.get('tract_preprocess', 'SCRUBBER_REGEXES')
    cl = ctx.fold.get('tract_preprocess', 'CLEAN_QQ_REGEXES')
    if not isinstance(defs, dict) or not all(isinstance(k, RegexVal) for k in defs):
        raise AnalysisError("QQ_SCRUBBER_DEFINITIONS does not fold")
    byname = {k.name: v for k, v in defs.items()}
    for comp, tok in TOKENS.items():
        names = [comp.lower() + ('_regex' if len(comp) == 2 else '2_regex')]
        if len(comp) == 2:
            names.append(comp.lower() + '_clean')
        for n in names:
            ctx.check(byname.get(n) == tok, 'TBL', f"QQ_SCRUBBER_DEFINITIONS[{n}] == {tok!r}",
                      detail_bad=f"{n} is rewritten to {byname.get(n)!r}", key=f"TBL|QQ_SCRUBBER_DEFINITIONS|{n}")
    scn = [x.name for x in sc]
    cln = [x.name for x in cl]
    want = {c.lower() + ('_regex' if len(c) == 2 else '2_regex') for c in TOKENS}
    ctx.check(set(scn) == want, 'TBL', 'SCRUBBER_REGEXES == the eight base scrubbers',
              detail_bad=f"SCRUBBER_REGEXES = {scn}", key="TBL|SCRUBBER_REGEXES")
    ctx.check(set(cln) == {'ne_clean', 'nw_clean', 'se_clean', 'sw_clean'}, 'TBL',
              'CLEAN_QQ_REGEXES == the four bare-quarter scrubbers',
              detail_bad=f"CLEAN_QQ_REGEXES = {cln}", key="TBL|CLEAN_QQ_REGEXES")
    ctx.check(not any(n.endswith('_clean') for n in scn), 'TBL',
              'no bare-quarter regex among the unconditional scrubbers',
              detail_bad="a *_clean regex is applied without clean_qq", key="TBL|SCRUBBER_REGEXES|noclean")
    ctx.check(set(scn) | set(cln) <= set(byname), 'TBL', 'every scrubber has a replacement',
              detail_bad=f"missing {sorted((set(scn) | set(cln)) - set(byname))}", key="TBL|scrubbers|keys")
    # quarters before halves (a half regex must not eat the 'N' of 'NE/4' first is
    # guarded by look-ahead; order is recorded only)
    ctx.notes['scrubber_order'] = scn
    # the parser's aliquot alphabet == the replacement tokens
    simple = ctx.fold.get('rgxlib.aliquots', 'aliquot_simple')
    alts = rx.literal_alternatives(rx.parse(simple, 0))
    ctx.check(alts is not None and set(alts) == set(TOKENS.values()), 'TBL',
              'aliquot_simple denotes exactly the canonical tokens',
              detail_bad=f"aliquot_simple = {alts}", key="TBL|aliquot_simple")
    unp = ctx.fold.get('rgxlib.aliquots', 'aliquot_unpacker_regex')
    L = common.lang(ctx, unp)
    for t in list(TOKENS.values()) + ['N½NE¼', 'E½NW¼SW¼']:
        ctx.check(L.fullmatch(t), 'TBL', f"aliquot_unpacker_regex matches {t!r}",
                  detail_bad=f"canonical {t!r} no longer parsed", key=f"TBL|aliquot_unpacker_regex|{t}")
    # sub_scrubber replaces with the table entry
    fi = ctx.repo.func('tract_preprocess:sub_scrubber')
    t = ' '.join(norm(s) for s in walk_local(fi.node) if isinstance(s, ast.stmt))
    ctx.shape('replace_with = QQ_SCRUBBER_DEFINITIONS[scrubber_rgx]' in t
              and 're.sub(scrubber_rgx, replace_with, txt)' in t, 'TBL',
              'sub_scrubber substitutes the table entry of the regex it was given')


def _glue(ctx, base):
    """Glued chains: each short spelling must be matched exactly where it
    stands when directly preceded / followed by another component."""
    prevs = ['', 'N2', 'S/2', 'E½', 'NE4', 'SW/4', 'NW¼', 'N 2', 'SW 4', 'N / 2']      # (spaced digits are spellings too)
    nexts = ['', 'NE4', 'S2', ' of', ',']
    for comp, rv in base.items():
        L = common.lang(ctx, rv)
        frac = '4' if len(comp) == 2 else '2'
        sym = '¼' if len(comp) == 2 else '½'
        curs = [f"{comp}{frac}", f"{comp}/{frac}", f"{comp}{sym}"]
        bad = None
        n = 0
        for p in prevs:
            for c in curs:
                for nx in nexts:
                    n += 1
                    s = p + c + nx
                    spans = L.search_spans(s)
                    if (len(p), len(p) + len(c)) not in spans:
                        bad = bad or (s, p, c)
        ctx.check(bad is None, 'RX-LANG-CTX', f"{rv.name}: short spellings match when glued to neighbours",
                  f"{n} glued contexts",
                  f"in {bad[0]!r} the component {bad[2]!r} (after {bad[1]!r}) is not matched where it stands"
                  if bad else '',
                  key=f"RX-LANG-CTX|{rv.name}|glue", witness=bad[0] if bad else None)
        # and not inside unrelated words / bearings
        for s in ("N 2° 37'", 'SEVEN', 'NEW', 'WEST 40 feet', 'S 45 E'):
            ctx.check(not [sp for sp in L.search_spans(s) if sp[1] > sp[0]], 'RX-LANG-NEG',
                      f"{rv.name} finds nothing in {s!r}",
                      detail_bad=f"{rv.name} matches inside {s!r}", key=f"RX-LANG-NEG|{rv.name}|{s}")


def _canonical_fixed_point(ctx, base):
    defs = ctx.fold.get('tract_preprocess', 'QQ_SCRUBBER_DEFINITIONS')
    chains = ['N½NE¼', 'NE¼SW¼', 'E½W½NW¼', 'S½S½', 'NW¼NE¼SE¼', 'N½, NE¼', 'W½ SW¼', 'ALL',
              'N½ of L1', 'E½NE¼ of Lot 2']
    for rv, tok in defs.items():
        L = common.lang(ctx, rv)
        ctx.check(L.fullmatch(tok), 'FIXPOINT', f"{rv.name} matches its own token {tok!r}",
                  detail_bad=f"{tok!r} is not matched by {rv.name}: canonical text is not stable",
                  key=f"FIXPOINT|{rv.name}|self")
        bad = None
        for c in chains:
            for (i, j) in L.search_spans(c):
                if j <= i:
                    continue
                # any match must lie within an occurrence of tok (it is then
                # rewritten to tok itself only if it covers the occurrence)
                seg = c[i:j]
                if not (tok.startswith(seg) and c[i:i + len(tok)] == tok):
                    bad = bad or (c, seg)
        ctx.check(bad is None, 'FIXPOINT', f"{rv.name} leaves canonical text alone",
                  f"{len(chains)} canonical chains",
                  f"{rv.name} matches {bad[1]!r} inside canonical {bad[0]!r} and rewrites it to {tok!r}"
                  if bad else '', key=f"FIXPOINT|{rv.name}|canonical")


def _joiners(ctx):
    rem = ctx.fold.get('rgxlib.aliquots', 'aliquot_intervener_remover_regex')
    L = common.lang(ctx, rem)
    for j in [x for x in F.JOINERS if x] + ['  ', ' of the  ']:
        for a, b in (('N½', 'NE¼'), ('NE¼', 'SW¼'), ('E½W½', 'NW¼')):
            s = a + j + b
            ctx.check(L.fullmatch(s), 'RX-LANG', f"intervener remover matches {s!r}",
                      detail_bad=f"joiner {j!r} between components is no longer removed ({s!r})",
                      key=f"RX-LANG|aliquot_intervener_remover_regex|{j}|{a}")
    GAP = r"([ ]{1,3}|\n[ ]{0,2}|[ ]{0,3}of([ ]{1,2}the)?[ ]{0,3}|\n[ ]{0,2}of[ ]the[ ])"
    fam = rf"(([NESW]½)|((NE|NW|SE|SW)¼)){{1,2}}{GAP}(([NESW]½)|((NE|NW|SE|SW)¼))"
    _inc(ctx, 'RX-LANG', 'aliquot_intervener_remover_regex', fam, rem, 'components joined by spaces / of / of the')
    gf = common.group_facts(ctx, rem)
    ctx.check('aliquot1' in gf and 'aliquot2' in gf, 'RX-GROUPS', 'intervener remover has aliquot1/aliquot2',
              detail_bad="groups missing", key="RX-GROUPS|aliquot_intervener_remover_regex")
    fi = ctx.repo.func('tract_preprocess:remove_aliquot_interveners')
    subs = [c for c in walk_local(fi.node) if isinstance(c, ast.Call) and dotted(c.func) == 're.sub']
    tmpls = []
    for f2 in ctx.repo.funcs.values():
        if f2.module.name.endswith('tract_preprocess'):
            for c in walk_local(f2.node):
                if isinstance(c, ast.Call):
                    for a in list(c.args) + [k.value for k in c.keywords]:
                        v = ctx.fold.eval(a, ctx.fold.func_env(f2), f2.module.name)
                        if isinstance(v, str) and 'aliquot1' in v:
                            tmpls.append(v)
    ctx.tri(tmpls == [r"\g<aliquot1>\g<aliquot2>"], bool(tmpls) and any(t != r"\g<aliquot1>\g<aliquot2>" for t in tmpls), 'TBL',
            'interveners are replaced by the two components, nothing in between',
            detail_bad=f"replacement template is {tmpls!r}", key="TBL|remove_aliquot_interveners|template")
    # not inside ordinary prose
    for s in ('N½ and the NE¼', 'N½, NE¼', 'N½; NE¼'):
        ctx.check(not L.search(s), 'RX-LANG-NEG', f"separate elements stay separate: {s!r}",
                  detail_bad=f"{s!r} would be fused into one aliquot", key=f"RX-LANG-NEG|remover|{s}")
    hq = ctx.fold.get('rgxlib.aliquots', 'half_plus_q_regex')
    Lh = common.lang(ctx, hq)
    for s in ('E½NE', 'E½ NE', 'E½ of the NE', 'E½NENW', 'N½SW', 'W½ of SE'):
        ctx.check(Lh.fullmatch(s), 'RX-LANG', f"half_plus_q_regex matches {s!r}",
                  detail_bad=f"{s!r} (bare quarter directly after a half) is no longer recognised",
                  key=f"RX-LANG|half_plus_q_regex|{s}")
    # a bare quarter directly before an already clean component is completed too
    half_plus_q_contexts(ctx, ('NE¼', 'NW¼', 'SE¼', 'SW¼', 'N½', 'S½', 'E½', 'W½', ' of', ', less'))
    half_plus_q_contexts(ctx, ELEMENT_SEPARATORS)
    ctx.attempt(lookahead_accepts_separators)
    ctx.attempt(scrubbers_rewrite_every_match)
    for s in ('NE', 'NENW', ' NE', 'of NE'):
        ctx.check(not Lh.search(s), 'RX-LANG-NEG', f"half_plus_q_regex needs a leading half: {s!r}",
                  detail_bad=f"a bare quarter {s!r} is treated as an aliquot without clean_qq",
                  key=f"RX-LANG-NEG|half_plus_q_regex|{s}")
    gfh = common.group_facts(ctx, hq)
    for grp in ('half_aliquot', 'quarter_aliquot_rightmost', 'ne_found', 'nw_found', 'se_found', 'sw_found'):
        ctx.check(grp in gfh, 'RX-GROUPS', f"half_plus_q_regex has group {grp}",
                  detail_bad=f"group {grp} missing", key=f"RX-GROUPS|half_plus_q_regex|{grp}")
    if 'quarter_aliquot_rightmost' in gfh:
        ctx.check(gfh['quarter_aliquot_rightmost'].in_unbounded and not gfh['half_aliquot'].optional,
                  'RX-GROUPS', 'half_plus_q_regex: mandatory half, rightmost quarter inside the repeat',
                  detail_bad="group structure changed", key="RX-GROUPS|half_plus_q_regex|structure")


def _order(ctx):
    fi = ctx.repo.func('tract_preprocess:scrub_aliquots')
    cfg, _ = flow.analyse(fi.node)
    loops = [n for n in fi.node.body if isinstance(n, ast.For)]
    base_loop = [n for n in loops if norm(n.iter) == 'SCRUBBER_REGEXES']
    clean_if = [n for n in fi.node.body if isinstance(n, ast.If) and norm(n.test) == 'clean_qq'
                and any(isinstance(s, ast.For) and norm(s.iter) == 'CLEAN_QQ_REGEXES' for s in n.body)]
    ctx.shape(len(base_loop) == 1, 'ORDER', 'scrub_aliquots applies every base scrubber')
    ctx.shape(len(clean_if) == 1, 'ORDER', 'bare-quarter scrubbers run only under `if clean_qq`')
    # CLEAN_QQ_REGEXES never referenced outside that guard
    for n in walk_local(fi.node):
        if isinstance(n, ast.Name) and n.id == 'CLEAN_QQ_REGEXES':
            gs = [norm(t) for t, pol in guards(n) if pol]
            # a conditional expression `... if clean_qq else ...` also counts
            p_ = n
            cond = False
            while p_ is not None and p_ is not fi.node:
                if isinstance(p_, ast.IfExp) and 'clean_qq' in norm(p_.test):
                    cond = True
                p_ = getattr(p_, '_parent', None)
            ctx.tri('clean_qq' in gs or cond, not gs and not cond, 'ORDER', 'CLEAN_QQ_REGEXES used under clean_qq',
                    detail_bad="bare-quarter regexes are applied unconditionally: 'NE' is read as an aliquot without clean_qq",
                    key="ORDER|scrub_aliquots|clean-use")
    calls = {}
    for st in fi.node.body:
        if isinstance(st, ast.Assign) and isinstance(st.value, ast.Call):
            calls[dotted(st.value.func)] = st
    hp, ri = calls.get('half_plus_q_scrubber'), calls.get('remove_aliquot_interveners')
    ctx.shape(hp is not None and ri is not None, 'ORDER',
              'scrub_aliquots runs half_plus_q_scrubber and remove_aliquot_interveners')
    if hp is not None and ri is not None and base_loop and clean_if:
        for a, b, what in ((base_loop[0], clean_if[0], 'base scrubbers before bare-quarter scrubbers'),
                           (clean_if[0], hp, 'bare-quarter scrubbers before half-plus-quarter'),
                           (base_loop[0], hp, 'base scrubbers before half-plus-quarter'),
                           (hp, ri, 'half-plus-quarter before intervener removal'),
                           (clean_if[0], ri, 'bare-quarter scrubbers before intervener removal')):
            ctx.check(cfg.precedes_always(a, b), 'ORDER', f"scrub_aliquots: {what}",
                      detail_bad=f"pass order changed: not ({what}); later passes no longer see the "
                                 f"canonical tokens they join",
                      key=f"ORDER|scrub_aliquots|{what}")
    # the result of each pass feeds the next (txt = f(txt))
    for st in (hp, ri):
        if st is not None:
            ctx.shape(norm(st.targets[0]) == 'txt' and any(norm(a) == 'txt' for a in st.value.args),
                      'ORDER', f"scrub_aliquots: `{norm(st)}` threads txt")
    # TractPreprocessor.preprocess returns scrub_aliquots(text, clean_qq)
    fp = ctx.repo.func('TractPreprocessor.preprocess')
    t = ' '.join(norm(s) for s in walk_local(fp.node) if isinstance(s, ast.stmt))
    ctx.shape('return scrub_aliquots(text, clean_qq)' in t, 'ORDER',
              'TractPreprocessor.preprocess == scrub_aliquots(text, clean_qq)')


def _half_plus_q(ctx):
    fi = ctx.repo.func('tract_preprocess:process_half_plus_q_match')
    pairs = {}
    for n in walk_local(fi.node):
        if isinstance(n, ast.If):
            t = norm(n.test)
            m = re.match(r"mo\['(\w\w)_found'\] == rightmost_comparer", t)
            if m:
                for s in n.body:
                    if isinstance(s, ast.Assign) and norm(s.targets[0]) == 'rightmost_quarter':
                        pairs[m.group(1).upper()] = ctx.fold.eval(s.value, ctx.fold.module_env(fi.module.name), fi.module.name)
    if len(pairs) < 4:
        ctx.undecided('TBL', 'half_plus_q: <q>_found -> canonical quarter', 'branch chain not recognised')
    for q in ('NE', 'NW', 'SE', 'SW'):
        if q in pairs:
            ctx.check(pairs.get(q) == TOKENS[q], 'TBL', f"half_plus_q: {q.lower()}_found -> {TOKENS[q]!r}",
                      detail_bad=f"{q.lower()}_found is rewritten to {pairs.get(q)!r}",
                      key=f"TBL|process_half_plus_q_match|{q}")
    # the replacement is the match minus exactly the rightmost quarter's text
    rets = [n for n in walk_local(fi.node) if isinstance(n, ast.Return)]
    prov = flow.provenance(fi.node, rets[-1].value)
    cut = [p for p in prov if p[0] == 'sub' and isinstance(p[2].slice, ast.Slice)]
    ok = any(':-len(' in norm(p[2].slice).replace(' ', '') for p in cut)
    ctx.shape(ok, 'DEFUSE', 'half_plus_q: the rightmost quarter is cut off by length')
    ctx.shape(any(p[0] == 'call' and p[1] == 'mo.group' for p in prov), 'DEFUSE',
              'half_plus_q: replacement starts from the full match')


def stripset(ctx, funcs, rule='STRIPSET'):
    """str.strip/lstrip/rstrip take a *character set*: a non-literal (word)
    argument strips any of its characters, not the word."""
    for fi in funcs:
        n = 0
        for c in walk_local(fi.node):
            if isinstance(c, ast.Call) and isinstance(c.func, ast.Attribute) \
                    and c.func.attr in ('strip', 'lstrip', 'rstrip') and c.args:
                n += 1
                a = c.args[0]
                v = ctx.fold.eval(a, ctx.fold.func_env(fi), fi.module.name)
                if isinstance(v, str):
                    ctx.ok(rule, f"{fi.qualname}: {norm(c)[:50]}", 'literal character set')
                else:
                    ctx.violation(rule, f"{fi.qualname}: {norm(c)[:50]}",
                                  f"`{norm(c)}` strips the *characters* of `{norm(a)}`, not that substring",
                                  key=f"{rule}|{fi.qualname}|{c.func.attr}|{norm(a)[:30]}",
                                  where=common.loc(fi, c))
        if n == 0:
            ctx.ok(rule, f"{fi.qualname}: no strip with an argument")


def scrubbers_rewrite_every_match(ctx):
    """sub_scrubber replaces every match of a scrubber with its canonical
    token.  A replacement callback that hands some matches back unchanged
    (`return mo.group(0)` under a test on the neighbouring characters) leaves
    those components raw: with the scrubbers running in a fixed order
    ('SWNE' -> 'SW¼NE', NE was tried first and skipped) the text is neither
    canonical nor a fixed point, and the chain yields no QQs."""
    n = 0
    for spec in ('tract_preprocess:sub_scrubber',):
        try:
            fi = ctx.repo.func(spec)
        except AnalysisError:
            continue
        nested = {x.name: x for x in ast.walk(fi.node) if isinstance(x, ast.FunctionDef) and x is not fi.node}
        for c in ast.walk(fi.node):
            if not (isinstance(c, ast.Call) and ((dotted(c.func) == 're.sub' and len(c.args) >= 3)
                                                 or (isinstance(c.func, ast.Attribute) and c.func.attr == 'sub' and len(c.args) >= 2
                                                     and dotted(c.func) != 're.sub'))):
                continue
            repl = c.args[1] if dotted(c.func) == 're.sub' else c.args[0]
            fn = nested.get(repl.id) if isinstance(repl, ast.Name) else repl if isinstance(repl, ast.Lambda) else None
            if fn is None:
                continue
            n += 1
            mo_name = fn.args.args[0].arg if fn.args.args else None
            body_nodes = [fn.body] if isinstance(fn, ast.Lambda) else [r.value for r in ast.walk(fn) if isinstance(r, ast.Return) and r.value is not None]
            unchanged = [b for b in body_nodes for x in ast.walk(b)
                         if (isinstance(x, ast.Call) and isinstance(x.func, ast.Attribute) and x.func.attr == 'group'
                             and isinstance(x.func.value, ast.Name) and x.func.value.id == mo_name
                             and (not x.args or (isinstance(x.args[0], ast.Constant) and x.args[0].value == 0)) and x is b)
                         or (isinstance(x, ast.Subscript) and isinstance(x.value, ast.Name) and x.value.id == mo_name
                             and isinstance(x.slice, ast.Constant) and x.slice.value == 0 and x is b)]
            ctx.check(not unchanged, 'FIXPOINT', f"{fi.qualname}: every match of a scrubber is rewritten to its token",
                      detail_bad=f"the replacement callback returns the matched text unchanged on some path (`return {norm(unchanged[0])[:30] if unchanged else ''}`): "
                                 f"components the scrubber recognised stay raw - 'SWNE' under clean_qq comes out as 'SW¼NE', which is not "
                                 f"canonical, not a fixed point, and parses to no QQ",
                      key=f"FIXPOINT|{fi.qualname}|callback-skips-matches", where=common.loc(fi, c))
    return n
