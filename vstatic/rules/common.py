"""
Helpers shared by the rule modules: regex inventory, call-site queries.
"""

import ast

from .. import AnalysisError
from ..fold import RegexVal, is_unknown
from ..srcmodel import (walk_local, call_name, dotted, norm, enclosing_func,
                        parent, enclosing_stmt, literals)

RE_FUNCS = ('search', 'match', 'fullmatch', 'sub', 'subn', 'split',
            'findall', 'finditer', 'compile')


def regex_inventory(ctx):
    """
    Every regex of the package:
      * module-level compiled patterns (name -> RegexVal), and
      * patterns given inline to ``re.<func>(pattern, ...)`` inside function
        bodies (folded in the function's environment).
    Returns list of dicts {name, rv, where, kind}.
    """
    def build():
        out = []
        for full, rv in ctx.fold.all_regexes().items():
            out.append({'name': full.rsplit('.', 1)[1], 'full': full, 'rv': rv,
                        'where': full.rsplit('.', 1)[0], 'kind': 'module'})
        # class-level compiled patterns (TRS._TRS_UNPACKER_REGEX)
        for modname in ctx.repo.modules:
            env = ctx.fold.module_env(modname)
            for k, v in list(env.items()):
                from ..fold import ClassVal
                if isinstance(v, ClassVal) and v.module == modname:
                    for a, av in v.attrs.items():
                        if isinstance(av, RegexVal) and not any(o['rv'] is av for o in out):
                            out.append({'name': f"{v.name}.{a}", 'full': f"{modname}.{v.name}.{a}",
                                        'rv': av, 'where': modname, 'kind': 'class'})
        # inline patterns
        for fi in ctx.repo.funcs.values():
            if fi.module.name.startswith('pytrs.interface_tools'):
                continue
            env = None
            for n in walk_local(fi.node):
                if not isinstance(n, ast.Call):
                    continue
                cn = call_name(n)
                if cn and cn.startswith('re.') and cn[3:] in RE_FUNCS and n.args:
                    if env is None:
                        env = ctx.fold.func_env(fi)
                    pat = ctx.fold.eval(n.args[0], env, fi.module.name)
                    if isinstance(pat, RegexVal):
                        continue        # a compiled regex passed to re.sub
                    if is_unknown(pat) and _derives_from_params(fi, n.args[0]):
                        continue        # a regex handed in / built from the
                        #                 caller's arguments (analysed where
                        #                 the call is folded)
                    if (is_unknown(pat) or not isinstance(pat, str)) and isinstance(n.args[0], ast.Name):
                        # a pattern taken from a table that a for-loop walks
                        vals = loop_values(ctx, fi, n.args[0], env)
                        if vals and all(isinstance(v, str) for v in vals):
                            for v in vals:
                                rv = RegexVal(v, 0, name=f"{fi.qualname}:{v[:30]!r}", module=fi.module.name)
                                out.append({'name': rv.name, 'full': fi.fullname, 'rv': rv,
                                            'where': fi.fullname, 'kind': 'inline', 'node': n})
                            continue
                    if is_unknown(pat) or not isinstance(pat, str):
                        out.append({'name': f"{fi.qualname}:{norm(n.args[0])[:40]}",
                                    'full': fi.fullname, 'rv': None,
                                    'where': fi.fullname, 'kind': 'inline-unfolded',
                                    'why': getattr(pat, 'why', '?'), 'node': n})
                        continue
                    flags = 0
                    for kw in n.keywords:
                        if kw.arg == 'flags':
                            fv = ctx.fold.eval(kw.value, env, fi.module.name)
                            flags = fv if isinstance(fv, int) else 0
                    rv = RegexVal(pat, flags, name=f"{fi.qualname}:{pat[:30]!r}",
                                  module=fi.module.name)
                    out.append({'name': rv.name, 'full': fi.fullname, 'rv': rv,
                                'where': fi.fullname, 'kind': 'inline', 'node': n})
        return out
    return ctx.cache('regex_inventory', build)


def _derives_from_params(fi, expr, depth=0):
    params = set(fi.params())
    names = {n.id for n in ast.walk(expr) if isinstance(n, ast.Name)}
    if names & params:
        return True
    if depth > 3:
        return False
    for st in walk_local(fi.node):
        if isinstance(st, ast.Assign) and any(
                isinstance(t, ast.Name) and t.id in names for t in st.targets):
            if _derives_from_params(fi, st.value, depth + 1):
                return True
    return False


def regex_by_name(ctx, name):
    for r in regex_inventory(ctx):
        if r['name'] == name and r['rv'] is not None:
            return r['rv']
    raise AnalysisError(f"regex {name!r} not found in the package")


def regex_usage(ctx):
    """name -> list of (func fullname or module, node) where the module-level
    regex name is loaded outside the rgxlib package."""
    def build():
        names = {r['name'] for r in regex_inventory(ctx) if r['kind'] == 'module'}
        use = {n: [] for n in names}
        for mod in ctx.repo.modules.values():
            if '.rgxlib' in mod.name or mod.name.startswith('pytrs.interface_tools'):
                continue
            for n in ast.walk(mod.tree):
                if isinstance(n, ast.Name) and isinstance(n.ctx, ast.Load) and n.id in use:
                    f = enclosing_func(n)
                    where = getattr(f, '_func', None)
                    use[n.id].append((where.fullname if where else mod.name, n))
        return use
    return ctx.cache('regex_usage', build)


def calls_in(func_node, pred):
    out = []
    for n in walk_local(func_node):
        if isinstance(n, ast.Call) and pred(n):
            out.append(n)
    return out


def method_calls(func_node, attr):
    return calls_in(func_node, lambda c: isinstance(c.func, ast.Attribute)
                    and c.func.attr == attr)


def loc(fi, node):
    return f"{fi.module.relpath}:{getattr(node, 'lineno', '?')}"


def lang(ctx, rv):
    from .. import rx
    key = ('lang', rv.pattern, rv.flags)
    return ctx.cache(key, lambda: rx.Lang(rv.pattern, rv.flags))


def group_facts(ctx, rv):
    from .. import rx
    key = ('groups', rv.pattern, rv.flags)
    return ctx.cache(key, lambda: rx.groups(rv.pattern, rv.flags))


def discarded_results(ctx, funcs, rule='DISCARD'):
    """A call to a side-effect-free, value-returning repo function used as a
    bare statement: the validated / converted / cleaned value is dropped."""
    from .c16 import _mutates_param
    n = 0
    for fi in funcs:
        for st in walk_local(fi.node):
            if not (isinstance(st, ast.Expr) and isinstance(st.value, ast.Call)):
                continue
            c = st.value
            name = dotted(c.func) or ''
            last = name.split('.')[-1]
            cands = [f for f in ctx.repo.funcs.values() if f.node.name == last and f.outer is None]
            if len(cands) != 1:
                continue
            f = cands[0]
            if last.startswith('__') or last in ('print',):
                continue
            rets = [r for r in walk_local(f.node) if isinstance(r, ast.Return)]
            if not rets or any(r.value is None or (isinstance(r.value, ast.Constant) and r.value.value is None) for r in rets):
                continue
            # a checker that raises on bad input and hands its argument back unchanged is
            # called for the check, not for the value
            if any(isinstance(x, ast.Raise) for x in walk_local(f.node)) and all(
                    isinstance(r.value, ast.Name) and r.value.id in f.params()
                    and not any(isinstance(a_, (ast.Assign, ast.AugAssign)) and any(
                        isinstance(t_, ast.Name) and t_.id == r.value.id for t_ in ast.walk(a_)) for a_ in walk_local(f.node))
                    for r in rets):
                continue
            # side effects: stores to attributes / globals / mutation of parameters / calls on self
            effect = False
            # names that may refer to (part of) an argument object
            tainted = set(f.params())
            def _root(e):
                while isinstance(e, (ast.Subscript, ast.Attribute)):
                    e = e.value
                return e.id if isinstance(e, ast.Name) else None
            changed = True
            while changed:
                changed = False
                for x in walk_local(f.node):
                    if isinstance(x, ast.Assign) and _root(x.value) in tainted:
                        for t in x.targets:
                            if isinstance(t, ast.Name) and t.id not in tainted:
                                tainted.add(t.id)
                                changed = True
                    if isinstance(x, ast.For) and _root(x.iter) in tainted:
                        for t in ast.walk(x.target):
                            if isinstance(t, ast.Name) and t.id not in tainted:
                                tainted.add(t.id)
                                changed = True
            for x in walk_local(f.node):
                if isinstance(x, ast.Attribute) and isinstance(x.ctx, (ast.Store, ast.Del)):
                    effect = True
                if isinstance(x, ast.Subscript) and isinstance(x.ctx, (ast.Store, ast.Del)) and _root(x) in tainted:
                    effect = True
                if isinstance(x, ast.Global):
                    effect = True
                if isinstance(x, ast.Call) and isinstance(x.func, ast.Attribute) and x.func.attr in (
                        'append', 'extend', 'insert', 'pop', 'remove', 'update', 'setdefault', 'write', 'writerow', 'sort', 'reverse', 'clear'):
                    tgt = x.func.value
                    if isinstance(tgt, ast.Attribute) or _root(tgt) in tainted:
                        effect = True
                if isinstance(x, ast.Call) and (dotted(x.func) or '').startswith(('self.', 'cls.')) \
                        and not (dotted(x.func) or '').split('.')[-1].startswith(('_verify', '_handle')):
                    effect = True
                if isinstance(x, ast.Call) and dotted(x.func) in ('print', 'setattr', 'open'):
                    effect = True
            if effect:
                continue
            n += 1
            ctx.violation(rule, f"{fi.qualname}: `{norm(st)[:60]}`",
                          f"`{last}()` only computes and returns a value (no side effect); calling it as a bare "
                          f"statement drops the validated / converted result",
                          key=f"{rule}|{fi.qualname}|{last}", where=loc(fi, st))
    return n


def flag_drops(ctx, funcs, rule='RX-FLAGS'):
    """`re.<f>(R.pattern, ...)` re-applies the pattern text of a compiled regex
    R without R's flags (IGNORECASE / VERBOSE / ...): a different language."""
    import re as _re
    n = 0
    for fi in funcs:
        env = None
        for c in walk_local(fi.node):
            if not (isinstance(c, ast.Call) and (call_name(c) or '').startswith('re.')
                    and (call_name(c) or '')[3:] in RE_FUNCS and c.args):
                continue
            a0 = c.args[0]
            uses = [x for x in ast.walk(a0) if isinstance(x, ast.Attribute) and x.attr == 'pattern'
                    and isinstance(x.value, ast.Name)]
            if not uses:
                continue
            if env is None:
                env = ctx.fold.func_env(fi)
            for u in uses:
                rv = env.get(u.value.id)
                if not isinstance(rv, RegexVal):
                    continue
                need = rv.flags & ~_re.U
                has_flags = any(k.arg == 'flags' for k in c.keywords) or \
                    len(c.args) > {'sub': 4, 'subn': 4, 'split': 3}.get((call_name(c) or '')[3:], 2)
                n += 1
                if need and not has_flags:
                    ctx.violation(rule, f"{fi.qualname}: {norm(c)[:60]}",
                                  f"`{u.value.id}.pattern` is applied through re.{(call_name(c) or '')[3:]} without "
                                  f"{u.value.id}'s flags ({_re.RegexFlag(need)!s}): e.g. upper-case spellings stop matching",
                                  key=f"{rule}|{fi.qualname}|{u.value.id}", where=loc(fi, c))
                else:
                    ctx.ok(rule, f"{fi.qualname}: {norm(c)[:60]}", 'flags preserved / none needed')
    return n


def freshness(v):
    """
    Does evaluating ``v`` produce a new container object, or hand on an
    existing one?  'fresh': .copy()/list()/dict()/sorted()/deepcopy calls,
    displays, comprehensions, ``a + b`` (a new list), full slices;
    'alias': a bare name / attribute / subscript, or a choice between such;
    'unknown': anything else.
    """
    import ast as _a
    if isinstance(v, (_a.List, _a.Dict, _a.Set, _a.Tuple, _a.ListComp, _a.DictComp, _a.SetComp,
                      _a.GeneratorExp, _a.Constant, _a.JoinedStr)):
        return 'fresh'
    if isinstance(v, _a.Call):
        if isinstance(v.func, _a.Attribute) and v.func.attr in ('copy', 'deepcopy'):
            return 'fresh'
        if isinstance(v.func, _a.Name) and v.func.id in ('list', 'dict', 'tuple', 'set', 'sorted', 'deepcopy', 'copy'):
            return 'fresh'
        return 'unknown'
    if isinstance(v, _a.BinOp) and isinstance(v.op, (_a.Add, _a.Mult)):
        return 'fresh'
    if isinstance(v, _a.Subscript):
        if isinstance(v.slice, _a.Slice):
            return 'fresh'
        return 'alias'
    if isinstance(v, (_a.Name, _a.Attribute)):
        return 'alias'
    if isinstance(v, _a.IfExp):
        ks = {freshness(v.body), freshness(v.orelse)}
    elif isinstance(v, _a.BoolOp):
        ks = {freshness(x) for x in v.values}
    else:
        return 'unknown'
    if ks == {'fresh'}:
        return 'fresh'
    if 'alias' in ks:
        return 'alias'
    return 'unknown'


def embedded_case_consistency(ctx, modules=None, rule='RX-FLAGS'):
    """
    Regex A's pattern text is embedded in regex B, B is compiled with
    IGNORECASE and A - which the code also applies on its own (typically to
    the text B just matched) - is not: then A must accept every case variant
    of its own words, or the stand-alone test disagrees with the embedding
    one.  Decided by language inclusion L(A with I) <= L(A as compiled).
    """
    import re as _re
    from .. import rx, AnalysisError as _AE
    inv = regex_inventory(ctx)
    usage = regex_usage(ctx)
    n = 0
    for a in inv:
        if a['rv'].flags & _re.I or len(a['rv'].pattern) < 6:
            continue
        if modules is not None and not any(str(a['where']).endswith(m) for m in modules):
            continue
        if not usage.get(a['name']) and a.get('kind') == 'module':
            continue
        hosts = [b for b in inv if b is not a and a['rv'].pattern in b['rv'].pattern and b['rv'].flags & _re.I]
        if not hosts:
            continue
        n += 1
        construct = f"{a['name']} (embedded in {', '.join(sorted({b['name'] for b in hosts}))[:80]}) is case-closed"
        try:
            w = rx.included(a['rv'].pattern, a['rv'].flags | _re.I, a['rv'].pattern, a['rv'].flags, ascii_only=True)
        except _AE as e:
            ctx.undecided(rule, construct, str(e))
            continue
        sites = sorted({s[0].split(':')[-1] for s in usage.get(a['name'], [])})
        ctx.check(w is None, rule, construct,
                  'accepts every case variant of what it accepts',
                  f"{a['name']} is compiled without IGNORECASE but embedded in the case-insensitive "
                  f"{hosts[0]['name']}: {w!r} is matched there and rejected by the stand-alone use in {sites}",
                  key=f"{rule}|{a['name']}|case-closed", where=a['where'])
    return n


def clause_purity(ctx, funcs, tags=('twp', 'rge', 'sec'), rule='SIB'):
    """
    Copy/paste slips in parallel clauses: a boolean expression with one
    clause per component (twp / rge / sec), where every other clause reads
    only names of its own component and one clause reads names of two
    components.  Empty baseline on the pinned tree.
    """
    import re as _re

    def tagset(e):
        out = set()
        for n in ast.walk(e):
            ident = n.id if isinstance(n, ast.Name) else n.attr if isinstance(n, ast.Attribute) \
                else n.value if isinstance(n, ast.Constant) and isinstance(n.value, str) else None
            if ident:
                for tok in _re.split(r'[_\W]+', ident.lower()):
                    if tok in tags:
                        out.add(tok)
        return out
    n = 0
    for fi in funcs:
        for b in walk_local(fi.node):
            if not (isinstance(b, ast.BoolOp) and len(b.values) >= 3):
                continue
            ts = [tagset(v) for v in b.values]
            pure = [next(iter(t)) for t in ts if len(t) == 1]
            if len(pure) < 2 or len(set(pure)) != len(pure):
                continue
            n += 1
            mixed = [(v, t) for v, t in zip(b.values, ts) if len(t) > 1]
            construct = f"{fi.qualname}: each clause of `{norm(b)[:50]}...` reads its own component only"
            if not mixed:
                ctx.ok(rule, construct, f"{len(ts)} parallel clauses")
                continue
            for v, t in mixed:
                own = sorted(t - set(pure))
                other = sorted(t & set(pure))
                ctx.violation(rule, construct,
                              f"the clause `{norm(v)[:70]}` belongs to {own or sorted(t)} but also reads {other}: its "
                              f"sibling clauses each read one component only (copy/paste slip)",
                              key=f"{rule}|{fi.qualname}|clause|{','.join(sorted(t))}", where=loc(fi, v))
    return n


def outparam_truthiness(ctx, funcs, rule='SIB'):
    """
    A container parameter that the function only *adds to* (subscript store,
    append / update / setdefault ...; never pop / remove) is an out-parameter
    the caller wants filled.  Testing it by truthiness (`if not P`) takes an
    empty container the caller handed in for "nothing given"; only `P is
    None` tells the two apart.  Empty baseline on the pinned tree.
    """
    ADD = {'append', 'extend', 'insert', 'update', 'setdefault', 'add'}
    TAKE = {'pop', 'remove', 'clear', 'popitem'}
    n = 0
    for fi in funcs:
        params = set(fi.params()) - {'self', 'cls'}
        filled, taken = {}, set()
        for x in walk_local(fi.node):
            if isinstance(x, ast.Subscript) and isinstance(x.value, ast.Name) and x.value.id in params:
                if isinstance(x.ctx, ast.Store):
                    filled.setdefault(x.value.id, x)
                elif isinstance(x.ctx, ast.Del):
                    taken.add(x.value.id)
            if isinstance(x, ast.Call) and isinstance(x.func, ast.Attribute) and isinstance(x.func.value, ast.Name) \
                    and x.func.value.id in params:
                if x.func.attr in ADD:
                    filled.setdefault(x.func.value.id, x)
                elif x.func.attr in TAKE:
                    taken.add(x.func.value.id)
        for p in sorted(set(filled) - taken):
            n += 1
            tests = [t for t in walk_local(fi.node) if isinstance(t, (ast.If, ast.IfExp, ast.While))
                     and any(txt == p for _e, txt, _pol in literals([(t.test, True)]))]
            construct = f"{fi.qualname}: out-parameter `{p}` is told from None by identity, not truthiness"
            if tests:
                ctx.violation(rule, construct,
                              f"`{norm(tests[0].test)}` treats an empty `{p}` like a missing one although the function "
                              f"fills `{p}` in place (`{norm(filled[p])[:40]}`): an empty container passed by the caller "
                              f"is never filled", key=f"{rule}|{fi.qualname}|truthy-outparam|{p}", where=loc(fi, tests[0]))
            else:
                ctx.ok(rule, construct, f"filled by `{norm(filled[p])[:40]}`")
    return n


def error_check_covers_all(ctx, fi, rule='SIB'):
    """The description-level error flag looks at every component: the
    trs_is_error()/is_error() call in ``fi`` does not switch a component off
    with a constant False."""
    calls = [c for c in walk_local(fi.node) if isinstance(c, ast.Call)
             and (dotted(c.func) or '').split('.')[-1] in ('trs_is_error', 'is_error')]
    construct = f"{fi.qualname}: the error check covers Twp, Rge and Sec"
    if not calls:
        staged = [n for n in walk_local(fi.node) if isinstance(n, ast.comprehension) and 'tract_components' in norm(n.iter)]
        staged += [n for n in walk_local(fi.node) if isinstance(n, ast.For) and 'tract_components' in norm(n.iter)]
        uses_err = any(isinstance(x, ast.Attribute) and x.attr.startswith('_ERR_') for x in ast.walk(fi.node))
        if staged and uses_err:
            ctx.violation(rule, construct,
                          f"{fi.qualname} compares the STAGED components with the error placeholders instead of asking each Tract "
                          f"(`trs_is_error()`): the TRS is built from the components afterwards, and components that look fine "
                          f"can still give the error TRS (a 3-digit section: 'Sec 114' -> XXXzXXXzXX), which then raises no "
                          f"error flag and leaves desc_is_flawed False", key=f"{rule}|{fi.qualname}|error-check|staged",
                          where=fi.loc)
        else:
            ctx.undecided(rule, construct, 'no trs_is_error() call found')
        return
    for c in calls:
        off = [k.arg for k in c.keywords if k.arg and isinstance(k.value, ast.Constant) and k.value.value is False]
        off += [('twp', 'rge', 'sec')[i] for i, a in enumerate(c.args[:3])
                if isinstance(a, ast.Constant) and a.value is False]
        ctx.check(not off, rule, construct, f"`{norm(c)}`",
                  f"`{norm(c)}` leaves out {off}: a tract whose {'/'.join(off)} is an error (e.g. a Twp/Rge without "
                  f"section under copy_all: 154n97wXX) raises no error flag and the description is not flawed",
                  key=f"{rule}|{fi.qualname}|error-check|{','.join(off)}", where=loc(fi, c))


def none_vs_false(ctx, funcs, rule='SIB'):
    """
    A repo function that can return both None ("nothing") and False / 0 (a
    value) is a three-valued answer: testing its result by bare truthiness
    (`if value:`) throws the False / 0 answers in with "nothing".  Empty
    baseline on the pinned tree.
    """
    from .. import flow as _flow
    three = {}
    for f in ctx.repo.funcs.values():
        rc = set()
        for r in walk_local(f.node):
            if isinstance(r, ast.Return):
                if r.value is None:
                    rc.add('None')
                elif isinstance(r.value, ast.Constant):
                    rc.add(repr(r.value.value))
        if 'None' in rc and ({'False', '0'} & rc):
            three[f.node.name] = f
    n = 0
    for fi in funcs:
        for t in walk_local(fi.node):
            if not isinstance(t, (ast.If, ast.IfExp, ast.While)):
                continue
            for e, txt, pol in literals([(t.test, True)]):
                if not isinstance(e, ast.Name):
                    continue
                try:
                    pv = _flow.provenance(fi.node, e)
                except Exception:
                    continue
                hit = {c.split('.')[-1] for c in _flow.prov_calls(pv)} & set(three)
                if not hit:
                    continue
                # the tested name must BE such an answer (`value = str_to_value(x)`), not something
                # computed from it (`legal = isinstance(value, bool)` is an honest two-valued test)
                try:
                    cfg_, rd_ = _flow.analyse(fi.node)
                    vals = [rd_.defs[d] for d in rd_.reaching(_flow.stmt_node(cfg_, e), e.id)]
                except Exception:
                    vals = []

                def is_answer(v, depth=0):
                    if isinstance(v, ast.Call):
                        return (dotted(v.func) or '').split('.')[-1] in three
                    if isinstance(v, ast.IfExp):
                        return is_answer(v.body, depth) or is_answer(v.orelse, depth)
                    return False
                if vals and not any(is_answer(v) for v in vals):
                    continue
                n += 1
                src = sorted(hit)[0]
                ctx.violation(rule, f"{fi.qualname}: the answer of {src}() is told from None by identity",
                              f"`{norm(t.test)[:50]}` tests `{txt}` by truthiness, but {src}() returns None for 'nothing' and "
                              f"False / 0 as real values: an explicit False / 0 is dropped like a missing value",
                              key=f"{rule}|{fi.qualname}|none-vs-false|{txt}", where=loc(fi, t))
    if three and n == 0:
        ctx.ok(rule, f"three-valued answers ({', '.join(sorted(three))}) are never tested by bare truthiness")
    return n


PARALLEL_FAMILIES = (('twp', 'rge', 'sec'), ('lots', 'qqs'), ('lot', 'qq'), ('ns', 'ew'))


def parallel_shapes(ctx, funcs, rule='SIB'):
    """
    Copy/paste deviants among parallel code (Engler's "deviant behaviour"
    applied to one function): the clauses of a boolean expression, the rows
    of a table of tuples, or adjacent statements that are the same text up to
    a component word (twp/rge/sec, lots/qqs, ns/ew).
      MIX      one of the parallel items reads two components while its
               siblings read one each (`f(self.qqs, len(self.lots))`);
      DEVIANT  three or more items, one per component, all but one of the
               same shape (`self.twp_num, self.rge_num, self.sec`).
    Empty baseline on the pinned tree.
    """
    import re as _re
    n = 0

    def analyse(fi, items, kind):
        nonlocal n
        for fam in PARALLEL_FAMILIES:
            info = []
            for it in items:
                txt = norm(it)
                words = _re.split(r'(\W+|_)', txt)
                tags = {w.lower() for w in words if w.lower() in fam}
                shape = ''.join('#' if w.lower() in fam else w for w in words)
                info.append((tags, shape, txt, it))
            i = 0
            while i < len(info):
                j = i
                while j + 1 < len(info) and info[j + 1][1] == info[i][1] and info[i][0]:
                    j += 1
                grp = info[i:j + 1]
                if len(grp) >= 2:
                    n += 1
                    pure = [g for g in grp if len(g[0]) == 1]
                    mixed = [g for g in grp if len(g[0]) > 1]
                    if pure and mixed:
                        for g in mixed:
                            ctx.violation(rule, f"{fi.qualname}: parallel {kind} read one component each",
                                          f"`{g[2][:80]}` reads {sorted(g[0])} although its sibling `{pure[0][2][:60]}` reads "
                                          f"{sorted(pure[0][0])} only (copy/paste slip: a name of the other component was left in)",
                                          key=f"{rule}|{fi.qualname}|mix|{','.join(sorted(g[0]))}", where=loc(fi, g[3]))
                i = j + 1
            pure = [x for x in info if len(x[0]) == 1]
            if len(pure) >= 3 and len(pure) == len(info) and len({next(iter(p[0])) for p in pure}) == len(pure):
                shapes = {}
                for p in pure:
                    shapes.setdefault(p[1], []).append(p)
                n += 1
                if len(shapes) == 2 and min(len(v) for v in shapes.values()) == 1 and max(len(v) for v in shapes.values()) >= 2:
                    odd = min(shapes.values(), key=len)[0]
                    norm_ = max(shapes.values(), key=len)[0]
                    ctx.violation(rule, f"{fi.qualname}: parallel {kind} have the same shape for every component",
                                  f"`{odd[2][:70]}` deviates from its siblings (`{norm_[2][:70]}` and alike): the "
                                  f"{sorted(odd[0])[0]} item reads a different attribute than the pattern of the others",
                                  key=f"{rule}|{fi.qualname}|deviant|{sorted(odd[0])[0]}", where=loc(fi, odd[3]))
    for fi in funcs:
        for x in ast.walk(fi.node):
            if isinstance(x, ast.BoolOp) and len(x.values) >= 2:
                analyse(fi, x.values, 'clauses')
            if isinstance(x, (ast.Tuple, ast.List)) and len(x.elts) >= 2 and all(isinstance(e, (ast.Tuple, ast.List)) for e in x.elts):
                analyse(fi, x.elts, 'rows')
            for fld in ('body', 'orelse'):
                bl = getattr(x, fld, None)
                if isinstance(bl, list) and len(bl) >= 2 and all(isinstance(s, ast.stmt) for s in bl):
                    analyse(fi, [s for s in bl if isinstance(s, (ast.Assign, ast.Expr, ast.AugAssign))], 'statements')
    if n:
        ctx.ok(rule, f"{n} groups of parallel clauses / rows / statements examined for copy-paste deviants")
    return n


def replace_by_text(ctx, fi, rule='SINK'):
    """`txt.replace(<text of a regex match>, ...)` rewrites every occurrence
    of those characters, not the matched span: returns the offending calls."""
    from .. import flow as _flow
    bad = []
    for c in walk_local(fi.node):
        if isinstance(c, ast.Call) and isinstance(c.func, ast.Attribute) and c.func.attr == 'replace' and c.args:
            try:
                pv = _flow.provenance(fi.node, c.args[0])
            except Exception:
                continue
            calls = {x.split('.')[-1] for x in _flow.prov_calls(pv)}
            subs = any(p[0] == 'sub' and ('mo' in p[1] or 'match' in p[1]) for p in pv)
            if 'group' in calls or subs or {'finditer', 'search', 'match', 'fullmatch'} & calls:
                bad.append(c)
    return bad


def config_words(ctx, plss=(), tract=(), rule='TBL'):
    """The settings a property relies on are understood by Config: listed in
    _CONFIG_ATTRIBUTES, in the value-category table of their kind, and in the
    table of the object kind (PLSSDesc / Tract) that must receive them."""
    g = lambda a: ctx.fold.get_attr('config.config', 'Config', a)
    allattrs, bools, ints = g('_CONFIG_ATTRIBUTES'), g('_BOOL_TYPE_ATTRIBUTES'), g('_INT_TYPE_ATTRIBUTES')
    tables = {'_PLSSDESC_ATTRIBUTES': (g('_PLSSDESC_ATTRIBUTES'), plss), '_TRACT_ATTRIBUTES': (g('_TRACT_ATTRIBUTES'), tract)}
    for name in sorted(set(plss) | set(tract)):
        ctx.check(name in allattrs, rule, f"Config._CONFIG_ATTRIBUTES knows {name!r}",
                  detail_bad=f"{name!r} is not a Config setting any more: the word is rejected / ignored in a config string",
                  key=f"{rule}|Config._CONFIG_ATTRIBUTES|{name}")
        if name.startswith('qq_depth'):
            ctx.check(name in ints, rule, f"Config._INT_TYPE_ATTRIBUTES knows {name!r}",
                      detail_bad=f"{name!r} lost its value category: `{name}.<n>` is not converted", key=f"{rule}|Config._INT_TYPE_ATTRIBUTES|{name}")
        elif name not in ('default_ns', 'default_ew', 'layout'):
            ctx.check(name in bools, rule, f"Config._BOOL_TYPE_ATTRIBUTES knows {name!r}",
                      detail_bad=f"{name!r} lost its value category: the bare word `{name}` in a config string is silently ignored",
                      key=f"{rule}|Config._BOOL_TYPE_ATTRIBUTES|{name}")
    for tname, (table, names) in tables.items():
        for name in names:
            ctx.check(name in table, rule, f"Config.{tname} knows {name!r}",
                      detail_bad=f"{name!r} is missing from Config.{tname}: a `{name}` given by config string / Config object "
                                 f"never reaches the {'description' if 'PLSS' in tname else 'tracts'}",
                      key=f"{rule}|Config.{tname}|{name}")


def match_record_roles(ctx, rule='PAIR'):
    """
    The finders of the description parser hand their matches on as records
    (kind, value, start, end).  Field roles are read off the producers (the
    element built from `.start(...)` is the start offset, from `.end(...)`
    the end offset); every consumer that unpacks such a record or indexes it
    with a constant must bind a name that says `start` / `end` to the field
    of that role.  Empty baseline on the pinned tree.
    """
    roles = None
    for spec in ('TwpRgeFinder.findall_matching_twprge', 'SecFinder.findall_matching_sec'):
        fi = ctx.repo.func(spec)
        for t in ast.walk(fi.node):
            if isinstance(t, ast.Tuple) and len(t.elts) == 4 and isinstance(t.ctx, ast.Load):
                r = []
                for e in t.elts:
                    if isinstance(e, ast.Call) and isinstance(e.func, ast.Attribute) and e.func.attr in ('start', 'end'):
                        r.append(e.func.attr)
                    elif isinstance(e, ast.Constant) and isinstance(e.value, str):
                        r.append('kind')
                    else:
                        r.append('val')
                if 'start' in r and 'end' in r:
                    if roles is not None and roles != r:
                        ctx.violation(rule, 'both finders build their match records in the same field order',
                                      f"{roles} vs {r}", key=f"{rule}|match-record|producers")
                    roles = r
    construct = 'consumers of (kind, value, start, end) match records read start / end from the right field'
    if roles is None:
        ctx.undecided(rule, construct, 'match records are not 4-tuples built from .start()/.end() any more')
        return
    n = 0

    def role_of_name(nm):
        toks = nm.lower().split('_')
        # only names that speak about the MATCH ('start', 'next_start', 'prev_end', 'twprge_end'); a name
        # like `block_end` says where the block ends - which may well be the START of the next match
        about_match = {'next', 'prev', 'previous', 'last', 'twprge', 'tr', 'sec', 'match', 'mo', 'this', 'cur', 'current',
                       'new', 'old', 'first', 'start', 'end', 'pos', 'position', 'idx', 'index', 'of'}
        if not set(toks) <= about_match:
            return None
        if 'start' in toks:
            return 'start'
        if 'end' in toks:
            return 'end'
        return None
    for fi in ctx.repo.funcs.values():
        if not fi.module.name.endswith('plssdesc.plss_parse'):
            continue
        for st in walk_local(fi.node):
            pairs = []          # (target tuple, source expr)
            if isinstance(st, ast.Assign) and len(st.targets) == 1 and isinstance(st.targets[0], ast.Tuple):
                pairs.append((st.targets[0], st.value))
            if isinstance(st, ast.For):
                tg = st.target
                if isinstance(tg, ast.Tuple) and len(tg.elts) == 2 and isinstance(tg.elts[1], ast.Tuple):
                    tg = tg.elts[1]         # for i, (kind, val, start, end) in enumerate(matches)
                if isinstance(tg, ast.Tuple):
                    pairs.append((tg, st.iter))
            for tg, src in pairs:
                if len(tg.elts) != 4 or 'match' not in norm(src).lower():
                    continue
                for idx, e in enumerate(tg.elts):
                    if isinstance(e, ast.Name):
                        want = role_of_name(e.id)
                        if want is None:
                            continue
                        n += 1
                        ctx.check(roles[idx] == want, rule, f"{fi.qualname}: `{e.id}` is bound to the {want} field of the match record",
                                  f"field {idx}",
                                  f"`{norm(tg)} = {norm(src)[:40]}` binds `{e.id}` to field {idx}, which is the record's "
                                  f"{roles[idx]}: blocks are cut at the wrong offset of the neighbouring match",
                                  key=f"{rule}|{fi.qualname}|{e.id}|{roles[idx]}", where=loc(fi, st))
            # constant index into a record:  x = matches[i + 1][2]
            if isinstance(st, ast.Assign) and len(st.targets) == 1 and isinstance(st.targets[0], ast.Name) \
                    and isinstance(st.value, ast.Subscript) and isinstance(st.value.slice, ast.Constant) \
                    and isinstance(st.value.slice.value, int) and isinstance(st.value.value, ast.Subscript) \
                    and 'match' in norm(st.value.value.value).lower():
                want = role_of_name(st.targets[0].id)
                idx = st.value.slice.value
                if want is not None and -4 <= idx < 4:
                    n += 1
                    ctx.check(roles[idx] == want, rule, f"{fi.qualname}: `{st.targets[0].id}` is read from the {want} field of the match record",
                              f"field {idx}",
                              f"`{norm(st)}` reads field {idx} of the record, which is its {roles[idx]}, into `{st.targets[0].id}`",
                              key=f"{rule}|{fi.qualname}|{st.targets[0].id}|{roles[idx]}", where=loc(fi, st))
    if n == 0:
        ctx.undecided(rule, construct, 'no consumer unpacks the records by position')
    return n


def locate_by_text(ctx, fi, rule='SLICE'):
    """
    Inside a regex match, a sub-match has a POSITION (mo.start(g) / mo.end(g),
    or its length counted from a known end).  Looking its text up again in
    the matched string (`.index(x)`, `.find(x)`, `.split(x)`, `.replace(x,..)`
    with x taken from a group of the match) finds the FIRST occurrence of
    those characters, which is another place whenever the text repeats.
    Returns the number of sites examined; reports each offending call.
    """
    from .. import flow as _flow
    n = 0
    for c in walk_local(fi.node):
        if not (isinstance(c, ast.Call) and isinstance(c.func, ast.Attribute)
                and c.func.attr in ('index', 'find', 'rindex', 'rfind', 'split', 'rsplit', 'partition', 'rpartition', 'replace')
                and c.args):
            continue
        try:
            pa = _flow.provenance(fi.node, c.args[0])
            pr = _flow.provenance(fi.node, c.func.value)
        except Exception:
            continue

        def from_match(pv):
            return any(p[0] == 'call' and p[1].split('.')[-1] == 'group' for p in pv) or \
                any(p[0] == 'sub' and _re_mo.search(p[1]) for p in pv)
        import re as _re
        _re_mo = _re.compile(r"\b(mo|match|\w*_mo)\b\[")
        if from_match(pa) and from_match(pr):
            n += 1
            ctx.violation(rule, f"{fi.qualname}: a sub-match is located by its position in the match, not by searching for its text",
                          f"`{norm(c)[:70]}` searches the matched text for the characters of one of its groups: with a repeated "
                          f"component ('S2SESE') the first occurrence is found instead of the group's own position",
                          key=f"{rule}|{fi.qualname}|by-text|{c.func.attr}", where=loc(fi, c))
    return n


def cut_out_spans(ctx, fi, rule='SLICE'):
    """`text[:mo.start(a)] ... text[mo.end(b):]` removes the span of ONE thing:
    a and b name the same group (or both the whole match)."""
    n = 0
    starts, ends = {}, {}
    for x in walk_local(fi.node):
        if isinstance(x, ast.Subscript) and isinstance(x.slice, ast.Slice):
            sl = x.slice
            if sl.lower is None and isinstance(sl.upper, ast.Call) and isinstance(sl.upper.func, ast.Attribute) \
                    and sl.upper.func.attr == 'start':
                starts.setdefault(norm(sl.upper.func.value), []).append((sl.upper, x))
            if sl.upper is None and isinstance(sl.lower, ast.Call) and isinstance(sl.lower.func, ast.Attribute) \
                    and sl.lower.func.attr == 'end':
                ends.setdefault(norm(sl.lower.func.value), []).append((sl.lower, x))
    for mo_, ss in starts.items():
        for (sc, sx) in ss:
            for (ec, ex) in ends.get(mo_, []):
                if norm(sx.value) != norm(ex.value) or enclosing_stmt(sx)._parent is not enclosing_stmt(ex)._parent:
                    continue
                n += 1
                ga = norm(sc.args[0]) if sc.args else '0'
                gb = norm(ec.args[0]) if ec.args else '0'
                ctx.check(ga == gb, rule, f"{fi.qualname}: `{norm(sx)}` / `{norm(ex)}` cut out one span",
                          f"start({ga}) .. end({gb})",
                          f"the text before `{mo_}.start({ga})` and after `{mo_}.end({gb})` is kept: the part of the match between "
                          f"its own start and the start of group {ga} stays in the text and is parsed a second time",
                          key=f"{rule}|{fi.qualname}|cut|{ga}|{gb}", where=loc(fi, sx))
    return n


def mixed_pop_ends(ctx, funcs, rule='ORDER'):
    """A list that one function consumes with `pop(0)` in one place and with
    `pop()` / `pop(-1)` in another is read from both ends: the elements come
    out in an order that matches neither.  Empty baseline."""
    n = 0
    for fi in funcs:
        ends = {}
        for c in walk_local(fi.node):
            if isinstance(c, ast.Call) and isinstance(c.func, ast.Attribute) and c.func.attr == 'pop' \
                    and isinstance(c.func.value, ast.Name) and len(c.args) <= 1:
                arg = norm(c.args[0]) if c.args else '-1'
                if arg in ('0', '-1'):
                    ends.setdefault(c.func.value.id, {}).setdefault(arg, c)
        for name, by_end in ends.items():
            n += 1
            if len(by_end) > 1:
                c = by_end['-1']
                ctx.violation(rule, f"{fi.qualname}: `{name}` is consumed from one end only",
                              f"`{norm(by_end['0'])}` takes from the front but `{norm(c)}` takes from the back: with three or more "
                              f"items the later ones are used in reversed order (keys / levels no longer line up with the list given)",
                              key=f"{rule}|{fi.qualname}|pop-ends|{name}", where=loc(fi, c))
    return n



def loop_values(ctx, fi, name_node, env=None):
    """Values a Name takes when it is bound by an enclosing `for` over a
    sequence that folds to constants (a table of patterns / pairs)."""
    env = env if env is not None else ctx.fold.func_env(fi)
    p = parent(name_node)
    while p is not None and p is not fi.node:
        if isinstance(p, ast.For):
            tg = p.target
            idx = None
            if isinstance(tg, ast.Name) and tg.id == name_node.id:
                idx = ()
            elif isinstance(tg, (ast.Tuple, ast.List)):
                for i, e in enumerate(tg.elts):
                    if isinstance(e, ast.Name) and e.id == name_node.id:
                        idx = (i,)
            if idx is not None:
                seq = ctx.fold.eval(p.iter, env, fi.module.name)
                if isinstance(seq, dict):
                    seq = list(seq.items()) if idx else list(seq)
                if isinstance(seq, (list, tuple)):
                    try:
                        return [el[idx[0]] if idx else el for el in seq]
                    except (TypeError, IndexError):
                        return None
                return None
        p = parent(p)
    return None


def sub_pairs(ctx, fi):
    """(pattern, replacement, call node) of every `re.sub(<const>, <const>, ...)`
    in ``fi``, including calls driven by a table a for-loop walks."""
    env = ctx.fold.func_env(fi)
    out = []
    for c in walk_local(fi.node):
        if not (isinstance(c, ast.Call) and (dotted(c.func) or '') == 're.sub' and len(c.args) >= 2):
            continue
        p_ = ctx.fold.eval(c.args[0], env, fi.module.name)
        r_ = ctx.fold.eval(c.args[1], env, fi.module.name)
        if isinstance(p_, str) and isinstance(r_, str):
            out.append((p_, r_, c))
            continue
        if isinstance(c.args[0], ast.Name) and isinstance(c.args[1], ast.Name):
            ps, rs = loop_values(ctx, fi, c.args[0], env), loop_values(ctx, fi, c.args[1], env)
            if ps and rs and len(ps) == len(rs) and all(isinstance(x, str) for x in ps + rs):
                out.extend((a, b, c) for a, b in zip(ps, rs))
    # compiled patterns: RX.sub(<const>, text), also driven by a table a for-loop walks
    for c in walk_local(fi.node):
        if not (isinstance(c, ast.Call) and isinstance(c.func, ast.Attribute) and c.func.attr == 'sub'
                and dotted(c.func) != 're.sub' and len(c.args) >= 2):
            continue
        rcv = c.func.value
        try:
            pv = fold_in_func(ctx, fi, rcv)
        except AnalysisError:
            pv = None
        r_ = ctx.fold.eval(c.args[0], env, fi.module.name)
        if pv is not None and hasattr(pv, 'pattern') and isinstance(r_, str):
            out.append((pv.pattern, r_, c))
            continue
        if isinstance(rcv, ast.Name) and isinstance(c.args[0], ast.Name):
            ps, rs = loop_values(ctx, fi, rcv, env), loop_values(ctx, fi, c.args[0], env)
            if ps and rs and len(ps) == len(rs) and all(hasattr(x, 'pattern') for x in ps) and all(isinstance(x, str) for x in rs):
                out.extend((a.pattern, b, c) for a, b in zip(ps, rs))
    return out


def fold_in_func(ctx, fi, expr):
    """Fold ``expr`` as seen inside function ``fi``: local constants, module
    names, and ``self.X`` / ``cls.X`` / ``<Class>.X`` resolved to the class
    attribute of the (outermost) enclosing class."""
    env = dict(ctx.fold.func_env(fi))
    f = fi
    while f.outer is not None:
        f = f.outer
    ci = f.cls
    if ci is not None:
        cv = ctx.fold.module_env(f.module.name).get(ci.name)
        attrs = getattr(cv, 'attrs', None) or {}

        class _R(ast.NodeTransformer):
            def visit_Attribute(self, n):
                if isinstance(n.value, ast.Name) and n.value.id in ('self', 'cls', ci.name) and n.attr in attrs:
                    env[f"__clsattr_{n.attr}"] = attrs[n.attr]
                    return ast.copy_location(ast.Name(id=f"__clsattr_{n.attr}", ctx=ast.Load()), n)
                return self.generic_visit(n)
        import copy
        expr = ast.fix_missing_locations(_R().visit(copy.deepcopy(expr)))
    return ctx.fold.eval(expr, env, fi.module.name)


def flag_vocabulary(ctx):
    """names of the warning / error flags the package can raise: the text in
    front of '<' in every flag literal / f-string, and every constant bound to
    a variable called ``flag``"""
    import re as _re
    voc = set()
    for mod in ctx.repo.modules.values():
        if '.parser.' not in mod.name + '.':
            continue
        for n in ast.walk(mod.tree):
            if isinstance(n, ast.JoinedStr) and n.values and isinstance(n.values[0], ast.Constant) \
                    and isinstance(n.values[0].value, str):
                m = _re.match(r'^([a-z][a-z_0-9]*)<', n.values[0].value)
                if m:
                    voc.add(m.group(1))
            elif isinstance(n, ast.Constant) and isinstance(n.value, str):
                m = _re.match(r'^([a-z][a-z_0-9]*)<', n.value)
                if m:
                    voc.add(m.group(1))
            elif isinstance(n, ast.Assign) and len(n.targets) == 1 and isinstance(n.targets[0], ast.Name) \
                    and n.targets[0].id in ('flag', 'w_flag', 'e_flag') and isinstance(n.value, ast.Constant) \
                    and isinstance(n.value.value, str) and _re.fullmatch(r'[a-z][a-z_0-9]*', n.value.value):
                voc.add(n.value.value)
    return voc


def flag_prefix_tests(ctx, rule='TBL', module_suffixes=None):
    """A flag is recognised by ``flag.startswith(name)`` / ``name in flag``:
    if ``name`` is also the beginning of a different flag's name (dup_lot /
    dup_lot_acreage), the test answers for the wrong flag."""
    voc = flag_vocabulary(ctx)
    n = 0
    for fi in ctx.repo.funcs.values():
        if module_suffixes and not fi.module.name.endswith(tuple(module_suffixes)):
            continue
        for c in walk_local(fi.node):
            consts = []
            node = None
            if isinstance(c, ast.Call) and isinstance(c.func, ast.Attribute) and c.func.attr == 'startswith' and len(c.args) == 1 \
                    and isinstance(c.func.value, ast.Name) and 'flag' in c.func.value.id:
                node = c.args[0]
            elif isinstance(c, ast.Compare) and len(c.ops) == 1 and isinstance(c.ops[0], (ast.In, ast.NotIn)) \
                    and isinstance(c.comparators[0], ast.Name) and 'flag' in c.comparators[0].id:
                node = c.left
            if node is None:
                continue
            if isinstance(node, ast.Constant) and isinstance(node.value, str):
                consts = [node.value]
            elif isinstance(node, ast.Name) and node.id in fi.params() and fi.outer is not None:
                idx = [p for p in fi.params() if p not in ('self', 'cls')].index(node.id) if node.id in fi.params() else None
                for k in walk_local(fi.outer.node):
                    if isinstance(k, ast.Call) and dotted(k.func) == fi.node.name:
                        a = k.args[idx] if idx is not None and idx < len(k.args) else next(
                            (kw.value for kw in k.keywords if kw.arg == node.id), None)
                        if isinstance(a, ast.Constant) and isinstance(a.value, str):
                            consts.append(a.value)
            for cst in consts:
                if cst not in voc:
                    continue
                n += 1
                others = sorted(v for v in voc if v != cst and v.startswith(cst)) or ['']
                ctx.check(others == [''], rule, f"{fi.qualname}: the flag test on {cst!r} cannot be answered by a different flag",
                          detail_bad=f"{cst!r} is also how {others} begin{'s' if len(others) == 1 else ''}: "
                                     f"`{norm(c)[:60]}` is true for {others[0]!r} flags too, so the {cst!r} flag is taken "
                                     f"for present (or handled) when only {others[0]!r} is",
                          key=f"{rule}|{fi.qualname}|prefix|{cst}", where=loc(fi, c))
    return n


_SHRINKERS = ('strip', 'lstrip', 'rstrip', 'replace', 'removeprefix', 'removesuffix', 'translate')


def test_then_shrink(ctx, funcs, rule='DEFUSE'):
    """`if v in ('', None): v = <placeholder>  else: v = f(v.strip())` decides
    emptiness BEFORE the value is stripped: a whitespace-only value is not
    mapped to the placeholder and becomes empty afterwards (and is then padded
    / formatted into something that looks valid)."""
    n = 0
    for fi in funcs:
        for node in walk_local(fi.node):
            if not isinstance(node, ast.If):
                continue
            for _e, txt, pol in literals([(node.test, True)]):
                v = None
                for pat in ("{v} in ('', None)", "{v} in (None, '')", "{v} in ['', None]", "{v} in [None, '']", "{v} == ''", "{v}"):
                    pass
                e = _e
                if isinstance(e, ast.Compare) and len(e.ops) == 1 and isinstance(e.left, ast.Name):
                    comp = e.comparators[0]
                    vals = None
                    if isinstance(e.ops[0], ast.In) and isinstance(comp, (ast.Tuple, ast.List, ast.Set)):
                        vals = [c.value for c in comp.elts if isinstance(c, ast.Constant)]
                    elif isinstance(e.ops[0], ast.Eq) and isinstance(comp, ast.Constant):
                        vals = [comp.value]
                    if vals is not None and '' in vals:
                        v = e.left.id
                elif isinstance(e, ast.Name):
                    v, pol = e.id, not pol        # `if v:` is the non-empty test
                if v is None:
                    continue
                empty_branch, full_branch = (node.body, node.orelse) if pol else (node.orelse, node.body)
                maps_empty = any(isinstance(s, ast.Assign) and norm(s.targets[0]) == v for s in empty_branch)
                for s in full_branch:
                    if isinstance(s, ast.Assign) and norm(s.targets[0]) == v:
                        shr = [c for c in ast.walk(s.value) if isinstance(c, ast.Call) and isinstance(c.func, ast.Attribute)
                               and c.func.attr in _SHRINKERS
                               and any(isinstance(x, ast.Name) and x.id == v for x in ast.walk(c.func.value))]
                        if not shr:
                            continue
                        n += 1
                        ctx.tri(False, maps_empty, rule,
                                f"{fi.qualname}: `{v}` is tested for emptiness on the value that is used",
                                detail_bad=f"`if {norm(node.test)}` maps an empty `{v}` to `{norm(empty_branch[0])[:40]}`, but the other "
                                           f"branch shrinks it afterwards (`{norm(s)[:60]}`): a whitespace-only value passes the "
                                           f"test, becomes '' and is then formatted as if it were a value",
                                key=f"{rule}|{fi.qualname}|test-then-shrink|{v}", where=loc(fi, s),
                                why=f"`{norm(s)[:50]}` after an emptiness test on `{v}`; the empty case is not mapped to a placeholder here")
    return n


def no_dedup_on_insert(ctx, funcs, rule='SINK', exempt=('duplicate', 'unique', 'dedup')):
    """Containers keep every element they are given, equal or not (only the
    duplicate filters may drop): an append / add that runs only when the
    element (or its id) is `not in` a collection the same function fills is a
    silent de-duplication."""
    from ..srcmodel import facts_at
    n = 0
    for fi in funcs:
        if any(w in fi.qualname.lower() for w in exempt) or any(w in p_.lower() for p_ in fi.params() for w in exempt):
            continue            # removing duplicates is what the function (or its option) is for
        filled = set()
        for c in walk_local(fi.node):
            if isinstance(c, ast.Call) and isinstance(c.func, ast.Attribute) and c.func.attr in ('append', 'add', 'extend') \
                    and isinstance(c.func.value, ast.Name):
                filled.add(c.func.value.id)
        for c in walk_local(fi.node):
            if not (isinstance(c, ast.Call) and isinstance(c.func, ast.Attribute) and c.func.attr in ('append', 'extend')
                    and c.args):
                continue
            elem = c.args[0]
            names = {x.id for x in ast.walk(elem) if isinstance(x, ast.Name)}
            n += 1
            # `target.extend([t for t in xs if t not in target])`: the filter sits inside the argument
            if isinstance(elem, (ast.ListComp, ast.GeneratorExp)) and len(elem.generators) == 1:
                g_ = elem.generators[0]
                tgt_txt = norm(c.func.value)
                for t_ in g_.ifs:
                    if isinstance(t_, ast.Compare) and len(t_.ops) == 1 and isinstance(t_.ops[0], ast.NotIn) \
                            and isinstance(g_.target, ast.Name) and norm(t_.left) == g_.target.id \
                            and norm(t_.comparators[0]) == tgt_txt:
                        ctx.violation(rule, f"{fi.qualname}: every element is kept (`{norm(c)[:50]}`)",
                                      f"`{norm(c)[:70]}` only adds what `{tgt_txt}` does not hold yet: an element that is equal to "
                                      f"(or the same object as) one already there is dropped without notice - grouping / unpacking "
                                      f"no longer returns every element that went in",
                                      key=f"{rule}|{fi.qualname}|dedup-extend|{tgt_txt[:20]}", where=loc(fi, c))
            for e, txt, pol in facts_at(c):
                if pol or not (isinstance(e, ast.Compare) and isinstance(e.ops[0], ast.In)):
                    continue
                coll = e.comparators[0]
                left_names = {x.id for x in ast.walk(e.left) if isinstance(x, ast.Name)}
                if isinstance(coll, ast.Name) and coll.id in filled and left_names & names:
                    ctx.violation(rule, f"{fi.qualname}: every element is kept (`{norm(c)[:50]}`)",
                                  f"`{norm(c)[:50]}` runs only if `{txt}` is false and `{coll.id}` is filled by this very "
                                  f"function: an element that is equal to (or the same object as) an earlier one is "
                                  f"dropped without notice, so the result no longer holds what went in",
                                  key=f"{rule}|{fi.qualname}|dedup|{coll.id}", where=loc(fi, c))
    return n


def total_lookups(ctx, funcs, rule='EXC'):
    """`TABLE[key]` where TABLE is a constant dict of the package and `key` is
    computed from the text a regex group matched: the look-up must succeed for
    EVERY text the group can match (there is no KeyError handler and no
    membership test).  Members of the group's language are enumerated from the
    pattern (all alternatives; repeats taken lo and lo+1 times), pushed
    through the key computation (upper / lower / strip / replace / re.sub with
    constant arguments) and looked up; a member whose key is missing is a
    concrete text that raises KeyError in the middle of a parse."""
    from .. import rx
    from ..fold import is_unknown
    import re as _re
    n = 0
    for fi in funcs:
        menv = ctx.fold.module_env(fi.module.name)
        for node in walk_local(fi.node):
            if not (isinstance(node, ast.Subscript) and isinstance(node.ctx, ast.Load) and isinstance(node.value, ast.Name)):
                continue
            table = menv.get(node.value.id)
            if not (isinstance(table, dict) and table and all(isinstance(k, str) for k in table)):
                continue
            if any(isinstance(x, ast.Name) and isinstance(x.ctx, ast.Store) and x.id == node.value.id for x in walk_local(fi.node)):
                continue
            # handled KeyError / membership test?
            p, handled = getattr(node, '_parent', None), False
            while p is not None and p is not fi.node:
                if isinstance(p, ast.Try) and any(h.type is None or any(
                        nm in norm(h.type) for nm in ('KeyError', 'LookupError', 'Exception')) for h in p.handlers):
                    handled = True
                p = getattr(p, '_parent', None)
            from ..srcmodel import facts_at
            if handled or any(f" in {node.value.id}" in txt for _e, txt, _p in facts_at(node)):
                continue
            construct = f"{fi.qualname}: `{norm(node)[:50]}` finds a key for every text the group can match"
            # single-assignment locals
            defs = {}
            for st in walk_local(fi.node):
                if isinstance(st, ast.Assign) and len(st.targets) == 1 and isinstance(st.targets[0], ast.Name):
                    defs.setdefault(st.targets[0].id, []).append(st.value)
            src = {}    # (match var, group) found while evaluating

            class _Unsup(Exception):
                pass

            def ev(e, w, depth=0):
                if depth > 12:
                    raise _Unsup('depth')
                if isinstance(e, ast.Constant):
                    return e.value
                if isinstance(e, ast.Name):
                    if e.id in defs and len(defs[e.id]) == 1:
                        return ev(defs[e.id][0], w, depth + 1)
                    raise _Unsup(f"name {e.id}")
                if isinstance(e, ast.Subscript) and isinstance(e.value, ast.Name) and isinstance(e.slice, ast.Constant) \
                        and isinstance(e.slice.value, str):
                    src[(e.value.id, e.slice.value)] = True
                    return w
                if isinstance(e, ast.Call) and isinstance(e.func, ast.Attribute):
                    f = e.func
                    if f.attr == 'group' and isinstance(f.value, ast.Name) and len(e.args) == 1 \
                            and isinstance(e.args[0], ast.Constant) and isinstance(e.args[0].value, str):
                        src[(f.value.id, e.args[0].value)] = True
                        return w
                    if dotted(f) == 're.sub' and len(e.args) == 3:
                        pat, rep = ev(e.args[0], w, depth + 1), ev(e.args[1], w, depth + 1)
                        x = ev(e.args[2], w, depth + 1)
                        if not all(isinstance(v, str) for v in (pat, rep, x)):
                            raise _Unsup('re.sub args')
                        return rx.Lang(pat, 0).sub(rep, x)
                    base = ev(f.value, w, depth + 1)
                    if isinstance(base, str):
                        args = [ev(a, w, depth + 1) for a in e.args]
                        if f.attr in ('upper', 'lower', 'strip', 'lstrip', 'rstrip', 'title', 'capitalize', 'casefold') \
                                and all(isinstance(a, str) for a in args) and len(args) <= 1:
                            return getattr(base, f.attr)(*args)
                        if f.attr == 'replace' and len(args) == 2 and all(isinstance(a, str) for a in args):
                            return base.replace(*args)
                    raise _Unsup(f"call .{f.attr}")
                if isinstance(e, ast.JoinedStr):
                    out = ''
                    for part in e.values:
                        if isinstance(part, ast.Constant):
                            out += str(part.value)
                        elif isinstance(part, ast.FormattedValue) and part.format_spec is None and part.conversion == -1:
                            out += str(ev(part.value, w, depth + 1))
                        else:
                            raise _Unsup('format spec')
                    return out
                raise _Unsup(type(e).__name__)

            try:
                ev(node.slice, 'x')
            except (_Unsup, AnalysisError) as e:
                continue            # key does not come from a match group in a way that is followed here
            if len(src) != 1:
                continue
            (mvar, gname), = src.keys()
            # which regex produced the match object?
            rvs = []
            if mvar in fi.params():
                for f2 in ctx.repo.funcs.values():
                    for c in ast.walk(f2.node):
                        if isinstance(c, ast.Call) and any(isinstance(a, ast.Name) and a.id == fi.node.name for a in c.args):
                            cand = None
                            if dotted(c.func) == 're.sub' and c.args:
                                cand = c.args[0]
                            elif isinstance(c.func, ast.Attribute) and c.func.attr in ('sub', 'subn'):
                                cand = c.func.value
                            if cand is not None:
                                try:
                                    v = fold_in_func(ctx, f2, cand)
                                except AnalysisError:
                                    v = None
                                if v is not None and hasattr(v, 'pattern'):
                                    rvs.append(v)
            else:
                for st in walk_local(fi.node):
                    if isinstance(st, (ast.Assign, ast.For)):
                        tgt = st.targets[0] if isinstance(st, ast.Assign) else st.target
                        val = st.value if isinstance(st, ast.Assign) else st.iter
                        if isinstance(tgt, ast.Name) and tgt.id == mvar and isinstance(val, ast.Call) \
                                and isinstance(val.func, ast.Attribute) and val.func.attr in ('search', 'match', 'fullmatch', 'finditer'):
                            try:
                                v = fold_in_func(ctx, fi, val.func.value)
                            except AnalysisError:
                                v = None
                            if v is not None and hasattr(v, 'pattern'):
                                rvs.append(v)
            if not rvs:
                ctx.undecided(rule, construct, f"the regex behind `{mvar}` is not resolved")
                continue
            n += 1
            for rv in rvs:
                gf = group_facts(ctx, rv)
                if gname not in gf:
                    continue
                try:
                    words = rx.enumerate_words(gf[gname].node, rv.flags)
                except AnalysisError as e:
                    ctx.undecided(rule, construct, f"group language not enumerated ({e})")
                    continue
                if rv.flags & _re.I:
                    words = list(dict.fromkeys(words + [w.lower() for w in words] + [w.upper() for w in words]))
                L = lang(ctx, rv)
                missing = []
                for w in words:
                    try:
                        k = ev(node.slice, w)
                    except (_Unsup, AnalysisError):
                        break
                    if isinstance(k, str) and k not in table:
                        missing.append((w, k))
                ctx.check(not missing, rule, construct, f"{len(words)} members of group {gname!r} of {rv.name or 'the pattern'} tried",
                          (f"group {gname!r} of {rv.name or 'the pattern'} can match {missing[0][0]!r}, which gives the key "
                           f"{missing[0][1]!r}; `{node.value.id}` has only {sorted(table)[:8]}: KeyError escapes from the parse "
                           f"({len(missing)} of {len(words)} enumerated texts fail)") if missing else '',
                          key=f"{rule}|{fi.qualname}|lookup|{node.value.id}", where=loc(fi, node))
    return n


def dedup_idioms(ctx, funcs, rule='SINK', exempt=('duplicate', 'unique', 'dedup')):
    """`list(dict.fromkeys(xs))`, `list(set(xs))`, `sorted(set(xs))` used to
    BUILD a result drop repeated entries.  The parse path keeps repetitions
    (a section or lot named twice gives two entries and a dup_* flag); only
    the duplicate filters may collapse them."""
    n = 0

    def is_exempt(f):
        return any(w in f.qualname.lower() for w in exempt) or any(w in p_.lower() for p_ in f.params() for w in exempt)

    def only_called_by_exempt(f):
        # a helper carved out of a duplicate filter (`_duplicate_key`, `_comparison_key`) works for it
        def index():
            idx = {}
            for g in ctx.repo.funcs.values():
                for c in walk_local(g.node):
                    if isinstance(c, ast.Call):
                        nm = (dotted(c.func) or '').split('.')[-1]
                        if nm:
                            idx.setdefault(nm, []).append(g)
            return idx
        callers = [g for g in ctx.cache('callers-by-simple-name', index).get(f.node.name, []) if g is not f]
        return bool(callers) and all(is_exempt(g) for g in callers)
    for fi in funcs:
        if is_exempt(fi):
            continue
        for c in walk_local(fi.node):
            if isinstance(c, ast.Call) and dotted(c.func) == 'dict.fromkeys' and len(c.args) == 1 \
                    and not (isinstance(getattr(c, '_parent', None), ast.Call) and dotted(c._parent.func) in ('list', 'sorted', 'tuple')):
                pass        # dict.fromkeys(xs) with one argument has no other use than an ordered de-duplication
            elif not (isinstance(c, ast.Call) and dotted(c.func) in ('list', 'sorted', 'tuple') and len(c.args) == 1
                      and isinstance(c.args[0], ast.Call)):
                continue
            else:
                inner = c.args[0]
                nm = dotted(inner.func)
                if nm not in ('dict.fromkeys', 'set', 'frozenset') or not inner.args:
                    continue
            if only_called_by_exempt(fi):
                continue
            n += 1
            ctx.violation(rule, f"{fi.qualname}: repeated entries are kept (`{norm(c)[:50]}`)",
                          f"`{norm(c)[:60]}` collapses entries that occur more than once: a section / lot that the text names "
                          f"twice no longer gives two entries (and the unpacker, the multisec / dup flags and the tract list "
                          f"disagree about how many there are)", key=f"{rule}|{fi.qualname}|dedup-idiom",
                          where=loc(fi, c))
    return n


def prefilters(ctx, funcs, rule='DEFUSE'):
    """A cheap test `'(' in txt` in front of a regex search is a sound
    shortcut only if EVERY text the regex can match contains that substring.
    Members of the regex's language are enumerated from the pattern; one that
    lacks the substring is a text the shortcut wrongly skips."""
    from .. import rx
    from .forward import resolve
    n = 0
    for fi in funcs:
        flags = {}      # name -> (const, subject name, polarity)
        direct = []
        for st in walk_local(fi.node):
            cmp_ = None
            if isinstance(st, ast.Assign) and len(st.targets) == 1 and isinstance(st.targets[0], ast.Name) \
                    and isinstance(st.value, ast.Compare):
                cmp_ = st.value
            if cmp_ is not None and len(cmp_.ops) == 1 and isinstance(cmp_.ops[0], (ast.In, ast.NotIn)) \
                    and isinstance(cmp_.left, ast.Constant) and isinstance(cmp_.left.value, str) and cmp_.left.value \
                    and isinstance(cmp_.comparators[0], ast.Name):
                flags[st.targets[0].id] = (cmp_.left.value, cmp_.comparators[0].id, isinstance(cmp_.ops[0], ast.In))
        for node in walk_local(fi.node):
            if not isinstance(node, ast.If):
                continue
            gate = None
            for _e, txt, pol in literals([(node.test, True)]):
                if txt in flags and pol == flags[txt][2]:
                    gate = flags[txt]
                elif isinstance(_e, ast.Compare) and isinstance(_e.ops[0], ast.In) and pol \
                        and isinstance(_e.left, ast.Constant) and isinstance(_e.left.value, str) and _e.left.value \
                        and isinstance(_e.comparators[0], ast.Name):
                    gate = (_e.left.value, _e.comparators[0].id, True)
            if gate is None:
                continue
            const = gate[0]
            # regexes searched (directly or in a callee) under the gate
            searched = []
            for c in [x for b in node.body for x in ast.walk(b) if isinstance(x, ast.Call)]:
                holders = [(fi, c)]
                r = resolve(ctx, fi, c)
                if r:
                    holders += [(r[0], x) for x in walk_local(r[0].node) if isinstance(x, ast.Call)]
                for hf, hc in holders:
                    if isinstance(hc.func, ast.Attribute) and hc.func.attr in ('search', 'match', 'fullmatch', 'finditer', 'findall'):
                        try:
                            v = fold_in_func(ctx, hf, hc.func.value)
                        except AnalysisError:
                            v = None
                        if v is not None and hasattr(v, 'pattern'):
                            searched.append(v)
            for rv in searched:
                n += 1
                try:
                    words = rx.enumerate_words(rx.parse(rv.pattern, rv.flags), rv.flags)
                except AnalysisError as e:
                    ctx.undecided(rule, f"{fi.qualname}: `{const!r} in {gate[1]}` is implied by every match of {rv.name}",
                                  f"language not enumerated ({e})")
                    continue
                lacking = [w for w in words if const.lower() not in w.lower()]
                ctx.check(not lacking, rule, f"{fi.qualname}: `{const!r} in {gate[1]}` is implied by every match of {rv.name}",
                          f"{len(words)} enumerated members contain it",
                          f"{rv.name} also matches {lacking[0]!r}, which does not contain {const!r}: the shortcut skips the search "
                          f"for such text, so what the regex would have found (an acreage written in the other bracket "
                          f"style, ...) is silently lost" if lacking else '',
                          key=f"{rule}|{fi.qualname}|prefilter|{const}|{rv.name}", where=loc(fi, node))
    return n


def alias_grown_in_place(ctx, funcs, rule='DEFUSE'):
    """`v = self.matches[0][1]` does not copy: `v += more` (or v.extend(...))
    then grows the list that the object keeps, although `v` only looks like a
    local working value (it is merely read afterwards: joined, iterated,
    formatted).  Flagged when the alias is list-like in this function (it is
    joined / iterated / measured) and is never stored back on purpose."""
    n = 0
    for fi in funcs:
        alias = {}
        for st in walk_local(fi.node):
            if isinstance(st, ast.Assign) and len(st.targets) == 1 and isinstance(st.targets[0], ast.Name):
                v, root, hops, sliced = st.value, st.value, 0, False
                while isinstance(root, (ast.Attribute, ast.Subscript)):
                    if isinstance(root, ast.Subscript) and isinstance(root.slice, ast.Slice):
                        sliced = True
                    root, hops = root.value, hops + 1
                if isinstance(root, ast.Name) and root.id in ('self', 'cls') + tuple(fi.params()) and hops >= 1 and not sliced \
                        and isinstance(v, (ast.Attribute, ast.Subscript)):
                    alias[st.targets[0].id] = st
        for st in walk_local(fi.node):
            name = None
            if isinstance(st, ast.AugAssign) and isinstance(st.op, ast.Add) and isinstance(st.target, ast.Name):
                name = st.target.id
            if name not in alias:
                continue
            listlike = any(
                (isinstance(x, ast.Call) and isinstance(x.func, ast.Attribute) and x.func.attr == 'join'
                 and any(isinstance(a, ast.Name) and a.id == name for a in x.args))
                or (isinstance(x, (ast.For, ast.comprehension)) and isinstance(x.iter, ast.Name) and x.iter.id == name)
                or (isinstance(x, ast.Call) and dotted(x.func) in ('len', 'sorted', 'list', 'tuple', 'set') and x.args
                    and isinstance(x.args[0], ast.Name) and x.args[0].id == name)
                for x in walk_local(fi.node))
            n += 1
            src = alias[name]
            ctx.tri(False, listlike, rule, f"{fi.qualname}: `{norm(st)[:40]}` works on a copy",
                    detail_bad=f"`{norm(src)[:60]}` binds `{name}` to the very list the object keeps, and `{norm(st)[:40]}` grows that "
                               f"list in place: `{norm(src.value)}` now holds the added entries too (extra sections -> extra tracts "
                               f"on the pass that merely wanted to report them)",
                    key=f"{rule}|{fi.qualname}|alias-grown|{name}", where=loc(fi, st),
                    why=f"`{name}` aliases `{norm(src.value)}` and is augmented; whether it is a list is not decided")
    return n


OPTIONAL_NUMBERS = ('twp_num', 'rge_num', 'sec_num')


def optional_number_ordering(ctx, funcs, rule='EXC'):
    """`.twp_num` / `.rge_num` / `.sec_num` are "an int or None" (None for an
    error or undefined component - every fallback tract has one).  An ordering
    comparison or arithmetic on such a value without a None test raises
    TypeError in the middle of a parse."""
    from ..srcmodel import facts_at
    n = 0
    for fi in funcs:
        # local names bound directly from such an attribute
        opt = {}
        for st in walk_local(fi.node):
            if isinstance(st, ast.Assign) and len(st.targets) == 1 and isinstance(st.targets[0], ast.Name) \
                    and isinstance(st.value, ast.Attribute) and st.value.attr in OPTIONAL_NUMBERS:
                opt[st.targets[0].id] = norm(st.value)
        # a name that is assigned more than once (`if num is None: num = default`) is not tracked
        for nm_ in list(opt):
            if sum(1 for x in walk_local(fi.node) if isinstance(x, ast.Name) and isinstance(x.ctx, ast.Store) and x.id == nm_) > 1:
                del opt[nm_]
        for st in ():
            pass
        for c in walk_local(fi.node):
            operands = []
            if isinstance(c, ast.Compare) and any(isinstance(o, (ast.Lt, ast.LtE, ast.Gt, ast.GtE)) for o in c.ops):
                operands = [c.left] + list(c.comparators)
            elif isinstance(c, ast.BinOp) and isinstance(c.op, (ast.Add, ast.Sub, ast.Mult, ast.FloorDiv, ast.Mod)):
                operands = [c.left, c.right]
            for o in operands:
                txt = None
                if isinstance(o, ast.Attribute) and o.attr in OPTIONAL_NUMBERS and not (
                        isinstance(o.value, ast.Name) and o.value.id in ('mo', 'match')):
                    txt = norm(o)
                elif isinstance(o, ast.Name) and o.id in opt:
                    txt = o.id
                if txt is None:
                    continue
                n += 1
                facts = [(t, p) for _e, t, p in facts_at(c)]
                # short-circuit guards inside the same boolean expression: `x is not None and x > 3`
                par = getattr(c, '_parent', None)
                while isinstance(par, (ast.BoolOp, ast.UnaryOp, ast.IfExp)):
                    if isinstance(par, ast.BoolOp) and isinstance(par.op, ast.And):
                        for v in par.values:
                            if v is c or any(x is c for x in ast.walk(v)):
                                break
                            facts += [(t, p) for _e, t, p in literals([(v, True)])]
                    if isinstance(par, ast.IfExp) and (par.body is c or any(x is c for x in ast.walk(par.body))):
                        facts += [(t, p) for _e, t, p in literals([(par.test, True)])]
                    par = getattr(par, '_parent', None)
                names = {txt} | ({opt[txt]} if txt in opt else set())
                guarded = any((t in names and p) or (t in {f"{x} is None" for x in names} and not p)
                              or (t.startswith('isinstance(') and any(x in t for x in names) and p) for t, p in facts)
                # inside try/except TypeError
                h = getattr(c, '_parent', None)
                while h is not None and h is not fi.node:
                    if isinstance(h, ast.Try) and any(hd.type is None or 'TypeError' in norm(hd.type) or 'Exception' in norm(hd.type)
                                                      for hd in h.handlers):
                        guarded = True
                    h = getattr(h, '_parent', None)
                ctx.check(guarded, rule, f"{fi.qualname}: `{norm(c)[:50]}` runs only when {txt} is a number",
                          detail_bad=f"`{norm(c)[:60]}` uses {txt}, which is None for every tract with an error / undefined component "
                                     f"(a description with no section, a 3-digit section, copy_all text without a Twp/Rge): "
                                     f"TypeError escapes from the parse", key=f"{rule}|{fi.qualname}|optional-number|{txt}",
                          where=loc(fi, c))
    return n


def empty_reductions(ctx, funcs, rule='EXC'):
    """`functools.reduce(f, seq)` without an initial value, and `max(seq)` /
    `min(seq)` of one non-literal iterable without `default=`, raise on an
    empty sequence."""
    from ..srcmodel import facts_at
    n = 0
    for fi in funcs:
        for c in walk_local(fi.node):
            if not isinstance(c, ast.Call):
                continue
            name = (dotted(c.func) or '').split('.')[-1]
            seq = None
            if name == 'reduce' and len(c.args) == 2:
                seq = c.args[1]
            elif name in ('max', 'min') and len(c.args) == 1 and not any(k.arg == 'default' for k in c.keywords) \
                    and not isinstance(c.args[0], (ast.Tuple, ast.List, ast.Set, ast.Dict)):
                seq = c.args[0]
            while isinstance(seq, ast.Call) and dotted(seq.func) in ('reversed', 'list', 'tuple', 'iter', 'sorted') and seq.args:
                seq = seq.args[0]
            if seq is None or not isinstance(seq, ast.Name):
                continue
            n += 1
            facts = [(t, p) for _e, t, p in facts_at(c)]
            nm = seq.id
            nonempty = any((t == nm and p) or (t in (f"len({nm}) > 0", f"len({nm}) >= 1") and p)
                           or (t in (f"not {nm}", f"len({nm}) == 0") and not p) for t, p in facts)
            if name == 'reduce':
                ctx.check(nonempty, rule, f"{fi.qualname}: `{norm(c)[:50]}` is not reached with an empty sequence",
                          detail_bad=f"`{norm(c)[:60]}` has no initial value: an empty `{nm}` (e.g. nothing left to rebuild under "
                                     f"qq_depth 0) raises TypeError where the loop it replaces simply did nothing",
                          key=f"{rule}|{fi.qualname}|reduce-empty|{nm}", where=loc(fi, c))
            elif not nonempty:
                ctx.undecided(rule, f"{fi.qualname}: `{norm(c)[:50]}` is not reached with an empty sequence",
                              f"`{nm}` is not visibly non-empty")
    return n


def reorder_in_place(ctx, funcs, rule='ORDER'):
    """`.sort()` / `.reverse()` on a list that belongs to another object
    (`unpacker.sec_list.sort()`) or on a result list of self reorders data
    that other code reads in reading order."""
    n = 0
    for fi in funcs:
        # names that alias a list of another object (`ordered = unpacker.sec_list`)
        alias = {}
        for st in walk_local(fi.node):
            if isinstance(st, ast.Assign) and len(st.targets) == 1 and isinstance(st.targets[0], ast.Name) \
                    and isinstance(st.value, ast.Attribute) and isinstance(st.value.value, ast.Name) \
                    and st.value.value.id not in ('self', 'cls') and st.value.attr.endswith(('_list', 'lots', 'qqs', 'tracts')):
                alias[st.targets[0].id] = norm(st.value)
        for c in walk_local(fi.node):
            if isinstance(c, ast.Call) and isinstance(c.func, ast.Attribute) and c.func.attr in ('sort', 'reverse') \
                    and isinstance(c.func.value, ast.Name) and c.func.value.id in alias:
                n += 1
                src = alias[c.func.value.id]
                ctx.violation(rule, f"{fi.qualname}: `{norm(c)[:50]}` does not reorder another object's list",
                              f"`{c.func.value.id}` is `{src}` itself (no copy), and `{norm(c)[:40]}` sorts / reverses it in place; the "
                              f"same list is what the tracts are built from (and what find_sec / the flags report), so the "
                              f"reading order of the sections or lots is lost - use `sorted({src})`",
                              key=f"{rule}|{fi.qualname}|reorder|{src}", where=loc(fi, c))
            if isinstance(c, ast.Call) and isinstance(c.func, ast.Attribute) and c.func.attr in ('sort', 'reverse') \
                    and isinstance(c.func.value, ast.Attribute) and isinstance(c.func.value.value, ast.Name):
                owner, attr = c.func.value.value.id, c.func.value.attr
                if owner in ('self', 'cls') and attr.startswith('_'):
                    continue            # the container's own backing list: sorting it is the method's job
                if owner in ('self', 'cls'):
                    continue
                n += 1
                ctx.violation(rule, f"{fi.qualname}: `{norm(c)[:50]}` does not reorder another object's list",
                              f"`{norm(c)[:60]}` sorts / reverses `{owner}.{attr}` in place; the same list is what the tracts are "
                              f"built from (and what find_sec / the flags report), so the reading order of the sections or "
                              f"lots is lost - work on `sorted(...)` / a copy instead",
                              key=f"{rule}|{fi.qualname}|reorder|{owner}.{attr}", where=loc(fi, c))
    return n


def alternative_groups_read_together(ctx, funcs, rule='RX-GROUPS'):
    """Some slots of a pattern are captured by one of two groups in
    alternative branches (`rgenum` in the ordinary branch, or
    `rgenum_edgecase_rge2` when the range is the single digit 2): exactly one
    of them is set.  Code that builds a value from `mo['rgenum']` must look at
    the sibling group too, otherwise the slot is None for every text that
    takes the other branch."""
    pairs = set()
    for r in regex_inventory(ctx):
        if r['rv'] is None:
            continue
        from .. import rx as _rx
        rv_ = r['rv']
        excl = ctx.cache(('excl-groups', rv_.pattern, rv_.flags), lambda: _rx.exclusive_group_pairs(rv_.pattern, rv_.flags))
        for g, h in excl:
            # the same slot under two names: 'rgenum' / 'rgenum_edgecase_rge2'
            if h.startswith(g + '_'):
                pairs.add((g, h))
    n = 0
    for fi in funcs:
        read = {}
        for x in walk_local(fi.node):
            if isinstance(x, ast.Subscript) and isinstance(x.slice, ast.Constant) and isinstance(x.slice.value, str) \
                    and isinstance(x.value, ast.Name):
                read.setdefault(x.slice.value, x)
            elif isinstance(x, ast.Call) and isinstance(x.func, ast.Attribute) and x.func.attr == 'group' and x.args \
                    and isinstance(x.args[0], ast.Constant) and isinstance(x.args[0].value, str):
                read.setdefault(x.args[0].value, x)
        consts = {c.value for c in ast.walk(fi.node) if isinstance(c, ast.Constant) and isinstance(c.value, str)}
        for g, h in sorted(pairs):
            if g in read:
                n += 1
                ctx.check(h in consts, rule, f"{fi.qualname}: reads `{g}` together with its alternative `{h}`",
                          detail_bad=f"`{norm(read[g])}` is None whenever the pattern matched through the `{h}` branch (a Range of 2: "
                                     f"'T154N-R2W'), and {fi.qualname} never looks at `{h}`: such a Twp/Rge comes out as "
                                     f"'154nNonew' - an error TRS and a twprge_error flag for a perfectly written Twp/Rge",
                          key=f"{rule}|{fi.qualname}|alt-group|{g}", where=loc(fi, read[g]))
    return n


def first_element_speaks_for_all(ctx, funcs, rule='SINK'):
    """`if isinstance(xs[0], T): target.extend(xs)` checks one element and
    takes them all: a mixed sequence goes in unverified (or, where extend()
    verifies, raises for input the per-element path accepts)."""
    n = 0
    for fi in funcs:
        for node in walk_local(fi.node):
            if not isinstance(node, ast.If):
                continue
            firsts = set()
            for e, txt, pol in literals([(node.test, True)]):
                if pol and isinstance(e, ast.Call) and dotted(e.func) == 'isinstance' and e.args \
                        and isinstance(e.args[0], ast.Subscript) and isinstance(e.args[0].slice, ast.Constant) \
                        and e.args[0].slice.value in (0, -1) and isinstance(e.args[0].value, ast.Name):
                    firsts.add(e.args[0].value.id)
            if not firsts:
                continue
            for c in [x for b in node.body for x in ast.walk(b)]:
                if isinstance(c, ast.Call) and isinstance(c.func, ast.Attribute) and c.func.attr == 'extend' and c.args \
                        and isinstance(c.args[0], ast.Name) and c.args[0].id in firsts:
                    n += 1
                    ctx.violation(rule, f"{fi.qualname}: a bulk `{norm(c)[:40]}` is decided by every element",
                                  f"`if {norm(node.test)[:60]}` looks at one element of `{c.args[0].id}` and `{norm(c)[:40]}` takes all of "
                                  f"them: a mixed sequence (a Tract followed by a PLSSDesc, a TractList or a nested list) is "
                                  f"handed over as if every element were like the first - TypeError, or elements of the wrong "
                                  f"kind inside the container - where the per-element path handles each on its own",
                                  key=f"{rule}|{fi.qualname}|first-element|{c.args[0].id}", where=loc(fi, c))
    return n


def recursion_makes_progress(ctx, funcs, rule='EXC'):
    """A function that calls itself (`self.f(...)` / `f(...)`) with every
    argument being the unchanged parameter of the same name, under a
    condition that looks only at those parameters and at constants, repeats
    the same call for ever: RecursionError out of the parse."""
    from ..srcmodel import facts_at
    n = 0
    for fi in funcs:
        name = fi.node.name
        params = [p for p in fi.params() if p not in ('self', 'cls')]
        reassigned = set()
        for a_ in walk_local(fi.node):
            if isinstance(a_, ast.Name) and isinstance(a_.ctx, ast.Store):
                # resolving a missing argument (`if p is None: p = default(...)`) is the same on every level
                st_ = a_
                while st_ is not None and not isinstance(st_, ast.stmt):
                    st_ = getattr(st_, '_parent', None)
                resolves = st_ is not None and any(t == f"{a_.id} is None" and pol for _e, t, pol in facts_at(st_))
                if not resolves:
                    reassigned.add(a_.id)
        for c in walk_local(fi.node):
            if not (isinstance(c, ast.Call) and (dotted(c.func) in (f"self.{name}", f"cls.{name}", name))):
                continue
            if dotted(c.func) == name and fi.cls is not None:
                continue            # a method calling the module-level function of the same name
            n += 1
            bound = {}
            for i, a in enumerate(c.args):
                if i < len(params):
                    bound[params[i]] = a
            for k in c.keywords:
                if k.arg:
                    bound[k.arg] = k.value
            same = all(isinstance(v, ast.Name) and v.id == p and p not in reassigned for p, v in bound.items()) and bool(bound)
            # parameters not passed keep their defaults: treat as changed unless default is the only value they can have
            if not same:
                continue
            facts = facts_at(c)
            state = [t for e, t, _p in facts for x in ast.walk(e) if isinstance(x, ast.Attribute) and norm(x.value) in ('self', 'cls')
                     and x.attr != x.attr.upper()]
            ctx.check(bool(state), rule, f"{fi.qualname}: the recursive call `{norm(c)[:50]}` changes something",
                      detail_bad=f"`{norm(c)[:70]}` passes every argument on unchanged, and the condition it stands under "
                                 f"({[t for _e, t, _p in facts][:2]}) depends on nothing else: once reached, the call repeats itself "
                                 f"until RecursionError (a description written without colons under sec_colon_cautious)",
                      key=f"{rule}|{fi.qualname}|recursion-no-progress", where=loc(fi, c))
    return n


def cross_component_compare(ctx, funcs, rule='SIB'):
    """In the code that takes a Twp/Rge/Sec apart, a comparison whose two
    sides name DIFFERENT components (`mo.group('rge') == MC._UNDEF_TWP`) is a
    copy-and-paste slip: both undefined placeholders are '___z', so it even
    looks right on the usual inputs."""
    import re as _re
    TOK = ('twp', 'rge', 'sec')

    def toks(e):
        out = set()
        for x in ast.walk(e):
            s = x.id if isinstance(x, ast.Name) else x.attr if isinstance(x, ast.Attribute) else \
                x.value if isinstance(x, ast.Constant) and isinstance(x.value, str) and len(x.value) < 20 else None
            if s:
                for t in TOK:
                    if s.lower() == t or _re.search(rf"(?i)(^|_){t}(_|$|num|undef)", s):
                        out.add(t)
        return out
    n = 0
    for fi in funcs:
        for c in walk_local(fi.node):
            if isinstance(c, ast.Compare) and len(c.ops) == 1:
                a, b = toks(c.left), toks(c.comparators[0])
                if a and b:
                    n += 1
                    ctx.check(bool(a & b), rule, f"{fi.qualname}: `{norm(c)[:50]}` compares a component with its own placeholder",
                              detail_bad=f"`{norm(c)}` tests the {sorted(a)[0]} against a {sorted(b)[0]} constant: when the two components differ "
                                         f"in kind (an undefined township next to a valid range) the wrong one is reported as undefined / "
                                         f"error, and the standard form is no longer a fixed point",
                              key=f"{rule}|{fi.qualname}|cross-component|{norm(c)[:40]}", where=loc(fi, c))
    return n


def float_of_matched_text(ctx, funcs, rule='EXC'):
    """`float(x)` / `int(x)` on an acreage outside try/except ValueError: the
    acreage patterns accept '()', '( )' and '(.)' - brackets with nothing or
    only a dot in them - so the text between the brackets need not be a
    number."""
    from .. import rx
    import re as _re
    try:
        rv = ctx.fold.get('rgxlib.lots', 'lot_acres_unpacker_regex')
        gf = group_facts(ctx, rv)
        words = rx.enumerate_words(gf['acreage'].node, rv.flags) if 'acreage' in gf else []
    except AnalysisError:
        words = []
    inner = [w.strip('()[]{} ') for w in words]
    notnum = [w for w in inner if not _re.fullmatch(r"[+-]?(\d+\.?\d*|\.\d+)", w)]
    n = 0
    for fi in funcs:
        for c in walk_local(fi.node):
            if not (isinstance(c, ast.Call) and dotted(c.func) in ('float', 'int') and c.args):
                continue
            arg = c.args[0]
            if not any(isinstance(x, ast.Name) and 'acre' in x.id.lower() for x in ast.walk(arg)) \
                    and 'acre' not in norm(arg).lower():
                continue
            p, guarded = getattr(c, '_parent', None), False
            while p is not None and p is not fi.node:
                if isinstance(p, ast.Try) and any(h.type is None or 'ValueError' in norm(h.type) or 'Exception' in norm(h.type) for h in p.handlers):
                    guarded = True
                p = getattr(p, '_parent', None)
            n += 1
            ctx.check(guarded or not notnum, rule, f"{fi.qualname}: `{norm(c)[:40]}` only sees a number",
                      detail_bad=f"`{norm(c)}` converts a stated acreage without catching ValueError, and the acreage pattern also matches "
                                 f"brackets around {notnum[0]!r} ('Lot 1 ()', 'Lot 2 (.)'): ValueError escapes from the lot / aliquot "
                                 f"parse" if notnum else '', key=f"{rule}|{fi.qualname}|float-acreage", where=loc(fi, c))
    return n


def _match_group_reads(ctx, fi, var, consts=None, depth=0, seen=None):
    """Named groups read from the match object bound to `var` inside `fi`,
    following helpers the match object is handed to (three levels, string
    constants of the call bound to the helper's parameters so that
    `mo[f'{kind}num_rightmost']` resolves).  Returns (by_value, by_position):
    {group: node} for `mo['g']` / `mo.group('g')` / `mo.groupdict()['g']`,
    and the set of groups whose span is consulted (`mo.start('g')` ...)."""
    consts = consts or {}
    seen = seen if seen is not None else set()
    by_value, by_pos = {}, set()
    if (fi.fullname, var) in seen or depth > 3:
        return by_value, by_pos
    seen.add((fi.fullname, var))

    def gname(e):
        if isinstance(e, ast.Constant) and isinstance(e.value, str):
            return e.value
        if isinstance(e, ast.JoinedStr):
            out = ''
            for part in e.values:
                if isinstance(part, ast.Constant):
                    out += str(part.value)
                elif isinstance(part, ast.FormattedValue) and isinstance(part.value, ast.Name) \
                        and part.value.id in consts and part.format_spec is None:
                    out += consts[part.value.id]
                else:
                    return None
            return out
        return None

    aliases = {var}
    dicts = set()
    for x in walk_local(fi.node):
        if isinstance(x, ast.Assign) and len(x.targets) == 1 and isinstance(x.targets[0], ast.Name):
            v = x.value
            if isinstance(v, ast.Name) and v.id in aliases:
                aliases.add(x.targets[0].id)
            if isinstance(v, ast.Call) and isinstance(v.func, ast.Attribute) and v.func.attr == 'groupdict' \
                    and isinstance(v.func.value, ast.Name) and v.func.value.id in aliases:
                dicts.add(x.targets[0].id)
    for x in walk_local(fi.node):
        if isinstance(x, ast.Subscript) and isinstance(x.value, ast.Name) and x.value.id in (aliases | dicts) \
                and isinstance(x.ctx, ast.Load):
            g = gname(x.slice)
            if g is not None:
                by_value.setdefault(g, x)
        elif isinstance(x, ast.Subscript) and isinstance(x.value, ast.Call) and isinstance(x.value.func, ast.Attribute) \
                and x.value.func.attr == 'groupdict' and isinstance(x.value.func.value, ast.Name) \
                and x.value.func.value.id in aliases:
            g = gname(x.slice)
            if g is not None:
                by_value.setdefault(g, x)
        elif isinstance(x, ast.Call) and isinstance(x.func, ast.Attribute) and isinstance(x.func.value, ast.Name):
            base, attr = x.func.value.id, x.func.attr
            if base in aliases and attr == 'group' and x.args:
                for a in x.args:
                    g = gname(a)
                    if g is not None:
                        by_value.setdefault(g, x)
            elif base in aliases and attr in ('start', 'end', 'span') and x.args:
                g = gname(x.args[0])
                if g is not None:
                    by_pos.add(g)
            elif base in dicts and attr == 'get' and x.args:
                g = gname(x.args[0])
                if g is not None:
                    by_value.setdefault(g, x)
        if isinstance(x, ast.Call):
            hit = [i for i, a in enumerate(x.args) if isinstance(a, ast.Name) and a.id in aliases]
            kwhit = [k.arg for k in x.keywords if k.arg and isinstance(k.value, ast.Name) and k.value.id in aliases]
            if not hit and not kwhit:
                continue
            from .. import flow as _flow
            nm = dotted(x.func) or ''
            node = _flow.RESOLVER(nm, x, fi.node) if _flow.RESOLVER and nm else None
            callee = getattr(node, '_func', None) if node is not None else None
            if callee is None:
                continue
            params = [p for p in callee.params() if p not in ('self', 'cls')]
            sub = {}
            for i, a in enumerate(x.args):
                if i < len(params):
                    if isinstance(a, ast.Constant) and isinstance(a.value, str):
                        sub[params[i]] = a.value
                    elif isinstance(a, ast.Name) and a.id in consts:
                        sub[params[i]] = consts[a.id]
            for k in x.keywords:
                if k.arg and isinstance(k.value, ast.Constant) and isinstance(k.value.value, str):
                    sub[k.arg] = k.value.value
            targets = [params[i] for i in hit if i < len(params)] + [k for k in kwhit if k in params]
            for p in targets:
                v2, p2 = _match_group_reads(ctx, callee, p, sub, depth + 1, seen)
                # a helper that consults the group's span has settled which
                # iteration the text belongs to
                for g, n_ in v2.items():
                    if g in p2:
                        by_pos.add(g)
                    by_value.setdefault(g, x)
                by_pos |= p2
    return by_value, by_pos


def stale_captures(ctx, funcs, rule='RX-GROUPS', skip_groups=()):
    """A group inside `( ... )*` keeps the text of the last iteration that
    went through it.  Code that walks such a match from the right (it reads a
    group every iteration sets - `intervener`, `lotnum_rightmost` - to find
    the rightmost element) and also reads, by value, a group that only SOME
    iterations set (`word_lot_rightmost`, `and`, `thru`) may be looking at
    what an element further left captured.  The package knows
    (thru_rightmost: "Do NOT check 'through' named group directly ...");
    the accepted idioms are re-searching the rightmost span, or comparing
    `mo.start(group)` with the rightmost intervener."""
    from .. import rx as _rx
    from ..fold import RegexVal
    n = 0
    for fi in funcs:
        mvars = {}
        for x in walk_local(fi.node):
            call = tgt = None
            if isinstance(x, ast.Assign) and len(x.targets) == 1 and isinstance(x.targets[0], ast.Name) \
                    and isinstance(x.value, ast.Call):
                call, tgt = x.value, x.targets[0].id
            elif isinstance(x, ast.NamedExpr) and isinstance(x.value, ast.Call):
                call, tgt = x.value, x.target.id
            elif isinstance(x, ast.For) and isinstance(x.target, ast.Name) and isinstance(x.iter, ast.Call):
                call, tgt = x.iter, x.target.id
            if call is None or not isinstance(call.func, ast.Attribute):
                continue
            if call.func.attr not in ('search', 'match', 'fullmatch', 'finditer'):
                continue
            recv = call.func.value
            if isinstance(recv, ast.Name) and recv.id == 're':
                if not call.args:
                    continue
                recv = call.args[0]
            try:
                rv = fold_in_func(ctx, fi, recv)
            except AnalysisError:
                continue
            if isinstance(rv, str):
                rv = RegexVal(rv, 0)
            if isinstance(rv, RegexVal):
                mvars.setdefault(tgt, []).append(rv)
        for var, rvs in sorted(mvars.items()):
            by_value, by_pos = _match_group_reads(ctx, fi, var)
            if not by_value:
                continue
            for rv in rvs:
                reps = ctx.cache(('iter-groups', rv.pattern, rv.flags),
                                 lambda rv=rv: _rx.iteration_groups(rv.pattern, rv.flags))
                for fresh, stale in reps:
                    rightmost = sorted((set(by_value) | by_pos) & fresh)
                    if not rightmost:
                        continue      # 'did any element have it' reading: not a rightmost walk
                    for g in sorted(set(by_value) & stale):
                        if g in skip_groups:
                            continue      # not this property's concern (see the caller)
                        n += 1
                        ctx.check(g in by_pos, rule,
                                  f"{fi.qualname}: `{var}['{g}']` is tied to the rightmost element by its position",
                                  detail_bad=f"{fi.qualname} walks the match from the right (it reads `{rightmost[0]}`, which every "
                                             f"repetition sets) and reads `{g}` by value; `{g}` is set by some repetitions only, and "
                                             f"Python keeps the text of the LAST repetition that set it - so for a list whose "
                                             f"rightmost element does not set `{g}` the value comes from an element further left "
                                             f"('N/2 of Lot 1 - Lot 3, 4': `word_lot_rightmost` still holds the 'Lot' of '- Lot 3' "
                                             f"while the rightmost element is ', 4')",
                                  key=f"{rule}|{fi.qualname}|stale-group|{g}", where=loc(fi, by_value[g]))
    return n


def membership_kind_mismatch(ctx, funcs, rule='SIB'):
    """`i not in seen` where `i` is a position (the index of enumerate() /
    range()) and `seen` is a local collection that only ever receives the
    ELEMENTS (or keys built from them), or the other way round: the test can
    never be true / false, so the branch it guards is dead or unconditional
    (the guard against recording an index twice no longer guards anything).
    Kinds are read off the function itself: index variables of enumerate /
    range, loop elements, strings built from them; a collection with an
    addition of unknown kind is not judged."""
    n = 0
    for fi in funcs:
        idx, elem = set(), set()
        for x in walk_local(fi.node):
            if isinstance(x, (ast.For, ast.comprehension)):
                it, tg = x.iter, x.target
                if isinstance(it, ast.Call) and dotted(it.func) == 'enumerate' and isinstance(tg, ast.Tuple) and len(tg.elts) == 2:
                    if isinstance(tg.elts[0], ast.Name):
                        idx.add(tg.elts[0].id)
                    for e in ast.walk(tg.elts[1]):
                        if isinstance(e, ast.Name):
                            elem.add(e.id)
                elif isinstance(it, ast.Call) and dotted(it.func) == 'range' and isinstance(tg, ast.Name):
                    idx.add(tg.id)
                elif isinstance(tg, ast.Name):
                    elem.add(tg.id)
        if not idx:
            continue
        stores = {}
        for x in walk_local(fi.node):
            if isinstance(x, ast.Name) and isinstance(x.ctx, ast.Store):
                stores[x.id] = stores.get(x.id, 0) + 1
        idx = {i for i in idx if stores.get(i, 0) == 1}

        def kind(e):
            if isinstance(e, ast.Name):
                if e.id in idx:
                    return 'index'
                if e.id in elem and stores.get(e.id, 0) == 1:
                    return 'element'
                defs = [a.value for a in walk_local(fi.node) if isinstance(a, ast.Assign) and len(a.targets) == 1
                        and isinstance(a.targets[0], ast.Name) and a.targets[0].id == e.id]
                if defs and len(defs) == stores.get(e.id, 0):
                    ks = {kind(d) for d in defs}
                    if ks <= {'element', 'string'}:
                        return 'element' if ks == {'element'} else 'string' if ks == {'string'} else 'element-or-string'
                return None
            if isinstance(e, ast.JoinedStr) or (isinstance(e, ast.Constant) and isinstance(e.value, str)):
                return 'string'
            if isinstance(e, ast.Attribute) and isinstance(e.value, ast.Name) and e.value.id in elem:
                return 'string' if e.attr in ('trs', 'desc', 'pp_desc', 'twprge', 'twp', 'rge', 'sec') else None
            if isinstance(e, ast.BinOp) and isinstance(e.op, (ast.Add, ast.Sub)) and 'index' in (kind(e.left), kind(e.right)):
                return 'index'
            return None
        colls = {}
        for x in walk_local(fi.node):
            if isinstance(x, ast.Assign) and len(x.targets) == 1 and isinstance(x.targets[0], ast.Name):
                v = x.value
                if (isinstance(v, (ast.List, ast.Set)) and not v.elts) or (isinstance(v, ast.Call) and dotted(v.func) in ('set', 'list') and not v.args):
                    colls.setdefault(x.targets[0].id, [])
        for x in walk_local(fi.node):
            if isinstance(x, ast.Call) and isinstance(x.func, ast.Attribute) and isinstance(x.func.value, ast.Name) \
                    and x.func.value.id in colls:
                if x.func.attr in ('add', 'append') and len(x.args) == 1:
                    colls[x.func.value.id].append(kind(x.args[0]))
                elif x.func.attr in ('extend', 'update', 'insert', 'union'):
                    colls[x.func.value.id].append(None)
            elif isinstance(x, ast.AugAssign) and isinstance(x.target, ast.Name) and x.target.id in colls:
                colls[x.target.id].append(None)
        for name in list(colls):
            if stores.get(name, 0) != 1:
                colls.pop(name)         # rebound somewhere: not followed
        for x in walk_local(fi.node):
            if not (isinstance(x, ast.Compare) and len(x.ops) == 1 and isinstance(x.ops[0], (ast.In, ast.NotIn))
                    and isinstance(x.comparators[0], ast.Name) and x.comparators[0].id in colls):
                continue
            added = colls[x.comparators[0].id]
            pk = kind(x.left)
            if pk is None or not added or None in added:
                continue
            n += 1
            is_index = pk == 'index'
            has_index = 'index' in added
            mismatch = (is_index and not has_index) or (not is_index and all(a == 'index' for a in added))
            ctx.check(not mismatch, rule, f"{fi.qualname}: `{norm(x)}` asks the collection for the kind of value it holds",
                      f"{pk} against {sorted(set(added))}",
                      f"`{norm(x)}`: `{norm(x.left)}` is {'a position (loop index)' if is_index else 'an element / key'}, but "
                      f"`{x.comparators[0].id}` only ever receives {sorted(set(added))} in {fi.qualname} - the test has the same "
                      f"outcome for every element, so the branch it guards no longer does its job (an index is recorded twice, "
                      f"or never)", key=f"{rule}|{fi.qualname}|membership-kind|{norm(x)[:40]}", where=loc(fi, x))
    return n


def cleanup_func(ctx):
    """The function that plays cleanup_desc's part (strips separators and
    trailing connector words off a description block): by its name, in
    whatever module it lives now; after a rename, by what it does - a
    module-level function of one parameter with a fix-point loop, a strip()
    of separator characters and a table of connector words."""
    def find():
        try:
            return ctx.repo.func('plss_parse:cleanup_desc')
        except AnalysisError:
            pass
        cands = []
        for f in ctx.repo.funcs.values():
            if f.cls is not None or f.outer is not None or len(f.params()) != 1:
                continue
            has_loop = any(isinstance(x, ast.While) for x in walk_local(f.node))
            strips = [c for c in walk_local(f.node) if isinstance(c, ast.Call) and isinstance(c.func, ast.Attribute)
                      and c.func.attr in ('strip', 'rstrip') and c.args and isinstance(c.args[0], ast.Constant)
                      and isinstance(c.args[0].value, str) and {',', ';'} <= set(c.args[0].value)]
            words = [x for x in walk_local(f.node) if isinstance(x, (ast.List, ast.Tuple)) and x.elts
                     and all(isinstance(e, ast.Constant) and isinstance(e.value, str) for e in x.elts)
                     and {' of', ' in'} & {e.value for e in x.elts}]
            if has_loop and strips and words:
                cands.append(f)
        if len(cands) == 1:
            ctx.repo.moved_anchors['plss_parse:cleanup_desc'] = cands[0].fullname
            return cands[0]
        raise AnalysisError("function anchor 'plss_parse:cleanup_desc': not found by name, and no single function does its job")
    return ctx.cache('cleanup-func', find)


def cleanup_name(ctx):
    try:
        return cleanup_func(ctx).node.name
    except AnalysisError:
        return 'cleanup_desc'


def char_table(ctx, fi):
    """The character-for-character conversion a function applies to its text:
    chained `.replace('S', '5')` calls and / or `.translate(T)` with T a
    folded `str.maketrans(...)` table.  Returns {char: replacement or None
    (deleted)}; characters given longer replacements are included as written."""
    table = {}
    for c in walk_local(fi.node):
        if not (isinstance(c, ast.Call) and isinstance(c.func, ast.Attribute)):
            continue
        if c.func.attr == 'replace' and len(c.args) == 2 and all(
                isinstance(a, ast.Constant) and isinstance(a.value, str) for a in c.args):
            table[c.args[0].value] = c.args[1].value
        elif c.func.attr == 'translate' and len(c.args) == 1:
            try:
                t = fold_in_func(ctx, fi, c.args[0])
            except AnalysisError:
                t = None
            if isinstance(t, dict):
                for k, v in t.items():
                    kk = chr(k) if isinstance(k, int) else k
                    vv = None if v is None else chr(v) if isinstance(v, int) else v
                    table[kk] = vv
    return table


def name_tag_purity(ctx, funcs, pairs=(('ns', 'ew'), ('twp', 'rge')), rule='SIB'):
    """Sibling functions named after one member of a pair
    (`verify_default_ns` / `verify_default_ew`) work on constants of their own
    member (`_LEGAL_NS`, `DefaultNSError`).  When both siblings exist and one
    of them is pure, a reference to the OTHER member's constant inside the
    second (`_LEGAL_NS` inside verify_default_ew) is the copy-paste slip that
    makes it accept / reject the wrong letters."""
    import re as _re

    def toks(name):
        return {t.lower() for t in _re.findall(r'[A-Z]+(?![a-z])|[A-Z]?[a-z]+|\d+', name.replace('_', ' '))}

    def refs(fi):
        out = []
        for x in walk_local(fi.node):
            if isinstance(x, ast.Attribute):
                out.append((x.attr, x))
            elif isinstance(x, ast.Name) and not isinstance(x.ctx, ast.Store):
                out.append((x.id, x))
        return out
    byname = {f.node.name: f for f in funcs if f.cls is None or True}
    n = 0
    for a, b in pairs:
        for name, fi in sorted(byname.items()):
            t = toks(name)
            if (a in t) == (b in t):
                continue
            mine, other = (a, b) if a in t else (b, a)
            sib_name = _re.sub(rf"(?<![a-zA-Z]){mine}(?![a-z])", other, name)
            sib = byname.get(sib_name)
            if sib is None or sib is fi:
                continue
            foreign = [(r, node) for r, node in refs(fi) if other in toks(r) and mine not in toks(r) and r not in fi.params()]
            sib_foreign = [(r, node) for r, node in refs(sib) if mine in toks(r) and other not in toks(r) and r not in sib.params()]
            own = [r for r, _ in refs(fi) if mine in toks(r) and other not in toks(r)]
            if not own and not foreign:
                continue
            n += 1
            # judged only when the sibling is pure (it is the reference) and this one also uses its own constants
            ctx.tri(not foreign, bool(foreign) and not sib_foreign, rule,
                    f"{fi.qualname}: works on its own member's constants (sibling {sib.qualname})",
                    detail_bad=f"{fi.qualname} refers to `{foreign[0][0] if foreign else ''}` - a constant of the `{other}` member - "
                               f"while its sibling {sib.qualname} only uses `{mine if False else other}` ones: it checks / reports "
                               f"against the wrong table (legal `{mine}` values are rejected, `{other}` ones accepted)",
                    key=f"{rule}|{fi.qualname}|foreign-constant|{foreign[0][0] if foreign else ''}",
                    where=loc(fi, foreign[0][1]) if foreign else None,
                    why='both siblings mix the members; not judged')
    return n


def refinement_discarded(ctx, funcs, rule='DEFUSE'):
    """`num = raw` ... `if ...: num = raw[:-1]` (the direction letter split
    off) ... `num = convert(raw)`: the last statement goes back to the raw
    parameter and throws the refinement away on every path that took it.  The
    sibling shape - `num = convert(num)` - is what the code has wherever the
    refinement matters."""
    from .. import flow as _flow
    from ..srcmodel import guards
    n = 0
    for fi in funcs:
        params = set(fi.params())
        assigns = [a for a in walk_local(fi.node) if isinstance(a, ast.Assign) and len(a.targets) == 1 and isinstance(a.targets[0], ast.Name)]
        by_name = {}
        for a in assigns:
            by_name.setdefault(a.targets[0].id, []).append(a)
        for name, defs in by_name.items():
            if name in params or len(defs) < 3:
                continue
            refined = [a for a in defs if isinstance(a.value, ast.Subscript) and isinstance(a.value.value, ast.Name)
                       and a.value.value.id in params and guards(a)]
            if not refined:
                continue
            raw = refined[0].value.value.id
            for a in defs:
                if a.lineno <= refined[0].lineno or not isinstance(a.value, ast.Call):
                    continue
                arg_names = {x.id for x in ast.walk(a.value) if isinstance(x, ast.Name)}
                if raw in arg_names and name not in arg_names:
                    try:
                        cfg, rd = _flow.analyse(fi.node)
                        reaches = any(rd.defs.get(d) is refined[0].value for d in rd.reaching(_flow.stmt_node(cfg, a), name))
                    except Exception:
                        reaches = True
                    if not reaches:
                        continue
                    n += 1
                    ctx.violation(rule, f"{fi.qualname}: `{norm(a)[:50]}` works on the refined `{name}`",
                                  f"`{norm(a)[:60]}` reads the raw parameter `{raw}` although `{name}` was derived from it before "
                                  f"(`{norm(refined[0])[:40]}`, under a condition): on the paths that took the refinement its result is "
                                  f"thrown away - here the direction letter that was split off is back in the number, and the OCR table "
                                  f"turns a trailing 's' / 'S' into a digit ('15s' -> '155')",
                                  key=f"{rule}|{fi.qualname}|refinement-discarded|{name}", where=loc(fi, a))
    return n
