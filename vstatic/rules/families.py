"""
Documented spelling families, written here (from the property statements,
the guides and the docstrings) as small regular expressions.  The checks ask
for language inclusion  L(family) <= L(repo regex)  (rx.included) or, for
context-sensitive facts (look-behind/-ahead), exact membership of concrete
members (rx.Lang).  These are the oracle; they never come from the repo.
"""

import re

I = re.I

# --- Twp/Rge -------------------------------------------------------------
T_WORD = r"(T|Township|Twp|Twp\.)"
R_WORD = r"(R|Range|Rge|Rge\.)"
NS = r"(N|North|N\.|S|South|S\.)"
EW = r"(W|West|E|East)"
TR_SEP = r"(-|[ ]|,[ ]|[ ]-[ ]|\n)"

# full spellings: township word optional, directions explicit; a bare range
# '2' only with an explicit range word; the separator between township and
# range may be missing ('t154nr97w', as in the repo's own regex tests)
TWPRGE_FULL = (
    rf"({T_WORD}[ ]?)?[0-9]{{1,3}}[ ]?{NS}{TR_SEP}?"
    rf"(({R_WORD}[ ]?)?([0-9]{{2,3}}|[013-9])|{R_WORD}[ ]?2)[ ]?{EW}"
)
# the canonical text produced by preprocessing
TWPRGE_CANON = r"T[0-9]{1,3}[NS]-R[0-9]{1,3}[EW]"

# both directions possibly missing, 'T' and 'R' written
TWPRGE_NO_NSWE = (
    rf"{T_WORD}[ ]?[0-9]{{1,3}}[ ]?(N|S|North|South)?{TR_SEP}"
    rf"{R_WORD}[ ]?[0-9]{{1,3}}[ ]?(W|E|West|East)?"
)
# 'T' and e/w written, n/s and 'R' possibly missing
TWPRGE_NO_NSR = (
    rf"{T_WORD}[ ]?[0-9]{{1,3}}[ ]?(N|S|North|South)?{TR_SEP}"
    rf"({R_WORD}[ ]?)?[0-9]{{1,3}}[ ]?(W|E|West|East)"
)
# 'R' and n/s written, 'T' and e/w possibly missing
TWPRGE_NO_EWT = (
    rf"({T_WORD}[ ]?)?[0-9]{{1,3}}[ ]?(N|S|North|South){TR_SEP}"
    rf"{R_WORD}[ ]?[0-9]{{1,3}}[ ]?(W|E|West|East)?"
)
# OCR look-alikes inside the numbers (I, l, O, S)
TWPRGE_OCR = (
    rf"{T_WORD}[ ]?[0-9SOIl]{{1,3}}[ ]?(N|S){TR_SEP}"
    rf"({R_WORD}[ ]?)?[0-9SOIl]{{2,3}}[ ]?(W|E)"
)
PM_TAIL = r"(,|[ ]of[ ]the|,[ ]of[ ]the)?[ ]([0-9]th[ ])?(P\.M\.|PM|Principal[ ]Meridian)"

# --- Sections ------------------------------------------------------------
SEC_WORD = r"(Section|Sec|Sec\.|§)"
SEC_WORD_PL = r"(Section|Sections|Sec|Secs|Sec\.|§)"
THROUGH = r"(-|–|—|through\.?|thru\.?|to)"      # the abbreviation may carry its period ('Lots 1 thru. 4')
LIST_SEP = (r"(,[ ]|[ ]and[ ]|[ ]&[ ]|,[ ]and[ ]|[ ]-[ ]|-|[ ]–[ ]|"
            r"[ ]through[ ]|[ ]thru[ ]|[ ]to[ ])")
MULTISEC = (
    rf"{SEC_WORD_PL}[ ]?[0-9]{{1,2}}({LIST_SEP}({SEC_WORD_PL}[ ]?)?[0-9]{{1,2}})*([ ]?:)?"
)

# --- Lots -----------------------------------------------------------------
LOT_WORD = r"(Lot|Lots|L|L\.|Lt|Lt\.)"
ACREAGE = r"(\([0-9]{1,3}\.[0-9]{1,6}\)|\[[0-9]{1,3}\.[0-9]{1,6}\]|\([0-9]{1,3}\))"
MULTILOT = (
    rf"{LOT_WORD}[ ]?[0-9]{{1,3}}([ ]?{ACREAGE})?"
    rf"({LIST_SEP}({LOT_WORD}[ ]?)?[0-9]{{1,3}}([ ]?{ACREAGE})?)*"
)
LOT_WITH_ALIQUOT = (
    rf"(([NESW]½|(NE|NW|SE|SW)¼)+[ ]?(of[ ])?)?{MULTILOT}"
)

# --- Aliquots -------------------------------------------------------------
QUARTER_WORD = r"(¼|Quarter|One[ ]Quarter|1/4)"
HALF_WORD = r"(½|Half|One[ ]Half|1/2)"
Q_NAMES = {
    'NE': r"(NE|Northeast|North[ ]East)", 'NW': r"(NW|Northwest|North[ ]West)",
    'SE': r"(SE|Southeast|South[ ]East)", 'SW': r"(SW|Southwest|South[ ]West)",
}
H_NAMES = {'N': r"(N|North)", 'S': r"(S|South)", 'E': r"(E|East)", 'W': r"(W|West)"}


def quarter_family(q):
    return rf"{Q_NAMES[q]}[ ]?{QUARTER_WORD}|{q}/4|{q}4|{q}[ ]4"


def half_family(h):
    return rf"{H_NAMES[h]}[ ]?{HALF_WORD}|{h}/2|{h}2|{h}[ ]2"


def quarter_clean_family(q):
    # bare quarter names, only under clean_qq
    return rf"{Q_NAMES[q]}([ ]?{QUARTER_WORD})?"


JOINERS = ['', ' ', ' of ', ' of the ']

# --- TRS standard form ------------------------------------------------------
TRS_CANON = r"[0-9]{1,3}[ns][0-9]{1,3}[ew][0-9]{2}"


# a clean aliquot chain as the preprocessor emits it and the parser consumes
# it: any sequence of clean halves and quarters (halves may follow quarters:
# 'NE¼N½' is the north half of the NE/4)
ALIQUOT_CHAIN = r"([NESW]½|(NE|NW|SE|SW)¼)+"


# --- ordinary words ----------------------------------------------------------
# Words that occur in the prose of land descriptions and that are NOT part of
# any Twp/Rge, section, principal-meridian or aliquot syntax.  A regex whose
# match is deleted / rewritten by a preprocessor must not fire inside any of
# them (negative witnesses; the list is an oracle of this checker, chosen for
# the letter sequences the reference syntax is built from: pm, pr, mer, sec,
# lot, twp, rge, n/s/e/w + digit).
ORDINARY_WORDS = (
    'shipment', 'equipment', 'development', 'compartment', 'encampment', 'shipments',
    'private', 'property', 'approximately', 'April', 'improvements', 'premises', 'primary', 'primarily', 'prime',
    'primer', 'permit', 'permanent',
    'former', 'Former railroad', 'summer', 'Summer pasture', 'farmer', 'Palmer Addition', 'commercial', 'numerous',
    'merchant', 'hammer', 'emergency', 'supreme', 'compromise', 'pump', 'pump house', 'camp', 'ramp',
    'pipeline', 'easement', 'railroad', 'addition', 'pasture', 'homestead', 'reservoir', 'township road',
    # units and times written after a number
    '5 km', '30 cm', 'mm', '10 a.m.', '9 am',
)

# section / lot lists followed by an aliquot that starts with E or W: two
# numbers, a dash and a direction letter - but no Twp/Rge.  None of the Twp/Rge
# patterns (least of all the preprocessing ones, which REWRITE their match)
# may fire in them.
NOT_TWPRGE = (
    'Sec 4 - 9, W/2', 'Sections 1 - 3, E/2 of', 'Lots 2 - 4, W½', 'Sec 12-14 W/2', 'Lot 4-7 E/2', 'Secs 14, 15, E½',
    'Sec 1 - 3: W/2', 'Sections 22 - 27, W½NE¼', 'Sec 4-9 E/2',
)
