"""
C01 -- descriptions in the documented layouts parse back to exactly their
tracts.
"""

import ast
import re

from .. import AnalysisError, rx, flow
from ..fold import is_unknown
from ..srcmodel import walk_local, norm, dotted, guards, enclosing_stmt
from . import common, families as F
from .layouts import check_dispatch, layout_classes
from .c08 import _inc

META = {
    'explanation': (
        "Which tracts come out of arbitrary text is a runtime quantity and is "
        "not decided. Decided (necessary conditions): every layout-dependent "
        "dispatch site of the description parser uses exactly the layout "
        "class its action needs (derived from the layout names themselves); "
        "the documented Twp/Rge, section and list spellings are in the "
        "language of the reader's regexes; the text pretty_desc emits "
        "(template of TRS.pretty_twprge with its defaults, 'Sec NN: ') is in "
        "the reader's language and groups consecutive runs in list order; the "
        "connector-word tables used to filter sections / clean descriptions "
        "are word-anchored; a dictated layout reaches every chunk parser."
        ' Also: the stand-alone through_regex is case-closed w.r.t. the regexes that embed it; every Twp/Rge twprge_regex can capture is a valid TRS; layout if/elif chains without else are exhaustive; helpers that are handed the layout are included in the dispatch table check.'
        " Round 7: cleanup_desc word tests act on lower-cased text and never remove a word from the front; possessive quantifiers are modelled exactly for single-character bodies (compact 't154nr97w' is part of the spelling family)."
        " Round 8: deduce_layout's section search finds every spelling (incl. '§'); reduce_whitespace rewrites whitespace only."
        ' Round 9: deduce_layout searches the whole text; no de-duplication / re-ordering idiom on the parse path.'
        " Round 10: sub_scrubber rewrites each Twp/Rge where it stands ('5N-9W ... 15N-9W')."
        " Round 11: cleanup_desc leaves a final full stop alone; the continuation-word test in front of a section sees whole words only; _parse_meaningful's layout tests are judged by the class of layouts they use when rewritten."
        " Round 12: section numbers are added as two-digit strings; no length pre-test rejects a string the TRS unpacker matches ('7s9e')."),
    'families': ['TBL', 'RX-LANG', 'ORDER'],
}


def check(ctx):
    ctx.consult('plssdesc/plss_parse.py', 'plssdesc/plss_preprocess.py', 'plssdesc/plssdesc.py',
                'rgxlib/twprge.py', 'rgxlib/sec.py', 'rgxlib/misc.py', 'containers/containers.py', 'trs/trs.py')
    n = check_dispatch(ctx)
    ctx.floor('layout dispatch tests', n, 4)
    tw = ctx.fold.get('rgxlib.twprge', 'twprge_regex')
    ms = ctx.fold.get('rgxlib.sec', 'multisec_regex')
    ctx.attempt(_inc, 'RX-LANG', 'twprge_regex', F.TWPRGE_FULL, tw, 'full Twp/Rge spellings')
    ctx.attempt(_inc, 'RX-LANG', 'twprge_regex', F.TWPRGE_CANON, tw, 'canonical T#N-R#W')
    ctx.attempt(_inc, 'RX-LANG', 'multisec_regex', F.MULTISEC, ms, 'section words, lists and colon')
    _inc(ctx, 'RX-LANG', 'pp_twprge_comma_remove', F.TWPRGE_FULL + r"[,;:]?[ ]?",
         ctx.fold.get('rgxlib.twprge', 'pp_twprge_comma_remove'), 'Twp/Rge + trailing comma')
    # 'Sections 4 through 6' expands only if the stand-alone through-check
    # (thru_rightmost -> through_regex.search) recognises the word it matched
    thr = ctx.fold.get('rgxlib.misc', 'through_regex')
    ctx.attempt(_inc, 'RX-LANG', 'through_regex', F.THROUGH, thr, 'through words (any case)')
    ctx.attempt(emitted_trs_accepted)
    ctx.attempt(deduce_sees_every_section_word)
    # one tract per named section, in reading order: no de-duplication / re-ordering on the way
    _parse_path = [f for f in ctx.repo.funcs.values() if f.module.name.endswith(('plssdesc.plss_parse', 'unpack.unpackers'))]
    ctx.attempt(common.dedup_idioms, _parse_path)
    ctx.attempt(common.reorder_in_place, _parse_path)
    from .c04 import whitespace_only          # description blocks come back verbatim
    ctx.attempt(whitespace_only)
    ctx.attempt(_deduce_on_preprocessed)
    ctx.attempt(_in_between)
    from .c05 import _range_algebra           # 'Sections 9 - 12' must expand for the round trip to hold
    for spec_, kind_ in (('SecUnpacker.unpack_sections', 'sec'),):
        ctx.attempt(_range_algebra, ctx.repo.func(spec_), kind_)
    nn = ctx.fold.get('rgxlib.sec', 'no_num_sec_regex')
    ctx.attempt(_inc, 'RX-LANG', 'no_num_sec_regex', F.SEC_WORD, nn, "the word 'Section' / abbreviations / symbol")
    ctx.attempt(_pretty, tw, ms)
    ctx.attempt(_word_tables)
    ctx.attempt(_marker_walk)
    ctx.attempt(common.embedded_case_consistency, modules=('rgxlib.misc', 'rgxlib.sec', 'rgxlib.twprge'))
    ctx.attempt(common.match_record_roles)
    from .c08 import _by_position       # 'T5N-R9W ... T15N-R9W': the short Twp/Rge is rewritten where it stands only
    ctx.attempt(_by_position)
    from .c04 import cleanup_keeps_final_stop, continuation_word_tests_are_whole_words
    ctx.attempt(cleanup_keeps_final_stop, rule='TBL')
    ctx.attempt(continuation_word_tests_are_whole_words)
    from .c05 import sections_are_two_digits
    ctx.attempt(sections_are_two_digits)
    from .c12 import length_pretests      # pretty_desc builds TRS(twprge) from a bare Twp/Rge ('7s9e')
    ctx.attempt(length_pretests)


def _pretty(ctx, tw, ms):
    pt = ctx.repo.func('TRS.pretty_twprge')
    rets = [n for n in walk_local(pt.node) if isinstance(n, ast.Return)]
    if len(rets) != 1 or not isinstance(rets[0].value, ast.JoinedStr):
        ctx.undecided('RX-LANG', 'pretty_twprge template', 'f-string return not recognised')
        return
    parts = [norm(v.value) for v in rets[0].value.values if isinstance(v, ast.FormattedValue)]
    good_t = parts == ['t', 'twp_num', 'ns', 'delim', 'r', 'rge_num', 'ew']
    # positive evidence: the same seven names in another order
    ctx.tri(good_t, sorted(parts) == sorted(['t', 'twp_num', 'ns', 'delim', 'r', 'rge_num', 'ew']) and not good_t,
            'RX-LANG', "pretty_twprge renders {t}{twp_num}{ns}{delim}{r}{rge_num}{ew}",
            detail_bad=f"template parts are ordered {parts}", key="RX-LANG|pretty_twprge|template")
    if not good_t:
        return
    d = pt.param_defaults()
    dv = {k: ctx.fold.eval(v, {}, pt.module.name) for k, v in d.items() if v is not None}
    L = common.lang(ctx, tw)
    ok = True
    bad = None
    for num in ('154', '7', '2'):
        for ns in 'NS':
            for rn in ('97', '9', '2'):
                for ew in 'EW':
                    s = f"{dv.get('t')}{num}{ns}{dv.get('delim')}{dv.get('r')}{rn}{ew}"
                    if not L.fullmatch(s):
                        ok, bad = False, s
    ctx.check(ok, 'RX-LANG', "pretty_twprge's default rendering is read back by twprge_regex",
              f"defaults {dv}", f"the library's own rendering {bad!r} is not matched by twprge_regex",
              key="RX-LANG|pretty_twprge|roundtrip")
    t = ' '.join(norm(s) for s in walk_local(pt.node) if isinstance(s, ast.stmt))
    ctx.shape('ns = ns.upper()' in t and 'ew = ew.upper()' in t and 'twp_num = self.twp_num' in t
              and 'rge_num = self.rge_num' in t, 'RX-LANG', 'pretty_twprge renders the numbers and upper-case directions')
    pd = ctx.repo.func('TractList.pretty_desc')
    dd = {k: ctx.fold.eval(v, {}, pd.module.name) for k, v in pd.param_defaults().items() if v is not None}
    Ls = common.lang(ctx, ms)
    word = dd.get('word_sec')
    okc = isinstance(word, str) and all(Ls.fullmatch(f"{word}{s}:") for s in ('01', '14', '36'))
    ctx.tri(okc, isinstance(word, str) and not okc, 'RX-LANG',
            "pretty_desc's 'Sec NN:' header is read back by multisec_regex (with colon)",
            detail_bad=f"word_sec default {word!r}: the library's own header '{word}14:' is not matched by multisec_regex",
            key="RX-LANG|pretty_desc|sec-header")
    t = ' '.join(norm(s) for s in walk_local(pd.node) if isinstance(s, ast.stmt))
    fstr_parts = [[norm(v.value) for v in n.values if isinstance(v, ast.FormattedValue)]
                  + [v.value for v in n.values if isinstance(v, ast.Constant)]
                  for n in walk_local(pd.node) if isinstance(n, ast.JoinedStr)]
    has_hdr = any('word_sec' in p and any(x.endswith('.sec') for x in p if isinstance(x, str)) and
                  any(isinstance(x, str) and x.startswith(':') for x in p) for p in fstr_parts)
    ctx.shape(has_hdr and 'pretty_twprge()' in t, 'RX-LANG',
              "pretty_desc emits '<T&R>' then '<word_sec>NN: <desc>' lines")
    # consecutive runs in list order (no regrouping by key)
    keyed = [n for n in walk_local(pd.node) if (isinstance(n, ast.Call) and isinstance(n.func, ast.Attribute)
             and n.func.attr == 'setdefault')
             or (isinstance(n, ast.Subscript) and isinstance(n.ctx, ast.Store) and 'twprge' in norm(n.slice))]
    if 'groupby(' in t:
        keyed = []          # itertools.groupby groups consecutive runs
    runs = 'to_print.append((cur_twprge, cur_group))' in t and 'if t.twprge == cur_twprge' in t \
        and 'cur_group.append(t)' in t and 'cur_group = [t]' in t
    # the run key is the whole Twp/Rge: a comparison on the township (or the
    # range) alone merges neighbours that differ in the other half
    partial = []
    for n in walk_local(pd.node):
        if isinstance(n, ast.Compare) and isinstance(n.ops[0], (ast.Eq, ast.NotEq)) and any(g_ is n or any(x is n for x in ast.walk(g_))
                for g_ in [i_.test for i_ in walk_local(pd.node) if isinstance(i_, ast.If)]):
            attrs = {x.attr for side in [n.left] + n.comparators for x in ast.walk(side) if isinstance(x, ast.Attribute)}
            if attrs & {'twp', 'rge', 'twp_num', 'rge_num'} and 'twprge' not in attrs:
                partial.append(n)
    if partial:
        ctx.violation('ORDER', 'pretty_desc starts a new header whenever the Twp/Rge changes',
                      f"`{norm(partial[0])[:70]}` compares only part of the Twp/Rge: consecutive tracts with the same township "
                      f"but another range (or vice versa) are printed under one header and read back with the wrong Twp/Rge",
                      key="ORDER|pretty_desc|partial-key", where=common.loc(pd, partial[0]))
    # a finished run is flushed under ITS key: (key, group) is appended before
    # either name is re-assigned in the same block
    for c in walk_local(pd.node):
        if isinstance(c, ast.Call) and isinstance(c.func, ast.Attribute) and c.func.attr == 'append' and c.args \
                and isinstance(c.args[0], ast.Tuple) and all(isinstance(e, ast.Name) for e in c.args[0].elts):
            st_ = enclosing_stmt(c)
            blk_ = None
            for fld in ('body', 'orelse'):
                b_ = getattr(st_._parent, fld, None)
                if isinstance(b_, list) and st_ in b_:
                    blk_ = b_
            in_loop = False
            p_ = st_._parent
            while p_ is not None and p_ is not pd.node:
                if isinstance(p_, (ast.For, ast.While)):
                    in_loop = True
                p_ = getattr(p_, '_parent', None)
            if blk_ is None or not in_loop:
                continue
            names_ = {e.id for e in c.args[0].elts}
            early = [x for x in blk_[:blk_.index(st_)] if isinstance(x, ast.Assign)
                     and any(isinstance(t, ast.Name) and t.id in names_ for t in x.targets)]
            ctx.check(not early, 'ORDER', f"pretty_desc flushes `{norm(c.args[0])}` before starting the next run",
                      detail_bad=f"`{norm(early[0]) if early else ''}` runs before `{norm(c)}` in the same block: the finished group is "
                                 f"stored under the NEXT group's Twp/Rge, so every run is printed under the wrong header",
                      key="ORDER|pretty_desc|flush-before-reset", where=common.loc(pd, st_))
    if keyed:
        ctx.violation('ORDER', 'pretty_desc groups consecutive runs of a Twp/Rge, in list order',
                      f"`{norm(keyed[0])[:60]}`: tracts are regrouped by Twp/Rge key, so a Twp/Rge that recurs "
                      f"later is merged into its first group and the rendering no longer follows tract order",
                      key="ORDER|pretty_desc|runs", where=common.loc(pd, keyed[0]))
    else:
        ctx.shape(runs or 'groupby(' in t, 'ORDER', 'pretty_desc groups consecutive runs of a Twp/Rge, in list order')


def _deduce_on_preprocessed(ctx):
    """PLSSParser deduces the layout from the PREPROCESSED text: spellings the
    preprocessor completes ('T154-R97' + defaults) are invisible to
    twprge_regex on the raw text, so deduction there answers copy_all."""
    pi = ctx.repo.func('PLSSParser.__init__')
    calls = [c for c in walk_local(pi.node) if isinstance(c, ast.Call) and dotted(c.func) == 'deduce_layout' and c.args]
    construct = 'PLSSParser deduces the layout from the preprocessed text'
    if not calls:
        ctx.undecided('ORDER', construct, 'deduce_layout(...) call not found in PLSSParser.__init__')
        return
    for c in calls:
        pv = flow.provenance(pi.node, c.args[0])
        pre = any(x.split('.')[-1] in ('PLSSPreprocessor', 'plss_preprocess', 'preprocess') for x in flow.prov_calls(pv))
        raw = 'text' in flow.prov_params(pv) and not pre
        ctx.tri(pre, raw, 'ORDER', construct, f"deduce_layout({norm(c.args[0])})",
                f"`{norm(c)}` looks at the text as given, before PLSSPreprocessor ran: a Twp/Rge that needs the default "
                f"N/S or E/W (or the OCR scrub) is not seen and the whole description becomes one copy_all tract",
                key="ORDER|PLSSParser.__init__|deduce-before-preprocess", where=common.loc(pi, c))


def _in_between(ctx):
    """`sec_twprge_in_between` decides that a Twp/Rge merely continues the
    section phrase before it ("Section 4 of T154N-R97W").  Its connector group
    must accept the documented connectors and must NOT accept a word that is
    a description by itself (ALL): "Sec 14: ALL" followed by the next Twp/Rge
    on a new line is two tracts, and pretty_desc writes exactly that."""
    rv = ctx.fold.get('rgxlib.context_checkers', 'sec_twprge_in_between')
    L = common.lang(ctx, rv)
    for conn in ('of', 'in', ',', 'all of', 'all in', 'all within', 'lying within', 'that lies in'):
        s_ = f"Section 4 {conn} T154N-R97W"
        ctx.check(L.search(s_), 'RX-LANG', f"sec_twprge_in_between reads {conn!r} as a continuation",
                  detail_bad=f"{s_!r} is no longer recognised: the Twp/Rge after the section phrase starts a new (wrong) tract",
                  key=f"RX-LANG|sec_twprge_in_between|{conn}")
    for word in ('ALL', 'all', 'All'):
        for sep in (' ', '\n', ': '):
            s_ = f"Sec 14{':' if sep != ': ' else ''}{sep if sep == ': ' else ' '}{word}{sep if sep != ': ' else ' '}T155N-R97W"
            hit = [sp for sp in L.search_spans(s_) if sp[1] > sp[0]]
            ctx.check(not hit, 'RX-LANG-NEG', f"sec_twprge_in_between does not take the description {word!r} for a connector ({s_!r})",
                      detail_bad=f"{s_!r} is matched as 'section <connector> Twp/Rge': the Twp/Rge that follows a tract whose whole "
                                 f"description is {word!r} is ignored and its sections go to the previous township",
                      key=f"RX-LANG-NEG|sec_twprge_in_between|{word}|{sep!r}")


def emitted_trs_accepted(ctx, rule='PAIR'):
    """Writer/reader agreement: every Twp/Rge the description parser can
    emit (digit counts of twprge_regex's twpnum / rgenum groups + a direction
    letter) followed by a two-digit section is accepted as a whole by the TRS
    unpacker, so a found Twp/Rge never degrades to the error TRS."""
    from .c12 import unpacker
    tw = ctx.fold.get('rgxlib.twprge', 'twprge_regex')
    gf = common.group_facts(ctx, tw)
    t, r = gf.get('twpnum'), gf.get('rgenum')
    if t is None or r is None or not (t.digit_only and r.digit_only) or not t.max_len or not r.max_len:
        ctx.undecided(rule, 'twprge_regex numbers fit the TRS unpacker', 'twpnum / rgenum are not plain bounded digit groups')
        return
    fam = f"[0-9]{{{max(1, t.min_len)},{t.max_len}}}[ns][0-9]{{{max(1, r.min_len)},{r.max_len}}}[ew][0-9]{{2}}"
    rv = unpacker(ctx)
    cex = ctx.cache(('inc', fam, rv.pattern, rv.flags), lambda: rx.included(fam, re.I, rv.pattern, rv.flags))
    ctx.check(cex is None, rule,
              f"every Twp/Rge twprge_regex can capture ({t.min_len}-{t.max_len} / {r.min_len}-{r.max_len} digits) is a valid TRS",
              fam, f"the description parser emits {cex!r}, which the TRS unpacker rejects: the tract gets the error TRS "
                   f"although its Twp/Rge was found", key=f"{rule}|twprge_regex->TRS", witness=repr(cex))


def word_tables(ctx):
    """connector-word tables tested with endswith() are word-anchored."""
    sites = []
    sf = ctx.repo.func('SecFinder.findall_matching_sec')
    for n in walk_local(sf.node):
        if isinstance(n, ast.Assign) and norm(n.targets[0]) == 'illegal':
            sites.append(('SecFinder: illegal prior words', ctx.fold.eval(n.value, {}, sf.module.name), sf, n))
    cd = common.cleanup_func(ctx)
    for n in walk_local(cd.node):
        if isinstance(n, ast.Assign) and norm(n.targets[0]) == 'cull_list':
            sites.append(('cleanup_desc: cull_list', ctx.fold.eval(n.value, {}, cd.module.name), cd, n))
    if len(sites) != 2:
        raise AnalysisError("connector-word tables (illegal / cull_list) not found")
    for label, val, fi, node in sites:
        if is_unknown(val):
            raise AnalysisError(f"{label} does not fold")
        bad = [w for w in val if not (isinstance(w, str) and w[:1].isspace() and w.strip())]
        ctx.check(not bad, 'TBL', f"{label} are whole words (start with a space)",
                  f"{list(val)}", f"{bad} match the tail of longer words ('thereof', 'basin', 'island'): the "
                  f"section after such a word is ignored / the description is truncated",
                  key=f"TBL|{label}", where=common.loc(fi, node))
    # a connector must not be a whole description by itself ('ALL', an aliquot)
    all_rv = ctx.fold.get('rgxlib.aliquots', 'all_regex')
    simple = ctx.fold.get('rgxlib.aliquots', 'aliquot_unpacker_regex')
    La, Ls = common.lang(ctx, all_rv), common.lang(ctx, simple)
    for label, val, fi, node in sites:
        if 'cull' not in label:
            continue
        eaten = [w for w in val if (La.fullmatch(w.strip().upper()) and ' ' not in w.strip())
                 or Ls.fullmatch(w.strip().upper())]
        ctx.check(not eaten, 'TBL', f"{label}: no connector is itself a valid description",
                  detail_bad=f"{eaten} culls a description that consists of that word alone (e.g. 'Sec 36: ALL' ends up empty)",
                  key=f"TBL|{label}|vocabulary", where=common.loc(fi, node))
    return len(sites)


def deduce_sees_every_section_word(ctx):
    """deduce_layout decides the layout from where the first section word
    stands.  Whatever it searches with must find every spelling that
    no_num_sec_regex (the word the section patterns are built on) accepts -
    including the symbol '§', in front of which there is no word boundary -
    otherwise a description written with that spelling is deduced as copy_all
    and comes back as one tract."""
    from .. import rx as _rx
    fi = ctx.repo.func('plss_parse:deduce_layout')
    construct = 'deduce_layout finds every spelling of the section word'
    base = ctx.fold.get('rgxlib.sec', 'no_num_sec_regex')
    searches = []
    for a in walk_local(fi.node):
        if isinstance(a, ast.Assign) and isinstance(a.targets[0], ast.Name) and 'sec' in a.targets[0].id \
                and isinstance(a.value, ast.Call) and isinstance(a.value.func, ast.Attribute) and a.value.func.attr == 'search':
            c = a.value
            if dotted(c.func) == 're.search' and c.args:
                pat = common.fold_in_func(ctx, fi, c.args[0])
                fl = common.fold_in_func(ctx, fi, c.args[2]) if len(c.args) > 2 else 0
                for k in c.keywords:
                    if k.arg == 'flags':
                        fl = common.fold_in_func(ctx, fi, k.value)
                if isinstance(pat, str) and isinstance(fl, int):
                    searches.append((a, pat, fl))
            else:
                v = common.fold_in_func(ctx, fi, c.func.value)
                if hasattr(v, 'pattern'):
                    searches.append((a, v.pattern, v.flags))
    if not searches:
        ctx.undecided('RX-LANG', construct, 'the section search of deduce_layout does not fold')
        return
    # the whole text is searched: a slice that cuts the text off leaves a first section that stands
    # further down (a long metes-and-bounds block in front) unseen
    for a, _pat, _fl in searches:
        c_ = a.value
        subj = c_.args[1] if dotted(c_.func) == 're.search' and len(c_.args) > 1 else (c_.args[0] if c_.args else None)
        cut = None
        exprs = [subj] if subj is not None else []
        if isinstance(subj, ast.Name):
            exprs += [x.value for x in walk_local(fi.node) if isinstance(x, ast.Assign) and norm(x.targets[0]) == subj.id]
        for e_ in exprs:
            for x in ast.walk(e_):
                if isinstance(x, ast.Subscript) and isinstance(x.slice, ast.Slice) and (x.slice.upper is not None or x.slice.lower is not None):
                    cut = x
        ctx.check(cut is None, 'RX-LANG', 'deduce_layout searches the whole text for the first section word',
                  detail_bad=f"`{norm(cut) if cut is not None else ''}` limits the search to a part of the text: when the first block is "
                             f"longer than that (a long metes-and-bounds paragraph in front of its section), no section is seen, the "
                             f"layout is deduced as copy_all and the whole description collapses into one tract, without any flag",
                  key="RX-LANG|deduce_layout|truncated-subject", where=common.loc(fi, a))
    words = _rx.enumerate_words(_rx.parse(base.pattern, base.flags), base.flags)
    for a, pat, fl in searches:
        L = _rx.Lang(pat, fl)
        miss = [w for w in words if w and not (L.search(f"T154N-R97W {w} 14: NE/4") and L.search(f"T154N-R97W\n{w}14: NE/4"))]
        ctx.check(not miss, 'RX-LANG', construct, f"{len(words)} spellings",
                  f"`{norm(a)[:70]}` does not find {miss[0]!r} (which no_num_sec_regex, and with it every section pattern, accepts): "
                  f"a description that writes its sections that way is deduced as copy_all - one tract with the whole text, "
                  f"no error flag" if miss else '', key="RX-LANG|deduce_layout|section-word", where=common.loc(fi, a))


def _word_tables(ctx):
    ctx.attempt(word_tables)
    from .c04 import cleanup_words     # (lazy import: c04 imports c01)
    ctx.attempt(cleanup_words)
    sf = ctx.repo.func('SecFinder.findall_matching_sec')
    t = ' '.join(norm(s) for s in walk_local(sf.node) if isinstance(s, ast.stmt))
    ctx.shape('text[:sec_mo.start()].rstrip().endswith(illegal)' in t, 'TBL',
              "SecFinder tests the words right before the section")


def _marker_walk(ctx):
    pm = ctx.repo.func('ChunkParser.populate_markers')
    t = ' '.join(norm(s) for s in walk_local(pm.node) if isinstance(s, ast.stmt))
    ok = all(x in t for x in ('self.markers_dict[0] = TEXT_START', 'self.markers_dict[len(text)] = TEXT_END',
                              'self.markers_dict[start] = SEC_START', 'self.markers_dict[end] = SEC_END',
                              'self.markers_dict[start] = TWPRGE_START', 'self.markers_dict[end] = TWPRGE_END',
                              'self.markers_list = sorted(self.markers_dict.keys())'))
    ctx.shape(ok, 'TBL', 'populate_markers: start/end markers of every section and Twp/Rge match, sorted by position')
    # text markers first so that matches at 0 / len overwrite them
    body = [norm(s) for s in pm.node.body]
    i0 = next((i for i, s in enumerate(body) if 'TEXT_START' in s), None)
    isec = next((i for i, s in enumerate(body) if s.startswith('for ') and 'self.sec_matches' in s), None)
    ctx.shape(i0 is not None and isec is not None and i0 < isec, 'ORDER',
              'TEXT_START/TEXT_END are set before the match markers (which may overwrite them)')
    pmf = ctx.repo.func('ChunkParser._parse_meaningful')
    t = ' '.join(norm(s) for s in walk_local(pmf.node) if isinstance(s, ast.stmt))
    ctx.shape('if layout not in s_desc_lays: self.working_sec = self.get_next_sec()' in t.replace('\n', ' ')
              or ('if layout not in s_desc_lays' in t and 'self.working_sec = self.get_next_sec()' in t), 'TBL',
              'forward-looking layouts stage the first section up front')
    ctx.shape('if layout not in tr_first_lays' in t and 'self.working_twprge = self.get_next_twprge()' in t, 'TBL',
              'Twp/Rge-last layouts stage the first Twp/Rge up front')
    ctx.shape('if layout in s_desc_lays and marker_type == SEC_END' in t
              and 'elif layout not in s_desc_lays and next_marker_type == SEC_START' in t, 'TBL',
              'a block becomes a tract after its section (sec-first) or before the next section (desc-first)')
    ctx.shape('if marker_type == TWPRGE_START: self.get_next_twprge()' in t.replace('\n', ' ')
              or ('marker_type == TWPRGE_START' in t and 'marker_type == SEC_START' in t), 'TBL',
              'start markers advance the working Twp/Rge / section')
    # a dictated layout reaches the chunk parsers (see also C11)
    pp = ctx.repo.func('PLSSParser.parse')
    from .c11 import chunk_layout_conditions, mentions, mandate_attr
    conds = chunk_layout_conditions(pp)
    ok = any(mentions(pp, c, mandate_attr(ctx)) for c in conds)
    ctx.tri(ok, bool(conds) and not ok, 'TBL', 'a dictated layout is handed to every ChunkParser',
            detail_bad="ChunkParsers only get a layout under a condition that ignores mandate_layout: a dictated "
                       "layout reaches them as None", key="TBL|PLSSParser.parse|mandate")
