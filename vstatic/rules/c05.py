"""
C05 -- elided lists of sections and lots expand to exactly the numbers they
denote.
"""

import ast
import re

from .. import AnalysisError, rx, flow
from ..srcmodel import walk_local, norm, dotted, guards
from . import common, families as F
from .c08 import _inc

from . import forward

META = {
    'explanation': (
        "Range algebra of the two right-to-left unpacking loops (the range() "
        "arguments, as linear forms in start_of_list / end_of_list, denote "
        "'from the neighbour of the already appended endpoint up to and "
        "including the other endpoint' in both directions; the non-sequential "
        "flag is raised exactly on the descending branch), sibling agreement "
        "of SecUnpacker / LotUnpacker, group facts the 'rightmost' helpers "
        "rely on, language inclusion of the documented list spellings, and "
        "the routing of every section match through SecUnpacker into one "
        "tract per element. Decides these clauses, not the expansion of a "
        "concrete list."
        " Also: SecFinder takes over the SecUnpacker's flags, find_sec and construct_tracts walk the unpacked list unfiltered, both unpackers derive found_through from thru_rightmost alone."
        ' Round 7: no de-duplication idiom (list(dict.fromkeys(..)), sorted(set(..))) in the parse path; no Twp/Rge pattern fires inside a section list followed by an E/W aliquot; result caches restore everything a miss sets.'
        " Round 8: no in-place sort / reverse of another object's list; every emitted section gives a valid TRS; 'thru.' / 'through.' are range words."
        " Round 10: a loop that walks a list match from the right never reads, by value, a capture that only some repetitions of the pattern set (Python keeps the text of an earlier repetition); the span of the group or a re-search of the rightmost element is required."
        " Round 11: the switch to the descending fill depends on the order of the two bounds and on nothing else; filling a deque at its left end counts as the reversal; the unpacker's flags are taken over by any method of the finder."
        ' Round 12: sections are added zero-padded; the whitespace normaliser joins nothing across a line break; a left-filled deque reads its newest element at [0]; a missing auxiliary group is undecided.'),
    'families': ['RX-LANG', 'RX-GROUPS', 'RANGE', 'SIB', 'PAIR', 'ROUTE', 'FORWARD', 'DEADPARAM', 'SIB-DEFAULTS'],
}


def check(ctx):
    ctx.consult('unpack/unpackers.py', 'rgxlib/sec.py', 'rgxlib/lots.py',
                'rgxlib/misc.py', 'plssdesc/plss_preprocess.py')
    multisec = ctx.fold.get('rgxlib.sec', 'multisec_regex')
    multilot = ctx.fold.get('rgxlib.lots', 'multilot_regex')
    mlwa = ctx.fold.get('rgxlib.lots', 'multilot_with_aliquot_regex')
    thr = ctx.fold.get('rgxlib.misc', 'through_regex')
    ctx.attempt(_inc, 'RX-LANG', 'multisec_regex', F.MULTISEC, multisec, 'section lists')
    ctx.attempt(_inc, 'RX-LANG', 'multilot_regex', F.MULTILOT, multilot, 'lot lists')
    ctx.attempt(_inc, 'RX-LANG', 'multilot_with_aliquot_regex', F.LOT_WITH_ALIQUOT, mlwa, 'lot lists with leading aliquot')
    # through words, with the flags through_regex itself is compiled with
    # (thru_rightmost uses it directly)
    ctx.attempt(_inc, 'RX-LANG', 'through_regex', F.THROUGH, thr, "through words (any case)")
    L = common.lang(ctx, thr)
    for w in ['and', '&', ',', ';', 'AND']:
        ctx.check(not L.search(w), 'RX-LANG-NEG', f"{w!r} is not a through-word",
                  detail_bad=f"{w!r} is read as 'through' by through_regex",
                  key=f"RX-LANG-NEG|through_regex|{w}")
    for w in ['-', '–', 'through', 'THROUGH', 'thru', 'Thru', 'to', 'TO']:
        ctx.check(L.search(w.strip()), 'RX-LANG', f"through_regex finds {w!r}",
                  detail_bad=f"{w!r} is not found by through_regex (thru_rightmost returns False)",
                  key=f"RX-LANG|through_regex|search|{w}")

    # group facts
    for rv, name, right, left, extra in (
            (multisec, 'multisec_regex', 'secnum_rightmost', 'secnum', ['plural_rightmost']),
            (multilot, 'multilot_regex', 'lotnum_rightmost', 'lotnum',
             ['word_lot_rightmost', 'plural_rightmost', 'acreage_notfirst']),
            (mlwa, 'multilot_with_aliquot_regex', 'lotnum_rightmost', 'lotnum',
             ['word_lot_rightmost', 'acreage_notfirst'])):
        gf = common.group_facts(ctx, rv)
        for g in [right, 'intervener'] + extra:
            if g not in gf and g in extra:
                # an auxiliary group may have been renamed (with its readers; a read of a group that does
                # not exist is C03's RX-GROUPS rule): nothing to judge under this name
                ctx.undecided('RX-GROUPS', f"{name}: group {g}", 'no group of that name (renamed?)')
                continue
            if g not in gf:
                ctx.violation('RX-GROUPS', f"{name}: group {g}", f"group {g!r} is missing",
                              key=f"RX-GROUPS|{name}|{g}|missing")
                continue
            ctx.check(gf[g].in_unbounded, 'RX-GROUPS', f"{name}: {g} inside the unbounded repeat",
                      "the last iteration's capture is the rightmost element",
                      f"group {g!r} is outside the repeated part: it no longer holds the rightmost element",
                      key=f"RX-GROUPS|{name}|{g}|repeat")
        for g in (left, right):
            if g in gf:
                ctx.check(gf[g].digit_only, 'RX-GROUPS', f"{name}: {g} is digits only",
                          detail_bad=f"group {g!r} can contain non-digits but is passed to int()",
                          key=f"RX-GROUPS|{name}|{g}|digits")
        if left in gf:
            opt_ok = not gf[left].optional or name == 'multilot_with_aliquot_regex'
            ctx.check(not gf[left].optional, 'RX-GROUPS', f"{name}: {left} is mandatory",
                      detail_bad=f"group {left!r} became optional (is_multi's final raise becomes reachable)",
                      key=f"RX-GROUPS|{name}|{left}|mandatory")
    gf = common.group_facts(ctx, multisec)
    ctx.check('colon' in gf and gf['colon'].optional and not gf['colon'].in_unbounded,
              'RX-GROUPS', 'multisec_regex: colon optional, after the list',
              detail_bad="the colon group is missing / mandatory / inside the repeat",
              key="RX-GROUPS|multisec_regex|colon")

    ctx.attempt(_helpers, multisec, multilot)
    secf = ctx.repo.func('SecUnpacker.unpack_sections')
    lotf = ctx.repo.func('LotUnpacker.unpack_lots')
    a = ctx.attempt(_range_algebra, secf, 'sec')
    b = ctx.attempt(_range_algebra, lotf, 'lot')
    ctx.attempt(_descending_fill_condition, secf)
    ctx.attempt(_descending_fill_condition, lotf)
    ctx.attempt(sections_are_two_digits)
    from .c04 import whitespace_only      # 'Sec 1-\n5' must not become 'Sec 15'
    ctx.attempt(whitespace_only)
    if a is not None and b is not None:
        ctx.check(a == b, 'SIB', 'unpack_sections / unpack_lots agree on the range skeleton',
                  f"both: {a}", f"sections: {a}; lots: {b}", key="SIB|unpackers|range")
    else:
        ctx.undecided('SIB', 'unpack_sections / unpack_lots agree on the range skeleton', 'one skeleton not recognised')
    ctx.attempt(_routes)
    ctx.attempt(every_match_registers, rule='TBL')
    from .c01 import emitted_trs_accepted    # every section number the unpacker can emit gives a valid TRS (one tract per section)
    ctx.attempt(emitted_trs_accepted)
    from .c08 import twprge_negatives        # a section list must reach the section unpacker, not a Twp/Rge scrubber
    ctx.attempt(twprge_negatives)
    ctx.attempt(common.reorder_in_place, [f for f in ctx.repo.funcs.values() if f.module.name.endswith(
        ('plssdesc.plss_parse', 'unpack.unpackers', 'tract.tract_parse'))])
    ctx.attempt(common.dedup_idioms, [f for f in ctx.repo.funcs.values() if f.module.name.endswith(
        ('plssdesc.plss_parse', 'unpack.unpackers', 'tract.tract_parse'))])
    ctx.attempt(_sibling_through)
    ctx.attempt(common.stale_captures, [f for f in ctx.repo.funcs.values() if f.module.name.endswith(('unpack.unpackers', 'plssdesc.plss_parse', 'plssdesc.plss_preprocess', 'tract.tract_parse'))],
                # which numbers a list denotes does not depend on the word 'Lot' / plural 's' / an acreage (C06 reads those)
                skip_groups=('word_lot_rightmost', 'plural_rightmost', 'acreage_notfirst'))
    ctx.attempt(_siblings_and_resets)
    from .c06 import ilots_after_l          # 'integer lot numbers' of the statement
    ctx.attempt(ilots_after_l)
    unp = [f for f in ctx.repo.funcs.values() if f.module.name.endswith('unpack.unpackers')]
    if common.flag_drops(ctx, unp) == 0:
        ctx.ok('RX-FLAGS', 'unpackers: no compiled regex is re-applied by its bare pattern text')
    ctx.attempt(forward.check_all, module_suffixes=('unpack.unpackers', 'tract.tract_parse', 'plssdesc.plss_parse'))
    ctx.attempt(common.embedded_case_consistency, modules=('rgxlib.misc', 'rgxlib.sec', 'rgxlib.lots'))


def every_match_registers(ctx, rule='EXC'):
    """The unpackers' scan loops register at least one number for every
    section / lot reference they consume; the callers rely on it (`sec_nums[0]`,
    `','.join(...)`, one tract per list entry).  A `continue` that leaves an
    iteration before anything was appended makes an empty result possible:
    IndexError in SecFinder, or a description that silently yields no tract."""
    n = 0
    for spec, lst in (('SecUnpacker.unpack_sections', 'working_sec_list'), ('LotUnpacker.unpack_lots', 'working_lot_list')):
        try:
            fi = ctx.repo.func(spec)
        except AnalysisError:
            continue
        loops = [x for x in fi.node.body if isinstance(x, (ast.While, ast.For))]
        for loop in loops:
            appends = [c for c in ast.walk(loop) if isinstance(c, ast.Call) and isinstance(c.func, ast.Attribute)
                       and c.func.attr in ('append', 'extend', 'insert') and isinstance(c.func.value, ast.Name)
                       and c.func.value.id.endswith('_list')]
            if not appends:
                continue
            n += 1
            bad = []
            for cont in ast.walk(loop):
                if not isinstance(cont, ast.Continue):
                    continue
                # anything appended earlier in this iteration on the way to the `continue`?
                st, seen = cont, False
                while st is not loop:
                    par = st._parent
                    for field in ('body', 'orelse'):
                        blk = getattr(par, field, None)
                        if isinstance(blk, list) and st in blk:
                            for prev in blk[:blk.index(st)]:
                                if any(a is x for a in appends for x in ast.walk(prev)) and not isinstance(prev, (ast.If, ast.For, ast.While)):
                                    seen = True
                    st = par
                if not seen:
                    bad.append(cont)
            # who indexes the result without knowing it is non-empty?
            from ..srcmodel import facts_at
            attr = 'sec_list' if 'Sec' in spec else 'lot_list'
            consumers = []
            for f2 in ctx.repo.funcs.values():
                bound = {t.id for a_ in walk_local(f2.node) if isinstance(a_, ast.Assign) and isinstance(a_.value, ast.Attribute)
                         and a_.value.attr == attr for t in a_.targets if isinstance(t, ast.Name)}
                for sub in walk_local(f2.node):
                    if isinstance(sub, ast.Subscript) and isinstance(sub.slice, ast.Constant) and isinstance(sub.slice.value, int) \
                            and ((isinstance(sub.value, ast.Name) and sub.value.id in bound)
                                 or (isinstance(sub.value, ast.Attribute) and sub.value.attr == attr)):
                        nm = norm(sub.value)
                        known = any((txt == nm and pol) or (txt in (f"len({nm}) > 0", f"len({nm}) >= 1") and pol)
                                    or (txt in (f"len({nm}) == 0", f"not {nm}") and not pol) for _e, txt, pol in facts_at(sub))
                        if not known:
                            consumers.append(f"{f2.qualname}: `{norm(sub)}`")
            # the result list filtered after the scan (`lst = [x for x in lst if ...]`) can lose its only entry too
            for a_ in walk_local(fi.node):
                if isinstance(a_, ast.Assign) and isinstance(a_.targets[0], ast.Name) and a_.targets[0].id.endswith('_list') \
                        and isinstance(a_.value, ast.ListComp) and a_.value.generators and a_.value.generators[0].ifs \
                        and norm(a_.value.generators[0].iter) == a_.targets[0].id:
                    bad.append(a_)
            # ... or through another name: `kept = [x for x in lst if ...]` ... `lst = kept`
            filt = {}
            for a_ in walk_local(fi.node):
                if isinstance(a_, ast.Assign) and len(a_.targets) == 1 and isinstance(a_.targets[0], ast.Name) \
                        and isinstance(a_.value, ast.ListComp) and a_.value.generators and a_.value.generators[0].ifs \
                        and isinstance(a_.value.generators[0].iter, ast.Name) and a_.value.generators[0].iter.id.endswith('_list') \
                        and a_.targets[0].id != a_.value.generators[0].iter.id:
                    filt[a_.targets[0].id] = a_
            # ... or by a loop: `for x in lst: if cond: kept.append(x)` ... `lst = kept`
            for lp_ in walk_local(fi.node):
                if isinstance(lp_, ast.For) and isinstance(lp_.iter, ast.Name) and lp_.iter.id.endswith('_list') \
                        and isinstance(lp_.target, ast.Name):
                    for c_ in ast.walk(lp_):
                        if isinstance(c_, ast.Call) and isinstance(c_.func, ast.Attribute) and c_.func.attr == 'append' \
                                and isinstance(c_.func.value, ast.Name) and c_.args and norm(c_.args[0]) == lp_.target.id \
                                and guards(c_, stop=lp_) and c_.func.value.id != lp_.iter.id:
                            filt[c_.func.value.id] = lp_
            for a_ in walk_local(fi.node):
                if isinstance(a_, ast.Assign) and isinstance(a_.value, ast.Name) and a_.value.id in filt and any(
                        (isinstance(t, ast.Name) and t.id.endswith('_list')) or isinstance(t, ast.Attribute) for t in a_.targets):
                    if filt[a_.value.id] not in bad:
                        bad.append(filt[a_.value.id])
                if isinstance(a_, ast.Call) and isinstance(a_.func, ast.Attribute) and a_.func.attr == 'extend' and a_.args \
                        and isinstance(a_.args[0], ast.Name) and a_.args[0].id in filt and norm(a_.func.value).startswith('self.'):
                    if filt[a_.args[0].id] not in bad:
                        bad.append(filt[a_.args[0].id])
            if bad and not consumers:
                ctx.undecided(rule, f"{spec}: every consumed reference registers a number",
                              f"`continue` at line {bad[0].lineno} can leave the result empty; no unguarded index on .{attr} found")
                continue
            ctx.check(not bad, rule, f"{spec}: every consumed reference registers a number",
                      detail_bad=f"the `{'continue' if bad and isinstance(bad[0], ast.Continue) else 'filter'}` at line {bad[0].lineno if bad else 0} drops a number that was just read (or leaves the iteration before anything was appended) "
                                 f"to the result: a reference whose only number is skipped gives an EMPTY list, and the callers "
                                 f"index it ({'; '.join(consumers[:2])}) or build one tract per entry - IndexError, or a "
                                 f"description with no tract at all", key=f"{rule}|{spec}|skip-before-append",
                      where=common.loc(fi, bad[0]) if bad else None)
    if n == 0:
        ctx.undecided(rule, 'unpackers: every consumed reference registers a number', 'scan loops not recognised')


def _helpers(ctx, multisec, multilot):
    gs = common.group_facts(ctx, multisec)
    gl = common.group_facts(ctx, multilot)
    for spec in ('unpackers:is_multi', 'unpackers:get_rightmost'):
        fi = ctx.repo.func(spec)
        templates = set()
        for n in walk_local(fi.node):
            if isinstance(n, ast.Subscript) and isinstance(n.slice, ast.JoinedStr):
                parts = []
                for v in n.slice.values:
                    if isinstance(v, ast.Constant):
                        parts.append(v.value)
                    elif isinstance(v, ast.FormattedValue) and isinstance(v.value, ast.Name) and v.value.id == 'kind':
                        parts.append('{kind}')
                    else:
                        raise AnalysisError(f"{fi.qualname}: unexpected group-name template")
                templates.add(''.join(parts))
        ctx.floor(f"{fi.qualname} group templates", len(templates), 2)
        for t in sorted(templates):
            for kind, gfacts, rn in (('sec', gs, 'multisec_regex'), ('lot', gl, 'multilot_regex')):
                g = t.replace('{kind}', kind)
                ctx.check(g in gfacts, 'RX-GROUPS', f"{fi.qualname}: mo[{g!r}] exists in {rn}",
                          detail_bad=f"{fi.qualname} reads group {g!r}, which {rn} does not define",
                          key=f"RX-GROUPS|{fi.qualname}|{g}")
        ctx.shape({'{kind}num_rightmost', '{kind}num'} <= templates, 'RX-GROUPS',
                  f"{fi.qualname} reads the <kind>num / <kind>num_rightmost pair")
    # get_rightmost: multi -> *_rightmost, else plain
    fi = ctx.repo.func('unpackers:get_rightmost')
    ok = False
    for n in walk_local(fi.node):
        if isinstance(n, ast.If) and 'is_multi(kind, mo)' in norm(n.test) and 'not' not in norm(n.test):
            ret_t = [norm(s) for s in n.body if isinstance(s, ast.Return)]
            ret_f = [norm(s) for s in n.orelse if isinstance(s, ast.Return)]
            if any('num_rightmost' in r for r in ret_t) and any('num_rightmost' not in r and 'num' in r for r in ret_f):
                ok = True
    ctx.shape(ok, 'RX-GROUPS', 'get_rightmost: rightmost group for multi matches, leftmost otherwise')
    fi = ctx.repo.func('unpackers:thru_rightmost')
    txt = ' '.join(norm(n) for n in fi.node.body)
    ctx.shape("mo['intervener']" in txt and 'through_regex.search' in txt, 'RX-GROUPS',
              "thru_rightmost tests the last intervener against through_regex")
    fi = ctx.repo.func('unpackers:start_of_rightmost')
    txt = ' '.join(norm(n) for n in fi.node.body)
    ctx.shape("mo.start('intervener')" in txt, 'RX-GROUPS',
              "start_of_rightmost cuts at the start of the last intervener")


class Lin:
    """linear form: {var: coeff} + const"""
    def __init__(self, terms=None, const=0):
        self.terms = dict(terms or {})
        self.const = const

    def __sub__(self, o):
        t = dict(self.terms)
        for k, v in o.terms.items():
            t[k] = t.get(k, 0) - v
        return Lin({k: v for k, v in t.items() if v}, self.const - o.const)

    def is_const(self):
        return not self.terms

    def __repr__(self):
        s = ' + '.join(f"{v}*{k}" if v != 1 else k for k, v in sorted(self.terms.items()))
        return f"{s}{'+' if self.const >= 0 else ''}{self.const}" if s else str(self.const)


def lin(e):
    if isinstance(e, ast.Constant) and isinstance(e.value, int):
        return Lin(const=e.value)
    if isinstance(e, ast.Name):
        return Lin({e.id: 1})
    if isinstance(e, ast.Call) and isinstance(e.func, ast.Name) and e.func.id == 'len' and len(e.args) == 1:
        return Lin({f"len({norm(e.args[0])})": 1})
    if isinstance(e, ast.UnaryOp) and isinstance(e.op, ast.USub):
        x = lin(e.operand)
        return None if x is None else Lin({k: -v for k, v in x.terms.items()}, -x.const)
    if isinstance(e, ast.BinOp) and isinstance(e.op, (ast.Add, ast.Sub)):
        a, b = lin(e.left), lin(e.right)
        if a is None or b is None:
            return None
        if isinstance(e.op, ast.Sub):
            return a - b
        return a - Lin({k: -v for k, v in b.terms.items()}, -b.const)
    return None


def _order_info(fi):
    """(order_var or None, lo_name, hi_name) from `X = start < end` (or a guard compare)."""
    for n in walk_local(fi.node):
        cmp_ = None
        var = None
        if isinstance(n, ast.Assign) and isinstance(n.value, ast.Compare) and len(n.value.ops) == 1 \
                and isinstance(n.targets[0], ast.Name):
            cmp_, var = n.value, n.targets[0].id
        if cmp_ is None:
            continue
        if not (isinstance(cmp_.left, ast.Name) and isinstance(cmp_.comparators[0], ast.Name)):
            continue
        lo, hi = cmp_.left.id, cmp_.comparators[0].id
        if isinstance(cmp_.ops[0], (ast.Gt, ast.GtE)):
            lo, hi = hi, lo
        elif not isinstance(cmp_.ops[0], (ast.Lt, ast.LtE)):
            continue
        return var, lo, hi
    return None, None, None


def _branch_of(node, order_var):
    """'in-order' / 'out-of-order' / None from the guards of node."""
    for t, pol in guards(node):
        tx = norm(t)
        if tx == order_var:
            return 'in-order' if pol else 'out-of-order'
        if tx == f"not {order_var}":
            return 'out-of-order' if pol else 'in-order'
    return None


def _descending_fill_condition(ctx, fi):
    """the switch to the descending fill depends on the order of the two bounds and on nothing else"""
    q = fi.qualname
    order_var, start, end = _order_info(fi)
    if order_var is None:
        return
    # the switch to the descending fill depends on the order of the two bounds and on nothing else
    from ..srcmodel import literals as _literals
    for a_ in walk_local(fi.node):
        if isinstance(a_, ast.Assign) and isinstance(a_.targets[0], ast.Tuple) and len(a_.targets[0].elts) == 3 \
                and isinstance(a_.value, ast.Tuple) and guards(a_):
            # only the test that looks at the order is judged (enclosing loops / `if found_through:` have
            # conditions of their own)
            about = [(t_, p_) for t_, p_ in guards(a_) if any(isinstance(x, ast.Name) and x.id == order_var for x in ast.walk(t_))]
            lits3 = _literals(about)
            own = {order_var, start, end}
            about_order = [t for _e, t, pol in lits3 if t == order_var]
            extra = [t for e_, t, pol in lits3 if not ({x.id for x in ast.walk(e_) if isinstance(x, ast.Name)} <= own)
                     and 'found_through' not in t and 'is_multi' not in t and 'thru' not in t]
            if about_order and extra:
                ctx.violation('RANGE', f"{q}: an out-of-order range is filled downwards whatever else holds",
                              f"`{norm(a_)[:60]}` (the bounds of a descending range) additionally requires `{extra[0][:50]}`: when that "
                              f"does not hold, a descending range is filled with the ascending bounds - an empty fill, so "
                              f"'9 - 7, 5 - 3' loses 4 (the second range is not expanded)",
                              key=f"RANGE|{q}|descending-fill-extra-condition", where=common.loc(fi, a_))


def _range_algebra(ctx, fi, kind):
    q = fi.qualname
    order_var, start, end = _order_info(fi)
    if order_var is None:
        # positive evidence: an order flag that guards the range bounds but
        # compares one bound with something that is not a plain bound
        for a_ in walk_local(fi.node):
            if isinstance(a_, ast.Assign) and isinstance(a_.targets[0], ast.Name) and isinstance(a_.value, ast.Compare) \
                    and len(a_.value.ops) == 1 and isinstance(a_.value.ops[0], (ast.Lt, ast.LtE, ast.Gt, ast.GtE)):
                sides = [a_.value.left, a_.value.comparators[0]]
                flag = a_.targets[0].id
                used = any(isinstance(i_, ast.If) and flag in {x.id for x in ast.walk(i_.test) if isinstance(x, ast.Name)}
                           and any(isinstance(y, ast.Tuple) for b_ in i_.body for y in ast.walk(b_))
                           for i_ in walk_local(fi.node))
                odd = [s_ for s_ in sides if not isinstance(s_, ast.Name)]
                if used and len(odd) == 1 and isinstance(odd[0], (ast.Subscript, ast.Attribute, ast.Call)):
                    ctx.violation('RANGE', f"{q}: the order test compares the two ends of the range being expanded",
                                  f"`{norm(a_)}` compares one end of the range with `{norm(odd[0])}` (an element of the list "
                                  f"built so far), not with the other end: whether 'Lots 5 - 3, 9' counts as descending "
                                  f"depends on the neighbouring item", key=f"RANGE|{q}|order-operands", where=common.loc(fi, a_))
                    return None
        ctx.undecided('RANGE', f"{q}: range algebra", 'no `order = start < end` comparison recognised')
        return None
    calls = [c for c in walk_local(fi.node) if isinstance(c, ast.Call) and dotted(c.func) == 'range'
             and len(c.args) in (2, 3)]
    if not calls:
        ctx.undecided('RANGE', f"{q}: range algebra", 'no range() expansion recognised')
        return None
    cfg, rd = flow.analyse(fi.node)
    alts = []       # (branch, la, lb, step, node)
    for c in calls:
        args = list(c.args) + ([ast.Constant(value=1)] if len(c.args) == 2 else [])
        if all(isinstance(a, ast.Name) for a in c.args):
            # bounds set by tuple / plain assignments: one alternative per defining statement
            node = flow.stmt_node(cfg, c)
            stmts = {}
            for a in c.args:
                for d in rd.reaching(node, a.id):
                    if d[0] == 'param':
                        continue
                    st = cfg.nodes[d[0]].ast
                    stmts[id(st)] = st
            for st in stmts.values():
                if isinstance(st, ast.Assign) and isinstance(st.targets[0], ast.Tuple) and isinstance(st.value, ast.Tuple) \
                        and [norm(t) for t in st.targets[0].elts] == [a.id for a in c.args]:
                    vals = list(st.value.elts) + ([ast.Constant(value=1)] if len(c.args) == 2 else [])
                    alts.append((_branch_of(st, order_var), lin(vals[0]), lin(vals[1]), lin(vals[2]), st))
                else:
                    ctx.undecided('RANGE', f"{q}: range algebra", f"bounds not set by `a, b, step = ...` ({norm(st)[:50]})")
                    return None
        else:
            alts.append((_branch_of(c, order_var), lin(args[0]), lin(args[1]), lin(args[2]), c))
    if any(a[1] is None or a[2] is None or a[3] is None or not a[3].is_const() for a in alts):
        ctx.undecided('RANGE', f"{q}: range algebra", 'non-linear range bounds')
        return None
    # an unguarded alternative is the default that the out-of-order branch overrides
    branches = {}
    for br, la, lb, ls, node in alts:
        if br is None:
            br = 'in-order' if any(b == 'out-of-order' for b, *_ in alts) else None
        if br is None:
            ctx.undecided('RANGE', f"{q}: range algebra", 'cannot tell which direction a range() belongs to')
            return None
        branches[br] = (la, lb, ls.const, node)
    if set(branches) != {'in-order', 'out-of-order'}:
        ctx.undecided('RANGE', f"{q}: range algebra", f"branches found: {sorted(branches)}")
        return None
    # provenance: `end` is the element appended last
    end_def = [n for n in walk_local(fi.node) if isinstance(n, ast.Assign)
               and isinstance(n.targets[0], ast.Name) and n.targets[0].id == end]
    if end_def:
        prov = flow.provenance(fi.node, end_def[0].value)
        ctx.tri(any(p[0] == 'sub' and p[1].endswith('[-1]') for p in prov), False, 'RANGE',
                f"{q}: {end} is the element appended last (list[-1])")
    summary = []
    for which, (la, lb, step, node) in sorted(branches.items()):
        # in-order text (start < end): walk down from end-1 to start => step -1
        want_step = -1 if which == 'in-order' else 1
        da = la - Lin({end: 1})
        db = lb - Lin({start: 1})
        okk = da.is_const() and db.is_const() and da.const == step and db.const == step and step == want_step
        ctx.check(okk, 'RANGE', f"{q}: {which} range({la!r}, {lb!r}, {step})",
                  f"covers ({end}, {start}] stepping {step}: inclusive of {start}, exclusive of the already appended {end}",
                  f"range({la!r}, {lb!r}, {step}) does not denote every number strictly after "
                  f"{end} up to and including {start} (need a = {end}{want_step:+d}, b = {start}{want_step:+d}, step {want_step:+d})",
                  key=f"RANGE|{q}|{which}", where=common.loc(fi, node))
        summary.append((which, repr(da), repr(db), step))
    # the non-sequential flag: only for out-of-order ranges, PAIRed
    flagged = False
    for n in walk_local(fi.node):
        if isinstance(n, ast.Assign) and isinstance(n.value, ast.Constant) \
                and isinstance(n.value.value, str) and n.value.value.startswith('nonsequential'):
            flagged = True
            br = _branch_of(n, order_var)
            ctx.tri(br == 'out-of-order', br == 'in-order' or br is None, 'PAIR',
                    f"{q}: nonsequential flag only for out-of-order ranges",
                    detail_bad=f"the nonsequential flag is raised {'for in-order ranges' if br == 'in-order' else 'for every range'}",
                    key=f"PAIR|{q}|nonsequential-guard")
    whole = ' '.join(norm(x) for x in walk_local(fi.node) if isinstance(x, ast.stmt))
    ctx.tri(flagged, 'nonsequential' not in whole, 'PAIR', f"{q}: a descending range raises a nonsequential flag",
            detail_bad="no nonsequential warning is raised any more", key=f"PAIR|{q}|nonsequential")
    txt = [norm(s_) for s_ in walk_local(fi.node) if isinstance(s_, ast.stmt)]
    ctx.shape(any(t.startswith('found_through = thru_rightmost(') for t in txt), 'RANGE',
              f"{q}: found_through updated from thru_rightmost each pass")
    n_rev = sum(1 for t in txt if t.endswith('.reverse()'))
    # filling a deque at its left end (appendleft / extendleft / insert(0, ..)) is the other way to
    # undo the right-to-left walk
    left_fill = any(w in whole for w in ('.appendleft(', '.extendleft(', '.insert(0,'))
    ctx.tri(n_rev == 1, n_rev == 0 and 'reversed(' not in whole and '[::-1]' not in whole and not left_fill, 'RANGE',
            f"{q}: working list reversed exactly once",
            detail_bad="the right-to-left working list is never reversed: numbers come out last-to-first",
            key=f"RANGE|{q}|reverse")
    return sorted(summary)


def _sibling_through(ctx):
    """Both unpackers decide "the number to the left is joined by a through-word"
    the same way: from thru_rightmost(<match>) alone.  One of them narrowing
    the condition (and not ..., or ...) makes the two list grammars differ."""
    vals = []
    for spec in ('SecUnpacker.unpack_sections', 'LotUnpacker.unpack_lots'):
        fi = ctx.repo.func(spec)
        asg = [n for n in walk_local(fi.node) if isinstance(n, ast.Assign) and norm(n.targets[0]) == 'found_through'
               and not isinstance(n.value, ast.Constant)]
        vals.append((fi, asg))
    construct = 'Sec and Lot unpackers both take found_through from thru_rightmost(match) alone'
    if not all(a for _f, a in vals):
        ctx.undecided('SIB', construct, 'found_through assignment not recognised in both unpackers')
        return
    kinds = []
    for fi, asg in vals:
        v = asg[-1].value
        while isinstance(v, ast.Call) and dotted(v.func) == 'bool' and v.args:
            v = v.args[0]
        plain = isinstance(v, ast.Call) and dotted(v.func) == 'thru_rightmost'
        narrowed = isinstance(v, ast.BoolOp) and any(isinstance(x, ast.Call) and dotted(x.func) == 'thru_rightmost'
                                                      for x in v.values)
        kinds.append('plain' if plain else 'narrowed' if narrowed else 'other')
    bad = set(kinds) == {'plain', 'narrowed'}
    culprit = next((f for (f, a), k in zip(vals, kinds) if k == 'narrowed'), vals[0][0])
    ctx.tri(kinds == ['plain', 'plain'], bad, 'SIB', construct,
            detail_bad=f"{culprit.qualname} combines thru_rightmost() with a further condition "
                       f"(`{norm(vals[[f for f, _ in vals].index(culprit)][1][-1])[:80]}`) while its sibling does not: ranges written "
                       f"with a repeated word ('Lot 1 - Lot 3') are expanded by one unpacker and not by the other",
            key=f"SIB|found_through|{culprit.qualname}", where=culprit.loc)


def _siblings_and_resets(ctx):
    """(a) Both unpackers read the previously unpacked number from the same
    end of their working list (the end they append to).  (b) SecFinder clears
    the flags of an earlier pass BEFORE it scans, never after: a reset behind
    the scan loop wipes what this pass has just staged (a descending range
    found by the cautious second pass loses its nonsequential warning)."""
    ends = []
    for spec, lst in (('SecUnpacker.unpack_sections', 'working_sec_list'), ('LotUnpacker.unpack_lots', 'working_lot_list')):
        fi = ctx.repo.func(spec)
        for a_ in walk_local(fi.node):
            if isinstance(a_, ast.Assign) and isinstance(a_.targets[0], ast.Name) and a_.targets[0].id.startswith('previous_') \
                    and isinstance(a_.value, ast.Subscript) and norm(a_.value.value) == lst:
                ends.append((fi, a_, norm(a_.value.slice)))
    if len(ends) == 2:
        appended = all(any(isinstance(c, ast.Call) and isinstance(c.func, ast.Attribute) and c.func.attr == 'append'
                           and norm(c.func.value) in ('working_sec_list', 'working_lot_list') for c in ast.walk(f.node))
                       for f, _a, _k in ends)
        same = ends[0][2] == ends[1][2]
        odd = next(((f, a_) for f, a_, k in ends if k != '-1'), None)

        def left_filled(f):     # a list filled at its LEFT end has its newest element at [0]
            return any(isinstance(c, ast.Call) and isinstance(c.func, ast.Attribute) and c.func.attr in ('appendleft', 'extendleft')
                       for c in ast.walk(f.node)) or any(
                isinstance(c, ast.Call) and isinstance(c.func, ast.Attribute) and c.func.attr == 'insert' and c.args
                and norm(c.args[0]) == '0' for c in ast.walk(f.node))
        if odd is not None and all((k == '0' and left_filled(f)) or (k == '-1' and not left_filled(f)) for f, _a, k in ends):
            ctx.ok('SIB', 'both unpackers take the previous number from the end they add to',
                   '[-1] after append / [0] after appendleft')
            ends = []
    if len(ends) == 2:
        ctx.tri(same and ends[0][2] == '-1', (not same) or (appended and odd is not None), 'SIB',
                'both unpackers take the previous number from the end they append to ([-1])',
                detail_bad=(f"`{norm(odd[1])}` in {odd[0].qualname} reads the other end of the list: the end of a range is taken from "
                            f"the first item unpacked so far instead of the neighbour, so 'Sec 1 - 3, 5' expands towards 5")
                if odd else '', key="SIB|unpackers|previous-end", where=common.loc(odd[0], odd[1]) if odd else None)
    elif not any(o.get('construct', '').startswith('both unpackers take the previous number from the end they add to') for o in ctx.obligations):
        ctx.undecided('SIB', 'both unpackers take the previous number from the end they append to', 'previous_* lookups not recognised')
    sf = ctx.repo.func('SecFinder.findall_matching_sec')
    loops = [i for i, st in enumerate(sf.node.body) if isinstance(st, (ast.For, ast.While))]
    if not loops:
        ctx.undecided('ORDER', 'SecFinder resets staged flags before scanning', 'scan loop not found')
        return
    late = []
    for i, st in enumerate(sf.node.body):
        if i > loops[0]:
            for x in ast.walk(st):
                if isinstance(x, ast.Assign) and any(norm(t) in ('self.flags', 'self.flag_lines') for t in x.targets) \
                        and isinstance(x.value, (ast.List, ast.Tuple)) and not x.value.elts:
                    late.append(x)
    ctx.check(not late, 'ORDER', 'SecFinder resets staged flags before scanning, never after',
              detail_bad=f"`{norm(late[0]) if late else ''}` runs after the scan loop: the warnings staged by this very pass "
                         f"(nonsequential_sections from the unpacker) are wiped",
              key="ORDER|SecFinder|late-reset", where=common.loc(sf, late[0]) if late else None)


def _routes(ctx):
    fi = ctx.repo.func('plss_preprocess:find_sec')
    txt = ' '.join(norm(s) for s in fi.node.body)
    ctx.shape('multisec_regex.finditer(text)' in txt and 'SecUnpacker(' in txt
              and '.extend(unpacker.sec_list)' in txt, 'ROUTE',
              'find_sec: every multisec match -> SecUnpacker -> extend in order')
    # find_sec reports every unpacked number (no filter on the extension)
    fs = ctx.repo.func('plss_preprocess:find_sec')
    for c in walk_local(fs.node):
        if isinstance(c, ast.Call) and isinstance(c.func, ast.Attribute) and c.func.attr in ('extend', 'append') and c.args:
            a0 = c.args[0]
            filt = isinstance(a0, (ast.GeneratorExp, ast.ListComp, ast.SetComp)) and any(g.ifs for g in a0.generators)
            dd = any(isinstance(x, ast.Call) and (dotted(x.func) or '') in ('set', 'dict.fromkeys', 'frozenset', 'sorted')
                     for x in ast.walk(a0))
            ctx.check(not (filt or dd), 'ROUTE', 'find_sec adds every number of every unpacked match (duplicates kept)',
                      f"`{norm(c)[:60]}`",
                      f"`{norm(c)[:80]}` filters / dedups what the unpacker returned: a number written twice is "
                      f"reported once, so find_sec disagrees with PLSSDesc on 'Sections 1 - 3, 2 - 4'",
                      key="ROUTE|find_sec|filter", where=common.loc(fs, c))
    # the warnings of the section unpacker (nonsequential ...) reach the finder's flags
    sf = ctx.repo.func('SecFinder.findall_matching_sec')
    fwd = {'flags': False, 'flag_lines': False}
    scopes = [sf.node]
    if sf.cls is not None:          # ... in any method of the finder (the loop body may have become a helper)
        scopes = [m.node for m in sf.cls.methods.values()]
    for sc in scopes:
        for c in ast.walk(sc):
            if isinstance(c, ast.Call) and isinstance(c.func, ast.Attribute) and c.func.attr == 'extend' and c.args \
                    and isinstance(c.args[0], ast.Attribute) and c.args[0].attr in fwd \
                    and norm(c.func.value) == f"self.{c.args[0].attr}" and norm(c.args[0].value) != 'self':
                fwd[c.args[0].attr] = True
    built = [c for sc in scopes for c in ast.walk(sc) if isinstance(c, ast.Call) and dotted(c.func) == 'SecUnpacker']
    if built:
        ctx.check(all(fwd.values()), 'ROUTE', "SecFinder takes over the SecUnpacker's flags and flag lines",
                  detail_bad=f"SecFinder builds a SecUnpacker but does not extend its own "
                             f"{[k for k, v in fwd.items() if not v]} from it: a descending range found through PLSSDesc "
                             f"raises no nonsequential_sections warning",
                  key="ROUTE|SecFinder|unpacker-flags", where=common.loc(sf, built[0]))
    fi = ctx.repo.func('SecFinder.findall_matching_sec.new_match')
    txt = ' '.join(norm(s) for s in fi.node.body)
    ctx.shape('SecUnpacker(mo.group(0))' in txt and 'unpacker.sec_list' in txt, 'ROUTE',
              'SecFinder.new_match stores SecUnpacker(match).sec_list')
    fi = ctx.repo.func('PLSSParser.construct_tracts')
    loops = [n for n in walk_local(fi.node) if isinstance(n, ast.For) and "tract_data['sec']" in norm(n.iter)]
    for lp in loops:
        dd = [c for c in ast.walk(lp.iter) if isinstance(c, ast.Call) and (dotted(c.func) or '') in (
            'set', 'dict.fromkeys', 'frozenset', 'sorted', 'OrderedDict.fromkeys', 'reversed', 'collections.OrderedDict.fromkeys')]
        ctx.check(not dd, 'ROUTE', 'construct_tracts walks the staged section list as it is (duplicates and order kept)',
                  f"for ... in {norm(lp.iter)}",
                  f"`for ... in {norm(lp.iter)}` drops repeated section numbers / changes their order: "
                  f"'Sec 1 - 3, 3 - 5' yields fewer tracts than find_sec() returns sections",
                  key="ROUTE|construct_tracts|iter", where=common.loc(fi, lp))
    ok = False
    for lp in loops:
        body = ' '.join(norm(s) for s in lp.body)
        if 'Tract(' in body and 'self.tracts.append(' in body and not any(
                isinstance(s, (ast.If, ast.Break, ast.Continue)) and 'sec_within' not in norm(s) for s in lp.body):
            ok = True
    ctx.shape(ok, 'ROUTE', 'construct_tracts: one Tract per expanded section, in order')
    fi = ctx.repo.func('TractParser.parse')
    txt = ' '.join(norm(s) for s in walk_local(fi.node) if isinstance(s, ast.stmt))
    ctx.shape('LotUnpacker(block)' in txt and 'self.lots.extend(new_lots)' in txt, 'ROUTE',
              'TractParser.parse: every lot block -> LotUnpacker -> lots.extend')
    # ilots mirrors lots
    ti = ctx.repo.func('Tract.ilots')
    txt = norm(ti.node.body[-1])
    ctx.shape('in self.lots' in txt and 'int(' in txt, 'ROUTE', 'Tract.ilots is an element-wise int map over .lots')
    # duplicates are kept: the section list flows unmodified into the staged tract
    st = ctx.repo.func('ChunkParser._stage_new_tract')
    dicts = [n for n in walk_local(st.node) if isinstance(n, ast.Dict)]
    val = None
    for d in dicts:
        for k, v in zip(d.keys, d.values):
            if isinstance(k, ast.Constant) and k.value == 'sec':
                val = v
    if val is None:
        ctx.undecided('ROUTE', "_stage_new_tract stores the section list as given", "'sec' entry not recognised")
    else:
        txtv = norm(val)
        dedup = any(isinstance(c, ast.Call) and (dotted(c.func) or '') in ('set', 'dict.fromkeys', 'frozenset', 'sorted', 'OrderedDict.fromkeys')
                    for c in ast.walk(val))
        ctx.tri(txtv in ('sec', 'list(sec)', 'sec.copy()', 'sec[:]'), dedup, 'ROUTE',
                "_stage_new_tract stores the section list as given (duplicates kept, order kept)",
                detail_bad=f"the staged section list is `{txtv}`: repeated section numbers are dropped / reordered, so "
                           f"fewer tracts are created than sections were written", key="ROUTE|_stage_new_tract|sec",
                where=common.loc(st, val))


def sections_are_two_digits(ctx, rule='TBL'):
    """Every section number SecUnpacker adds to its list is a two-digit
    string ('03'): the Twp/Rge/Sec string is built by concatenation and the
    unpacker of the standard form takes exactly two digits, so '3' gives an
    error TRS for a perfectly written section."""
    fi = ctx.repo.func('SecUnpacker.unpack_sections')
    n = 0
    for c in walk_local(fi.node):
        if not (isinstance(c, ast.Call) and isinstance(c.func, ast.Attribute) and c.func.attr in ('append', 'extend', 'appendleft', 'extendleft', 'insert')
                and isinstance(c.func.value, ast.Name) and 'sec' in c.func.value.id and c.args):
            continue
        val = c.args[-1]
        elt = val.elt if isinstance(val, (ast.GeneratorExp, ast.ListComp)) else val
        pv = flow.provenance(fi.node, elt)
        calls = {x.split('.')[-1] for x in flow.prov_calls(pv)}
        padded = bool(calls & {'rjust', 'zfill', 'format'}) or any(
            isinstance(x, ast.FormattedValue) and x.format_spec is not None for x in ast.walk(elt)) or any(
            isinstance(x, ast.JoinedStr) for x in ast.walk(elt) if any(
                isinstance(y, ast.FormattedValue) and y.format_spec is not None for y in ast.walk(x)))
        ints_only = 'str' not in calls and not any(isinstance(x, (ast.JoinedStr,)) for x in ast.walk(elt))
        n += 1
        if ints_only:
            ctx.undecided(rule, f"SecUnpacker: `{norm(c)[:50]}` adds a two-digit string", 'numbers are kept as ints here (formatted later)')
            continue
        ctx.tri(padded, not padded and 'str' in calls, rule, f"SecUnpacker: `{norm(c)[:50]}` adds a two-digit string",
                detail_bad=f"`{norm(c)[:70]}` adds `str(number)` without padding: the sections of 'Sec 3 - 6' come out as '3', '4', '5', "
                           f"and '154n97w' + '3' is not a Twp/Rge/Sec string (error TRS, twprge_error flag) although the text is well formed",
                key=f"{rule}|SecUnpacker|unpadded|{norm(elt)[:30]}", where=common.loc(fi, c))
    return n
