"""
C05 -- elided lists of sections and lots expand to exactly the numbers they
denote.
"""

import ast
import re

from .. import AnalysisError, rx, flow
from ..srcmodel import walk_local, norm, dotted, guards
from . import common, families as F
from .c08 import _inc

META = {
    'explanation': (
        "Range algebra of the two right-to-left unpacking loops (the range() "
        "arguments, as linear forms in start_of_list / end_of_list, denote "
        "'from the neighbour of the already appended endpoint up to and "
        "including the other endpoint' in both directions; the non-sequential "
        "flag is raised exactly on the descending branch), sibling agreement "
        "of SecUnpacker / LotUnpacker, group facts the 'rightmost' helpers "
        "rely on, language inclusion of the documented list spellings, and "
        "the routing of every section match through SecUnpacker into one "
        "tract per element. Decides these clauses, not the expansion of a "
        "concrete list."),
    'families': ['RX-LANG', 'RX-GROUPS', 'RANGE', 'SIB', 'PAIR', 'ROUTE'],
}


def check(ctx):
    ctx.consult('unpack/unpackers.py', 'rgxlib/sec.py', 'rgxlib/lots.py',
                'rgxlib/misc.py', 'plssdesc/plss_preprocess.py')
    multisec = ctx.fold.get('rgxlib.sec', 'multisec_regex')
    multilot = ctx.fold.get('rgxlib.lots', 'multilot_regex')
    mlwa = ctx.fold.get('rgxlib.lots', 'multilot_with_aliquot_regex')
    thr = ctx.fold.get('rgxlib.misc', 'through_regex')
    ctx.attempt(_inc, 'RX-LANG', 'multisec_regex', F.MULTISEC, multisec, 'section lists')
    ctx.attempt(_inc, 'RX-LANG', 'multilot_regex', F.MULTILOT, multilot, 'lot lists')
    ctx.attempt(_inc, 'RX-LANG', 'multilot_with_aliquot_regex', F.LOT_WITH_ALIQUOT, mlwa, 'lot lists with leading aliquot')
    # through words, with the flags through_regex itself is compiled with
    # (thru_rightmost uses it directly)
    ctx.attempt(_inc, 'RX-LANG', 'through_regex', F.THROUGH, thr, "through words (any case)")
    L = common.lang(ctx, thr)
    for w in ['and', '&', ',', ';', 'AND']:
        ctx.check(not L.search(w), 'RX-LANG-NEG', f"{w!r} is not a through-word",
                  detail_bad=f"{w!r} is read as 'through' by through_regex",
                  key=f"RX-LANG-NEG|through_regex|{w}")
    for w in ['-', '–', 'through', 'THROUGH', 'thru', 'Thru', 'to', 'TO']:
        ctx.check(L.search(w.strip()), 'RX-LANG', f"through_regex finds {w!r}",
                  detail_bad=f"{w!r} is not found by through_regex (thru_rightmost returns False)",
                  key=f"RX-LANG|through_regex|search|{w}")

    # group facts
    for rv, name, right, left, extra in (
            (multisec, 'multisec_regex', 'secnum_rightmost', 'secnum', ['plural_rightmost']),
            (multilot, 'multilot_regex', 'lotnum_rightmost', 'lotnum',
             ['word_lot_rightmost', 'plural_rightmost', 'acreage_notfirst']),
            (mlwa, 'multilot_with_aliquot_regex', 'lotnum_rightmost', 'lotnum',
             ['word_lot_rightmost', 'acreage_notfirst'])):
        gf = common.group_facts(ctx, rv)
        for g in [right, 'intervener'] + extra:
            if g not in gf:
                ctx.violation('RX-GROUPS', f"{name}: group {g}", f"group {g!r} is missing",
                              key=f"RX-GROUPS|{name}|{g}|missing")
                continue
            ctx.check(gf[g].in_unbounded, 'RX-GROUPS', f"{name}: {g} inside the unbounded repeat",
                      "the last iteration's capture is the rightmost element",
                      f"group {g!r} is outside the repeated part: it no longer holds the rightmost element",
                      key=f"RX-GROUPS|{name}|{g}|repeat")
        for g in (left, right):
            if g in gf:
                ctx.check(gf[g].digit_only, 'RX-GROUPS', f"{name}: {g} is digits only",
                          detail_bad=f"group {g!r} can contain non-digits but is passed to int()",
                          key=f"RX-GROUPS|{name}|{g}|digits")
        if left in gf:
            opt_ok = not gf[left].optional or name == 'multilot_with_aliquot_regex'
            ctx.check(not gf[left].optional, 'RX-GROUPS', f"{name}: {left} is mandatory",
                      detail_bad=f"group {left!r} became optional (is_multi's final raise becomes reachable)",
                      key=f"RX-GROUPS|{name}|{left}|mandatory")
    gf = common.group_facts(ctx, multisec)
    ctx.check('colon' in gf and gf['colon'].optional and not gf['colon'].in_unbounded,
              'RX-GROUPS', 'multisec_regex: colon optional, after the list',
              detail_bad="the colon group is missing / mandatory / inside the repeat",
              key="RX-GROUPS|multisec_regex|colon")

    ctx.attempt(_helpers, multisec, multilot)
    secf = ctx.repo.func('SecUnpacker.unpack_sections')
    lotf = ctx.repo.func('LotUnpacker.unpack_lots')
    a = _range_algebra(ctx, secf, 'sec')
    b = _range_algebra(ctx, lotf, 'lot')
    ctx.check(a == b, 'SIB', 'unpack_sections / unpack_lots agree on the range skeleton',
              f"both: {a}", f"sections: {a}; lots: {b}", key="SIB|unpackers|range")
    ctx.attempt(_routes)


def _helpers(ctx, multisec, multilot):
    gs = common.group_facts(ctx, multisec)
    gl = common.group_facts(ctx, multilot)
    for spec in ('unpackers:is_multi', 'unpackers:get_rightmost'):
        fi = ctx.repo.func(spec)
        templates = set()
        for n in walk_local(fi.node):
            if isinstance(n, ast.Subscript) and isinstance(n.slice, ast.JoinedStr):
                parts = []
                for v in n.slice.values:
                    if isinstance(v, ast.Constant):
                        parts.append(v.value)
                    elif isinstance(v, ast.FormattedValue) and isinstance(v.value, ast.Name) and v.value.id == 'kind':
                        parts.append('{kind}')
                    else:
                        raise AnalysisError(f"{fi.qualname}: unexpected group-name template")
                templates.add(''.join(parts))
        ctx.floor(f"{fi.qualname} group templates", len(templates), 2)
        for t in sorted(templates):
            for kind, gfacts, rn in (('sec', gs, 'multisec_regex'), ('lot', gl, 'multilot_regex')):
                g = t.replace('{kind}', kind)
                ctx.check(g in gfacts, 'RX-GROUPS', f"{fi.qualname}: mo[{g!r}] exists in {rn}",
                          detail_bad=f"{fi.qualname} reads group {g!r}, which {rn} does not define",
                          key=f"RX-GROUPS|{fi.qualname}|{g}")
        ctx.check({'{kind}num_rightmost', '{kind}num'} <= templates, 'RX-GROUPS',
                  f"{fi.qualname} reads the <kind>num / <kind>num_rightmost pair",
                  detail_bad=f"templates are {sorted(templates)}", key=f"RX-GROUPS|{fi.qualname}|pair")
    # get_rightmost: multi -> *_rightmost, else plain
    fi = ctx.repo.func('unpackers:get_rightmost')
    ok = False
    for n in walk_local(fi.node):
        if isinstance(n, ast.If) and 'is_multi(kind, mo)' in norm(n.test) and 'not' not in norm(n.test):
            ret_t = [norm(s) for s in n.body if isinstance(s, ast.Return)]
            ret_f = [norm(s) for s in n.orelse if isinstance(s, ast.Return)]
            if any('num_rightmost' in r for r in ret_t) and any('num_rightmost' not in r and 'num' in r for r in ret_f):
                ok = True
    ctx.check(ok, 'RX-GROUPS', 'get_rightmost: rightmost group for multi matches, leftmost otherwise',
              detail_bad="get_rightmost no longer returns <kind>num_rightmost exactly when is_multi()",
              key="RX-GROUPS|get_rightmost|branch")
    fi = ctx.repo.func('unpackers:thru_rightmost')
    txt = ' '.join(norm(n) for n in fi.node.body)
    ctx.check("mo['intervener']" in txt and 'through_regex.search' in txt, 'RX-GROUPS',
              "thru_rightmost tests the last intervener against through_regex",
              detail_bad="thru_rightmost no longer searches mo['intervener'] with through_regex",
              key="RX-GROUPS|thru_rightmost")
    fi = ctx.repo.func('unpackers:start_of_rightmost')
    txt = ' '.join(norm(n) for n in fi.node.body)
    ctx.check("mo.start('intervener')" in txt, 'RX-GROUPS',
              "start_of_rightmost cuts at the start of the last intervener",
              detail_bad="start_of_rightmost no longer returns mo.start('intervener')",
              key="RX-GROUPS|start_of_rightmost")


class Lin:
    """linear form: {var: coeff} + const"""
    def __init__(self, terms=None, const=0):
        self.terms = dict(terms or {})
        self.const = const

    def __sub__(self, o):
        t = dict(self.terms)
        for k, v in o.terms.items():
            t[k] = t.get(k, 0) - v
        return Lin({k: v for k, v in t.items() if v}, self.const - o.const)

    def is_const(self):
        return not self.terms

    def __repr__(self):
        s = ' + '.join(f"{v}*{k}" if v != 1 else k for k, v in sorted(self.terms.items()))
        return f"{s}{'+' if self.const >= 0 else ''}{self.const}" if s else str(self.const)


def lin(e):
    if isinstance(e, ast.Constant) and isinstance(e.value, int):
        return Lin(const=e.value)
    if isinstance(e, ast.Name):
        return Lin({e.id: 1})
    if isinstance(e, ast.UnaryOp) and isinstance(e.op, ast.USub):
        x = lin(e.operand)
        return None if x is None else Lin({k: -v for k, v in x.terms.items()}, -x.const)
    if isinstance(e, ast.BinOp) and isinstance(e.op, (ast.Add, ast.Sub)):
        a, b = lin(e.left), lin(e.right)
        if a is None or b is None:
            return None
        if isinstance(e.op, ast.Sub):
            return a - b
        return a - Lin({k: -v for k, v in b.terms.items()}, -b.const)
    return None


def _range_algebra(ctx, fi, kind):
    q = fi.qualname
    loops = [n for n in walk_local(fi.node) if isinstance(n, ast.For)
             and isinstance(n.iter, ast.Call) and dotted(n.iter.func) == 'range']
    if len(loops) != 1 or len(loops[0].iter.args) != 3 \
            or not all(isinstance(a, ast.Name) for a in loops[0].iter.args):
        raise AnalysisError(f"{q}: expected exactly one `for .. in range(a, b, step)` loop")
    loop = loops[0]
    an, bn, sn = [a.id for a in loop.iter.args]
    cfg, rd = flow.analyse(fi.node)
    node = cfg.node_of(loop)
    # the tuple assignments defining (a, b, step)
    defs = {}
    for nm in (an, bn, sn):
        for d in rd.reaching(node, nm):
            if d[0] == 'param':
                raise AnalysisError(f"{q}: range bound {nm} is a parameter")
            st = cfg.nodes[d[0]].ast
            defs.setdefault(id(st), st)
    branches = []
    for st in defs.values():
        if not (isinstance(st, ast.Assign) and isinstance(st.targets[0], ast.Tuple)
                and isinstance(st.value, ast.Tuple)
                and [norm(t) for t in st.targets[0].elts] == [an, bn, sn]):
            raise AnalysisError(f"{q}: range bounds are not set by `a, b, step = ...` ({norm(st)[:60]})")
        la, lb, ls = [lin(v) for v in st.value.elts]
        if la is None or lb is None or ls is None or not ls.is_const():
            raise AnalysisError(f"{q}: non-linear range bounds")
        neg_guard = [norm(t) for t, pol in guards(st) if pol]
        branches.append((st, la, lb, ls.const, neg_guard))
    if len(branches) != 2:
        raise AnalysisError(f"{q}: expected two (ascending/descending) bound assignments, found {len(branches)}")
    # which names are start/end
    order = None
    for n in walk_local(fi.node):
        if isinstance(n, ast.Assign) and isinstance(n.value, ast.Compare) and len(n.value.ops) == 1 \
                and isinstance(n.targets[0], ast.Name) and 'order' in n.targets[0].id:
            order = n
    if order is None:
        raise AnalysisError(f"{q}: no `correct_order = start < end` comparison")
    cmp_ = order.value
    if not (isinstance(cmp_.left, ast.Name) and isinstance(cmp_.comparators[0], ast.Name)):
        raise AnalysisError(f"{q}: order test is not between two names")
    lo_name, hi_name = cmp_.left.id, cmp_.comparators[0].id
    if isinstance(cmp_.ops[0], (ast.Gt, ast.GtE)):
        lo_name, hi_name = hi_name, lo_name
    elif not isinstance(cmp_.ops[0], (ast.Lt, ast.LtE)):
        raise AnalysisError(f"{q}: unexpected order operator")
    start, end = lo_name, hi_name      # 'start_of_list' < 'end_of_list' when in order
    # provenance: end is the previously appended element, start the new one
    end_def = [n for n in walk_local(fi.node) if isinstance(n, ast.Assign)
               and isinstance(n.targets[0], ast.Name) and n.targets[0].id == end]
    ok_end = False
    if end_def:
        prov = flow.provenance(fi.node, end_def[0].value)
        ok_end = any(p[0] == 'sub' and p[1].endswith('[-1]') for p in prov)
    ctx.check(bool(ok_end), 'RANGE', f"{q}: {end} is the element appended last (list[-1])",
              detail_bad=f"{end} no longer derives from working_list[-1]",
              key=f"RANGE|{q}|end-provenance")
    summary = []
    for st, la, lb, step, g in branches:
        descending_branch = any(f"not {order.targets[0].id}" == x for x in g)
        # in-order list (start < end): we walk down from end-1 to start => step -1
        want_step = 1 if descending_branch else -1
        da = la - Lin({end: 1})
        db = lb - Lin({start: 1})
        okk = da.is_const() and db.is_const() and da.const == step and db.const == step \
            and step == want_step
        which = 'descending-text branch' if descending_branch else 'ascending-text branch'
        ctx.check(okk, 'RANGE', f"{q}: {which} range({la!r}, {lb!r}, {step})",
                  f"covers ({end}, {start}] stepping {step}: inclusive of {start}, exclusive of the already appended {end}",
                  f"range({la!r}, {lb!r}, {step}) does not denote every number strictly after "
                  f"{end} up to and including {start} (need a = {end}{want_step:+d}, b = {start}{want_step:+d}, step {want_step:+d})",
                  key=f"RANGE|{q}|{which}", where=common.loc(fi, st))
        summary.append((which, repr(la - Lin({end: 1})), repr(lb - Lin({start: 1})), step))
        if descending_branch:
            # non-sequential flag raised here, PAIRed
            lst, idx = None, None
            p = st._parent
            body = ' '.join(norm(s) for s in p.body) if isinstance(p, ast.If) else ''
            ctx.check('nonsequential' in body and 'self.flags.append(flag)' in body
                      and 'self.flag_lines.append((flag,' in body,
                      'PAIR', f"{q}: nonsequential flag raised on the descending branch",
                      detail_bad="the descending branch no longer raises a paired nonsequential flag",
                      key=f"PAIR|{q}|nonsequential")
        else:
            p = st._parent
            body = ' '.join(norm(s) for s in (p.body if hasattr(p, 'body') else []))
    # the flag is not raised outside the descending branch
    for n in walk_local(fi.node):
        if isinstance(n, ast.Assign) and isinstance(n.value, ast.Constant) \
                and isinstance(n.value.value, str) and n.value.value.startswith('nonsequential'):
            gs = [norm(t) for t, pol in guards(n) if pol]
            ctx.check(any(x.startswith('not ') and 'order' in x for x in gs), 'PAIR',
                      f"{q}: nonsequential flag only for out-of-order ranges",
                      detail_bad=f"nonsequential flag is raised under {gs}",
                      key=f"PAIR|{q}|nonsequential-guard")
    # loop-carried state: found_through set from thru_rightmost each pass, list reversed once
    txt = [norm(s) for s in walk_local(fi.node) if isinstance(s, ast.stmt)]
    ctx.check(any(t.startswith('found_through = thru_rightmost(') for t in txt), 'RANGE',
              f"{q}: found_through updated from thru_rightmost each pass",
              detail_bad="found_through is no longer set from thru_rightmost(mo)",
              key=f"RANGE|{q}|found_through")
    n_rev = sum(1 for t in txt if t.endswith('.reverse()'))
    ctx.check(n_rev == 1, 'RANGE', f"{q}: working list reversed exactly once",
              detail_bad=f"{n_rev} reverse() calls on the right-to-left working list",
              key=f"RANGE|{q}|reverse")
    return sorted(summary)


def _routes(ctx):
    fi = ctx.repo.func('plss_preprocess:find_sec')
    txt = ' '.join(norm(s) for s in fi.node.body)
    ctx.check('multisec_regex.finditer(text)' in txt and 'SecUnpacker(' in txt
              and '.extend(unpacker.sec_list)' in txt, 'ROUTE',
              'find_sec: every multisec match -> SecUnpacker -> extend in order',
              detail_bad="find_sec no longer extends its result with SecUnpacker(match).sec_list for each match",
              key="ROUTE|find_sec")
    fi = ctx.repo.func('SecFinder.findall_matching_sec.new_match')
    txt = ' '.join(norm(s) for s in fi.node.body)
    ctx.check('SecUnpacker(mo.group(0))' in txt and 'unpacker.sec_list' in txt, 'ROUTE',
              'SecFinder.new_match stores SecUnpacker(match).sec_list',
              detail_bad="SecFinder.new_match no longer stores the unpacked section list",
              key="ROUTE|SecFinder.new_match")
    fi = ctx.repo.func('PLSSParser.construct_tracts')
    loops = [n for n in walk_local(fi.node) if isinstance(n, ast.For) and "tract_data['sec']" in norm(n.iter)]
    ok = False
    for lp in loops:
        body = ' '.join(norm(s) for s in lp.body)
        if 'Tract(' in body and 'self.tracts.append(' in body and not any(
                isinstance(s, (ast.If, ast.Break, ast.Continue)) and 'sec_within' not in norm(s) for s in lp.body):
            ok = True
    ctx.check(ok, 'ROUTE', 'construct_tracts: one Tract per expanded section, in order',
              detail_bad="construct_tracts no longer appends exactly one Tract per element of tract_data['sec']",
              key="ROUTE|construct_tracts")
    fi = ctx.repo.func('TractParser.parse')
    txt = ' '.join(norm(s) for s in walk_local(fi.node) if isinstance(s, ast.stmt))
    ctx.check('LotUnpacker(block)' in txt and 'self.lots.extend(new_lots)' in txt, 'ROUTE',
              'TractParser.parse: every lot block -> LotUnpacker -> lots.extend',
              detail_bad="lot blocks are no longer routed through LotUnpacker into .lots",
              key="ROUTE|TractParser.parse|lots")
    # ilots mirrors lots
    ti = ctx.repo.func('Tract.ilots')
    txt = norm(ti.node.body[-1])
    ctx.check('for lt in self.lots' in txt and "int(lt.split('L')[-1])" in txt, 'ROUTE',
              'Tract.ilots is an element-wise int map over .lots',
              detail_bad=f"ilots is now `{txt[:80]}`", key="ROUTE|Tract.ilots")
