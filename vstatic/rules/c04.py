"""
C04 -- no description text is silently dropped.
"""

import ast
import re._constants as C

from .. import AnalysisError, rx, flow
from ..fold import is_unknown, RegexVal
from ..srcmodel import walk_local, norm, dotted, guards, enclosing_stmt, parent
from . import common, families as F
from .c01 import word_tables
from .c07 import stripset

from .layouts import dispatch_exhaustive

META = {
    'explanation': (
        "Word-by-word accounting on arbitrary text is not decided. Decided "
        "(SINK family): every inter-marker block of the marker walk reaches "
        "prep_new_tract or the unused list on every path; blocks are cut "
        "between adjacent markers; every producer of unused text is handed to "
        "the PLSSParser and turned into a flag (or re-attached under "
        "sec_within, before tracts are built) on every path; the chunker's "
        "slices tile the text; preprocessing substitutes only matched spans "
        "with text built from the match, wildcards inside a replaced span are "
        "reported; description clean-up only strips separators and "
        "whole-word connectors by position. Two listed findings: a length "
        "guard on unused-text flags, and the wildcard before a P.M. "
        "designation."
        ' Also: no word wildcard inside multisec_regex / twprge_regex, cull vocabulary is the accepted connector set, sub_scrubber replaces by position, layout dispatch chains are exhaustive.'
        " Round 7: the marker walk starts at the first marker; every accumulator of rebuild_sec_within reaches the stored description under a guard that looks at it; cleanup_desc word tests; pm_regex does not fire inside any word of an ordinary-words corpus (found and fixed: 'shipment', 'primary')."
        " Round 8: the unused list is not emptied before a return; the chunker's text is flagged from PLSSParser's own list; section patterns starting inside a word ('bisect 14') are a known finding."
        ' Round 9: every chunk is handed to a ChunkParser; an empty section list (filtered unpacker result) is reported as a vanishing block.'
        ' Round 10: with `segment`, a text in which the Twp/Rge finder keeps nothing still comes out of segment() as a block (followed for every layout with an empty match list); unused text handed to a flag-making helper is followed.'
        " Round 11: 'rewrites whitespace only' is decided on the parse tree of each substitution pattern; the clean-up function is found by what it does after a rename; named guard conditions are expanded before a finding is keyed."
        ' Round 12: the known-finding key names the test, not the spelling of the block it measures.'),
    'families': ['SINK', 'ORDER', 'TBL', 'STRIPSET'],
}


def check(ctx):
    ctx.consult('plssdesc/plss_parse.py', 'plssdesc/plss_preprocess.py', 'rgxlib/twprge.py')
    ctx.attempt(_marker_blocks)
    ctx.attempt(_unused_flow)
    # unused text that sec_within re-attaches must be consumed before the
    # tracts exist (otherwise it is emptied from the unused list and lost)
    from .c20 import _sec_within
    ctx.attempt(_sec_within)
    ctx.attempt(_chunker)
    ctx.attempt(_preprocess)
    ctx.attempt(_cleanup)
    ctx.attempt(_thresholds_and_tests)
    from . import forward
    ctx.attempt(forward.check_all, module_suffixes=('plssdesc.plss_parse', 'plssdesc.plss_preprocess'))
    from .c14 import seed_guard            # unused-text flags handed down to the tracts survive a re-parse
    ctx.attempt(seed_guard)
    ctx.attempt(_pm_needs_pm)
    ctx.attempt(_sec_inside_words)
    ctx.attempt(rebuild_keeps_everything)
    ctx.attempt(dispatch_exhaustive)
    ctx.attempt(common.match_record_roles)


def _marker_blocks(ctx):
    fi = ctx.repo.func('ChunkParser._parse_meaningful')
    loops = [n for n in fi.node.body if isinstance(n, ast.For) and 'self.markers_list' in norm(n.iter)]
    if len(loops) != 1:
        raise AnalysisError("_parse_meaningful: marker loop not found")
    loop = loops[0]
    # the walk starts at the first marker: an iterable that is a slice of the
    # marker list (or a range that starts later) never looks at the text in front
    it = loop.iter
    inner = it.args[0] if isinstance(it, ast.Call) and dotted(it.func) == 'enumerate' and it.args else it
    sliced = None
    for x in ast.walk(inner):
        if isinstance(x, ast.Subscript) and isinstance(x.slice, ast.Slice) and 'markers_list' in norm(x.value):
            lo = x.slice.lower
            if lo is not None and not (isinstance(lo, ast.Constant) and lo.value in (0, None)):
                sliced = x
    if isinstance(inner, ast.Call) and dotted(inner.func) == 'range' and len(inner.args) >= 2 \
            and not (isinstance(inner.args[0], ast.Constant) and inner.args[0].value == 0):
        sliced = inner
    ctx.tri('markers_list' in norm(inner) and sliced is None, sliced is not None, 'SINK',
            '_parse_meaningful walks every marker, from the first one',
            detail_bad=f"the walk iterates `{norm(sliced)[:60] if sliced is not None else ''}`: the markers (and the text) in front of "
                       f"its start are never cut into blocks, so a leading block reaches neither a tract nor the unused list "
                       f"and no unused_desc flag is raised", key="SINK|_parse_meaningful|walk-start",
            where=common.loc(fi, loop))
    cfg, rd = flow.analyse(fi.node)
    blocks = [n for n in ast.walk(loop) if isinstance(n, ast.Assign) and norm(n.targets[0]) == 'block'
              and isinstance(n.value, ast.Subscript)]
    if len(blocks) != 1:
        raise AnalysisError("_parse_meaningful: `block = txt[...]` not found")
    b = blocks[0]
    ctx.shape(norm(b.value) == 'txt[marker_pos:next_marker_pos]', 'SINK',
              'a block is the text between a marker and the next marker')
    t = ' '.join(norm(s) for s in ast.walk(loop) if isinstance(s, ast.stmt))
    ctx.shape('next_marker_pos = self.markers_list[min((final, count + 1))]' in t
              and 'final = len(self.markers_list) - 1' in ' '.join(norm(s) for s in fi.node.body), 'SINK',
              'the next marker is the adjacent one (no marker is skipped)')
    ctx.shape('if marker_type in [TEXT_START, TWPRGE_END, SEC_END]' in t, 'SINK',
              'text after TEXT_START, after a Twp/Rge and after a section is cut into blocks')
    # sinks
    sinks = []
    for st in ast.walk(loop):
        if isinstance(st, ast.Expr) and isinstance(st.value, ast.Call):
            c = st.value
            if (dotted(c.func) or '').split('.')[-1].lstrip('_') == 'prep_new_tract' and [norm(a) for a in c.args] == ['block']:
                sinks.append(st)
            if norm(c.func) == 'self.unused_components.append' and c.args and isinstance(c.args[0], ast.Tuple) \
                    and norm(c.args[0].elts[-1]) == 'block':
                sinks.append(st)
    if not ctx.floor('block sinks', len(sinks), 3):
        return          # not every sink was recognised: the all-paths question is not decided
    start = cfg.node_of(b)
    header = cfg.node_of(loop)
    # path refinement: `block` was just bound to a slice, so the True edge of
    # `if block is None` is infeasible on paths from that assignment
    def infeasible(a, b_, lab):
        return a.kind == 'test' and lab == 'T' and norm(a.ast.test) == 'block is None'
    ok = cfg.must_pass(start, [cfg.node_of(s) for s in sinks], to=header, infeasible=infeasible)
    ctx.check(ok, 'SINK', 'every block reaches prep_new_tract(block) or the unused list before the next marker',
              f"{len(sinks)} sinks", "there is a path from `block = txt[...]` back to the loop head that neither "
              "stages the block as a tract nor records it as unused: that text vanishes without a flag",
              key="SINK|_parse_meaningful|allpaths", where=common.loc(fi, b))
    pnt = ctx.repo.func('ChunkParser._parse_meaningful.prep_new_tract')
    t = [norm(s) for s in pnt.node.body]
    ctx.shape(f'desc = {common.cleanup_name(ctx)}(desc)' in t and 'self._stage_new_tract(desc, self.working_sec, self.working_twprge)' in t,
              'SINK', 'prep_new_tract stages the (cleaned) block as the description')


def _parser_level_unused_is_flagged(ctx):
    """PLSSParser.unused_components receives text from two sides: the chunk
    parsers, and - with `segment` - the chunker's own leading / trailing text
    that belongs to no chunk.  The unused_desc flags must therefore be made
    from PLSSParser.unused_components itself; flags made inside each
    ChunkParser never see the chunker's text."""
    ci = ctx.repo.cls('plss_parse:PLSSParser')
    fed = None
    for m in ci.methods.values():
        for c in ast.walk(m.node):
            if isinstance(c, ast.Call) and isinstance(c.func, ast.Attribute) and c.func.attr in ('extend', 'append') \
                    and norm(c.func.value) == 'self.unused_components' and any('chunker' in norm(a) for a in c.args):
                fed = (m, c)
    if fed is None:
        ctx.undecided('SINK', "the chunker's leading / trailing text is flagged", 'no hand-over from the chunker found')
        return
    flagged = False
    for f in ctx.repo.funcs.values():
        top = f
        while top.outer is not None:
            top = top.outer
        if top.cls is not ci:
            continue
        for lp in ast.walk(f.node):
            if isinstance(lp, ast.For) and 'self.unused_components' in norm(lp.iter):
                body_txt = ' '.join(norm(x) for x in ast.walk(lp) if isinstance(x, (ast.JoinedStr, ast.Call)))
                if 'unused_desc<' in body_txt or 'flag_unused' in body_txt:
                    flagged = True
    if not flagged:
        # the list handed to a helper that makes the flags from its parameter
        # (`flag_unused_components(self.unused_components, ...)`)
        from .. import flow as _flow
        handed = False
        for m in ci.methods.values():
            for c in ast.walk(m.node):
                if not isinstance(c, ast.Call):
                    continue
                pos = [i for i, a in enumerate(c.args) if norm(a) == 'self.unused_components']
                kws = [k.arg for k in c.keywords if k.arg and norm(k.value) == 'self.unused_components']
                if not pos and not kws:
                    continue
                if isinstance(c.func, ast.Attribute) and norm(c.func.value) == 'self.unused_components':
                    continue
                nm = dotted(c.func) or ''
                node = _flow.RESOLVER(nm, c, m.node) if _flow.RESOLVER and nm else None
                callee = getattr(node, '_func', None) if node is not None else None
                if callee is None:
                    handed = handed or nm.split('.')[-1] not in ('len', 'list', 'tuple', 'bool', 'enumerate', 'sorted')
                    continue
                if not any(isinstance(x, (ast.JoinedStr, ast.Constant)) and 'unused_desc' in norm(x) for x in ast.walk(callee.node)):
                    continue        # a helper that makes no unused_desc flag at all (rebuild_sec_within)
                handed = True
                params = [p_ for p_ in callee.params() if p_ not in ('self', 'cls')]
                names = [params[i] for i in pos if i < len(params)] + [k for k in kws if k in params]
                for lp in ast.walk(callee.node):
                    if isinstance(lp, (ast.For, ast.comprehension)) and isinstance(lp.iter, ast.Name) and lp.iter.id in names:
                        scope = lp if isinstance(lp, ast.For) else parent(lp)
                        txt_ = ' '.join(norm(x) for x in ast.walk(scope) if isinstance(x, ast.JoinedStr))
                        if 'unused_desc<' in txt_:
                            flagged = True
        if not flagged and handed:
            ctx.undecided('SINK', "the chunker's leading / trailing text is flagged",
                          'PLSSParser.unused_components is handed to a helper whose flag-making loop was not recognised')
            return
    ctx.check(flagged, 'SINK', "the chunker's leading / trailing text is flagged",
              detail_bad=f"`{norm(fed[1])[:60]}` puts the text the chunker cuts off (before the first / after the last Twp/Rge, with "
                         f"`segment`) into PLSSParser.unused_components, but no loop in PLSSParser turns that list into unused_desc "
                         f"flags any more: such text is in no tract and in no flag", key="SINK|PLSSParser|chunker-unused-unflagged",
              where=common.loc(fed[0], fed[1]))


def _every_chunk_is_parsed(ctx):
    """PLSSParser.parse hands EVERY chunk to a ChunkParser (which stages its
    text as tracts or as unused blocks).  A `continue` in front of that call
    drops the words of the skipped chunk: they are in no tract and in no flag."""
    pp = ctx.repo.func('PLSSParser.parse')
    loops = [l for l in walk_local(pp.node) if isinstance(l, ast.For) and 'blocks' in norm(l.iter)]
    n = 0
    for lp in loops:
        calls = [c for c in ast.walk(lp) if isinstance(c, ast.Call) and dotted(c.func) == 'ChunkParser']
        if not calls:
            continue
        n += 1
        skips = [x for x in ast.walk(lp) if isinstance(x, (ast.Continue, ast.Break)) and x.lineno < calls[0].lineno]
        ctx.check(not skips, 'SINK', 'PLSSParser.parse: every chunk is handed to a ChunkParser',
                  detail_bad=f"the `{type(skips[0]).__name__.lower() if skips else ''}` at line {skips[0].lineno if skips else 0} skips a chunk before "
                             f"`ChunkParser(...)`: whatever words that chunk holds reach neither a tract nor the unused list (only the "
                             f"Twp/Rge is reported)", key="SINK|PLSSParser.parse|chunk-skipped", where=common.loc(pp, skips[0]) if skips else None)
    if n == 0:
        ctx.undecided('SINK', 'PLSSParser.parse: every chunk is handed to a ChunkParser', 'chunk loop not recognised')


def _unused_flow(ctx):
    from .c05 import every_match_registers      # a staged tract with an EMPTY section list builds no Tract: its block vanishes
    ctx.attempt(every_match_registers, rule='SINK')
    ctx.attempt(_every_chunk_is_parsed)
    ctx.attempt(_segment_without_twprge)
    ctx.attempt(cleanup_keeps_final_stop)
    ctx.attempt(continuation_word_tests_are_whole_words, rule='SINK')
    ctx.attempt(_parser_level_unused_is_flagged)
    safe = ctx.repo.func('ChunkParser.parse_safe')
    t = [norm(s) for s in walk_local(safe.node) if isinstance(s, ast.stmt)]
    ctx.shape('parent.unused_components.extend(self.unused_components)' in t, 'SINK',
              "each chunk's unused blocks are handed to the PLSSParser")
    pp = ctx.repo.func('PLSSParser.parse')
    cfg, _ = flow.analyse(pp.node)
    t = ' '.join(norm(s) for s in walk_local(pp.node) if isinstance(s, ast.stmt))
    ctx.shape('self.unused_components.extend(chunker.unused_blocks)' in t, 'SINK',
              "the chunker's leading/trailing text is kept as unused")
    ex = [s for s in pp.node.body if isinstance(s, ast.Expr) and isinstance(s.value, ast.Call)
          and dotted(s.value.func) == 'examine_unused']
    chunks = [n for n in pp.node.body if isinstance(n, ast.For) and norm(n.iter) == 'self.blocks']
    ok = len(ex) == 1 and len(chunks) == 1 and cfg.precedes_always(chunks[0], ex[0]) \
        and cfg.must_pass(cfg.entry, [cfg.node_of(ex[0])])
    ctx.tri(ok, len(ex) == 1 and len(chunks) == 1 and not cfg.must_pass(cfg.entry, [cfg.node_of(ex[0])]), 'SINK',
            'after all chunks are parsed every path examines the unused blocks',
            detail_bad="examine_unused() is not on every path through parse()", key="SINK|PLSSParser.parse|examine")
    eu = ctx.repo.func('PLSSParser.parse.examine_unused')
    loops = [n for n in eu.node.body if isinstance(n, ast.For) and norm(n.iter) == 'self.unused_components']
    if len(loops) != 1:
        raise AnalysisError("examine_unused: loop not found")
    calls = [c for c in ast.walk(loops[0]) if isinstance(c, ast.Call) and dotted(c.func) == 'flag_unused']
    if len(calls) != 1:
        raise AnalysisError("examine_unused: flag_unused call not found")
    gs = guards(calls[0], stop=loops[0])
    if not gs:
        ctx.ok('SINK', 'examine_unused flags every unused block')
    for tst, pol in gs:
        if isinstance(tst, ast.Name):
            # a condition that was given a name first (`reportable = len(bit) >= MIN; if reportable:`):
            # judge (and key) the named expression
            defs_ = [a for a in walk_local(eu.node) if isinstance(a, ast.Assign) and len(a.targets) == 1
                     and isinstance(a.targets[0], ast.Name) and a.targets[0].id == tst.id]
            if len(defs_) == 1 and isinstance(defs_[0].value, (ast.Compare, ast.BoolOp)):
                tst = defs_[0].value
        txt = norm(tst)
        val = None
        if isinstance(tst, ast.Compare) and 'len(' in txt:
            val = ctx.fold.eval(tst.comparators[0], {'self': ctx.fold.get('plss_parse', 'PLSSParser')}, eu.module.name)
            if is_unknown(val):
                val = ctx.fold.get_attr('plss_parse', 'PLSSParser', 'MIN_REPORTABLE_UNUSED_LEN') \
                    if 'MIN_REPORTABLE_UNUSED_LEN' in txt else None
        # the key names the test, not the spelling of the block it measures (`unused_bit`, `unused.text`, `bit[1]`)
        loop_names = {x.id for x in ast.walk(loops[0].target) if isinstance(x, ast.Name)}
        import re as _re
        m_len = _re.search(r"len\(([^()]*)\)", txt)
        txt_key = txt
        if m_len and _re.match(r"[A-Za-z_]\w*", m_len.group(1)) and _re.match(r"[A-Za-z_]\w*", m_len.group(1)).group(0) in loop_names:
            txt_key = txt.replace(m_len.group(0), 'len(unused_bit)')
        ctx.violation('SINK', f"examine_unused: flag only if `{txt}`",
                      f"unused blocks failing `{txt}` (threshold {val}) are dropped without a flag",
                      key=f"SINK|examine_unused|guard|{txt_key}|{val}", where=common.loc(eu, calls[0]))
    fu = ctx.repo.func('PLSSParser.parse.flag_unused')
    t = [norm(s) for s in fu.node.body]
    ctx.shape('self.e_flags.append(flag)' in t and 'self.e_flag_lines.append((flag, unused_text))' in t
              and any('unused_desc<' in x for x in t), 'SINK', 'an unused block becomes an unused_desc<...> error flag with its text')
    # unused twprge / sec
    pc = ctx.repo.func('ChunkParser.parse_chunk')
    t = ' '.join(norm(s) for s in walk_local(pc.node) if isinstance(s, ast.stmt))
    ctx.shape('for twprge in self.working_twprge_list' in t and 'unused_twprge<' in t
              and 'for seclist in self.working_sec_list' in t and 'unused_sec<' in t, 'SINK',
              'Twp/Rges and sections that were matched but never used raise error flags')


def _chunker(ctx):
    f1 = ctx.repo.func('PLSSChunker._segment_twprge_first')
    f2 = ctx.repo.func('PLSSChunker._segment_twprge_last')
    for fi, unused_want, block_want, cond in (
            (f1, ('', 'start'), ('start', 'next_start'), 'i == 0 and start != 0'),
            (f2, ('end', ''), ('previous_end', 'end'), 'i == len(matches) - 1 and end != str_len')):
        un = [c for c in walk_local(fi.node) if isinstance(c, ast.Call) and norm(c.func) == 'self.unused_blocks.append']
        bl = [n for n in walk_local(fi.node) if isinstance(n, ast.Assign) and norm(n.targets[0]) == 'new_block'
              and isinstance(n.value, ast.Subscript)]
        if len(un) != 1 or len(bl) != 1 or not isinstance(un[0].args[0], ast.Tuple):
            ctx.undecided('SINK', f"{fi.qualname}: chunk / leftover slices", 'slices not recognised')
            continue
        usl = un[0].args[0].elts[1]
        if not isinstance(usl, ast.Subscript) or not isinstance(usl.slice, ast.Slice):
            ctx.undecided('SINK', f"{fi.qualname}: leftover slice", 'unused text is not a slice')
            continue
        got_u = (norm(usl.slice.lower) if usl.slice.lower else '', norm(usl.slice.upper) if usl.slice.upper else '')
        got_b = (norm(bl[0].value.slice.lower) if bl[0].value.slice.lower else '',
                 norm(bl[0].value.slice.upper) if bl[0].value.slice.upper else '')
        ctx.shape(got_b == block_want, 'SINK', f"{fi.qualname}: chunk is text[{block_want[0]}:{block_want[1]}]")
        # tiling: the leftover slice must abut the first/last chunk, i.e. share
        # its inner bound with the chunk slice; positive evidence of a defect:
        # the inner bound is the loop index / another variable than the chunk's
        loopvars = {norm(n.target.elts[0]) for n in walk_local(fi.node) if isinstance(n, ast.For)
                    and isinstance(n.target, ast.Tuple) and n.target.elts}
        inner_u = got_u[1] if unused_want[1] else got_u[0]
        inner_b = got_b[0] if unused_want[1] else got_b[1]
        ctx.tri(got_u == unused_want, got_b == block_want and inner_u != inner_b and (inner_u in loopvars or inner_u in ('0', '')),
                'SINK', f"{fi.qualname}: text outside the chunks is text[{unused_want[0]}:{unused_want[1]}] (abuts the chunk)",
                f"chunks [{block_want[0]}:{block_want[1]}], rest [{unused_want[0]}:{unused_want[1]}]",
                f"the leftover slice is text[{got_u[0]}:{got_u[1]}]: it does not abut the chunk text[{got_b[0]}:{got_b[1]}], "
                f"so the text in between (or all of it) vanishes", key=f"SINK|{fi.qualname}|rest", where=common.loc(fi, un[0]))
        gs = [norm(t) for t, pol in guards(un[0]) if pol]
        # positive evidence: an extra condition that excludes the single-match case
        extra = [g for g in gs if g not in (cond,) and g in ('i != 0', 'i > 0', 'i')]
        ctx.tri(gs == [cond], bool(extra), 'SINK', f"{fi.qualname}: leftover recorded when `{cond}`",
                detail_bad=f"the leftover is only recorded under {gs}: with a single Twp/Rge it is dropped unflagged",
                key=f"SINK|{fi.qualname}|cond")
    t = ' '.join(norm(s) for s in walk_local(f1.node) if isinstance(s, ast.stmt))
    ctx.shape('_, _, next_start, _ = matches[i + 1]' in t and 'next_start = str_end' in t, 'SINK',
              'a chunk ends where the next Twp/Rge starts (or at the end of the text)')
    t = ' '.join(norm(s) for s in walk_local(f2.node) if isinstance(s, ast.stmt))
    ctx.shape('_, _, _, previous_end = matches[i - 1]' in t and 'previous_end = 0' in t, 'SINK',
              'a chunk starts where the previous Twp/Rge ended (or at the start of the text)')


def _wildcards(sub, out, inside_repeat=False):
    for op, av in sub:
        if op in (C.MAX_REPEAT, C.MIN_REPEAT):
            lo, hi, s2 = av
            if len(s2) == 1 and s2[0][0] in (C.ANY,) and hi > 1:
                out.append(rx.show([(op, av)]))
            elif len(s2) == 1 and s2[0][0] is C.IN and hi > 3 and not any(o is C.NEGATE for o, _ in s2[0][1]) \
                    and sum((v[1] - v[0] + 1) if o is C.RANGE else 1 for o, v in s2[0][1] if o in (C.RANGE, C.LITERAL)
                            and (chr(v[0] if o is C.RANGE else v).isalpha())) >= 20:
                # [a-z]{3,6} : (nearly) any word
                out.append(rx.show([(op, av)]))
            elif len(s2) == 1 and s2[0][0] is C.IN and hi > 3 and any(
                    o is C.CATEGORY and v in (C.CATEGORY_WORD, C.CATEGORY_NOT_SPACE, C.CATEGORY_NOT_DIGIT) for o, v in s2[0][1]):
                # \w+ / \S+ / \D+ : any word
                out.append(rx.show([(op, av)]))
            elif len(s2) == 1 and s2[0][0] is C.IN and any(o is C.NEGATE for o, _ in s2[0][1]) and hi > 3:
                out.append(rx.show([(op, av)]))
            else:
                _wildcards(s2, out, True)
        elif op is C.SUBPATTERN:
            _wildcards(av[3], out, inside_repeat)
        elif op is C.BRANCH:
            for a in av[1]:
                _wildcards(a, out, inside_repeat)


def _preprocess(ctx):
    fi = ctx.repo.func('plss_preprocess:sub_scrubber')
    subs = [c for c in walk_local(fi.node) if isinstance(c, ast.Call) and isinstance(c.func, ast.Attribute)
            and c.func.attr == 'sub' and norm(c.func.value) == 'rgx']
    repl = common.replace_by_text(ctx, fi)
    if subs and not repl:
        ctx.ok('SINK', 'sub_scrubber rewrites exactly the matched spans (re.sub with a callback)')
        cb = subs[0].args[0]
        ok = isinstance(cb, ast.Name) and any(f.qualname == f"sub_scrubber.{cb.id}" for f in ctx.repo.funcs.values())
        ctx.shape(ok, 'SINK', 'the replacement is computed from the match object')
        if ok:
            cbf = ctx.repo.func(f"sub_scrubber.{cb.id}")
            rets = [n for n in walk_local(cbf.node) if isinstance(n, ast.Return)]
            pv = flow.provenance(cbf.node, rets[0].value)
            ctx.shape('unpack_twprge' in flow.prov_calls(pv), 'SINK',
                      'the replacement text is the standardised Twp/Rge of that match')
    elif repl:
        ctx.violation('SINK', 'sub_scrubber rewrites exactly the matched spans',
                      f"`{norm(repl[0])[:70]}` replaces by text: other occurrences of the same characters are rewritten too",
                      key="SINK|sub_scrubber|bytext", where=common.loc(fi, repl[0]))
    else:
        ctx.undecided('SINK', 'sub_scrubber rewrites exactly the matched spans', 'neither rgx.sub(callback) nor a by-text replacement')
    # wildcards inside a replaced span
    scrubber_wildcards(ctx)
    # the spans of section / Twp/Rge references are cut out of the description
    # by the marker walk: a word wildcard inside those regexes swallows
    # arbitrary words without a flag
    for modsuf, name in (('rgxlib.sec', 'multisec_regex'), ('rgxlib.twprge', 'twprge_regex')):
        rv = ctx.fold.get(modsuf, name)
        out = []
        _wildcards(rx.parse(rv.pattern, rv.flags), out)
        ctx.check(not out, 'SINK', f"{name}: the reference span consists of reference syntax only (no word wildcard)",
                  detail_bad=f"{name} contains {sorted(set(out))}: whatever word matches it becomes part of the section / "
                             f"Twp/Rge reference and disappears from every description without a flag",
                  key=f"SINK|{name}|wildcard|{','.join(sorted(set(out)))}", where=rv.module)
    whitespace_only(ctx)


def whitespace_only(ctx):
    """reduce_whitespace (run on the whole description before anything is cut
    out of it) rewrites whitespace and nothing else: what it changes is changed
    in every description block"""
    rw = ctx.repo.func('plss_preprocess:reduce_whitespace')
    # str.replace() of a visible character
    for c in walk_local(rw.node):
        if isinstance(c, ast.Call) and isinstance(c.func, ast.Attribute) and c.func.attr in ('replace', 'translate') and c.args:
            a0 = ctx.fold.eval(c.args[0], {}, rw.module.name)
            vis = isinstance(a0, str) and any(not ch.isspace() for ch in a0)
            ctx.check(not vis, 'SINK', 'reduce_whitespace only rewrites whitespace',
                      detail_bad=f"`{norm(c)[:50]}` rewrites a visible character throughout the text: the description blocks are no "
                                 f"longer the text as written", key="SINK|reduce_whitespace|replace", where=common.loc(rw, c))
    pats = [(a_, b_) for a_, b_, _c in common.sub_pairs(ctx, rw)]
    n_calls = len([c for c in walk_local(rw.node) if isinstance(c, ast.Call) and dotted(c.func) == 're.sub'])
    def ws_only(p):
        try:
            return rx.consumes_only(p, 0, str.isspace)
        except Exception:
            return False
    ok = bool(pats) and all(isinstance(p, str) and isinstance(r, str) and ws_only(p) and (r == '' or r.isspace()) for p, r in pats)
    if not pats:
        ctx.undecided('SINK', 'reduce_whitespace only rewrites whitespace', 'substitution patterns do not fold / not recognised')
    else:
        ctx.check(ok, 'SINK', 'reduce_whitespace only rewrites whitespace', f"{len(pats)} substitutions",
                  f"reduce_whitespace substitutions {pats} touch non-whitespace", key="SINK|reduce_whitespace")


def rebuild_keeps_everything(ctx, rule='SINK'):
    """rebuild_sec_within pops every unused block; a block that is long enough
    is absorbed by an accumulator (the description string, a list of leading
    blocks, ...).  Every accumulator must reach the stored description, and
    the condition under which the description is stored must look at every
    accumulator - otherwise there is a path on which a popped block is in
    neither the description nor (any longer) the unused list."""
    fi = ctx.repo.func('plss_parse:rebuild_sec_within')
    # the unused list is emptied only on the way into the loop that absorbs it
    for c in walk_local(fi.node):
        emptied = None
        if isinstance(c, ast.Call) and isinstance(c.func, ast.Attribute) and c.func.attr == 'clear' \
                and 'unused' in norm(c.func.value):
            emptied = c
        if isinstance(c, ast.Delete) and any('unused' in norm(t) for t in c.targets):
            emptied = c
        if emptied is None:
            continue
        absorbed_before = any(isinstance(l, (ast.For, ast.While)) and l.lineno < emptied.lineno
                              and 'unused' in norm(l.iter if isinstance(l, ast.For) else l.test) for l in walk_local(fi.node))
        if absorbed_before:
            continue            # emptied after the loop that went through it
        loops_after = [l for l in walk_local(fi.node) if isinstance(l, (ast.For, ast.While)) and l.lineno > emptied.lineno]
        first_loop = min((l.lineno for l in loops_after), default=10 ** 9)
        rets = [r for r in walk_local(fi.node) if isinstance(r, ast.Return) and emptied.lineno < r.lineno < first_loop]
        ctx.check(not rets, rule, 'rebuild_sec_within: the unused list is emptied only when its blocks are absorbed',
                  detail_bad=f"`{norm(emptied)[:50]}` (line {emptied.lineno}) empties the list before the `return` at line "
                             f"{rets[0].lineno if rets else 0}: on that path (not exactly one tract) every left-over block is "
                             f"discarded - it is in no tract and, the list being empty, raises no unused_desc flag",
                  key=f"{rule}|rebuild_sec_within|emptied-before-return", where=common.loc(fi, emptied))
    construct = 'rebuild_sec_within: every absorbed block reaches the stored description'
    loops = [l for l in walk_local(fi.node) if isinstance(l, (ast.While, ast.For)) and 'unused_components' in norm(l)[:80]]
    if not loops:
        ctx.undecided(rule, construct, 'pop loop not recognised')
        return
    loop = loops[0]
    popped = {t.id for a in ast.walk(loop) if isinstance(a, ast.Assign) and 'pop(' in norm(a.value)
              for tt in a.targets for t in ast.walk(tt) if isinstance(t, ast.Name)}
    carried = set(popped)
    changed = True
    while changed:                      # cleaned copies of the popped text
        changed = False
        for a in ast.walk(loop):
            if isinstance(a, ast.Assign) and isinstance(a.targets[0], ast.Name) and a.targets[0].id not in carried \
                    and isinstance(a.value, ast.Call) and any(isinstance(x, ast.Name) and x.id in carried for x in ast.walk(a.value)) \
                    and not isinstance(a.value.func, ast.Attribute):
                carried.add(a.targets[0].id)
                changed = True
    acc = set()
    for a in ast.walk(loop):
        if isinstance(a, ast.Assign) and isinstance(a.targets[0], ast.Name) and a.targets[0].id not in carried \
                and any(isinstance(x, ast.Name) and x.id in carried for x in ast.walk(a.value)):
            acc.add(a.targets[0].id)
        if isinstance(a, ast.Call) and isinstance(a.func, ast.Attribute) and a.func.attr in ('append', 'extend', 'insert') \
                and isinstance(a.func.value, ast.Name) and any(isinstance(x, ast.Name) and x.id in carried for ar in a.args for x in ast.walk(ar)):
            acc.add(a.func.value.id)
    stores = [a for a in walk_local(fi.node) if isinstance(a, ast.Assign) and isinstance(a.targets[0], ast.Subscript)
              and isinstance(a.targets[0].slice, ast.Constant) and a.targets[0].slice.value == 'desc']
    if not acc or len(stores) != 1:
        ctx.undecided(rule, construct, f"accumulators {sorted(acc)} / {len(stores)} stores of ['desc']")
        return
    st = stores[0]
    in_value = {x.id for x in ast.walk(st.value) if isinstance(x, ast.Name)}
    in_guard = {x.id for t, _p in guards(st) for x in ast.walk(t) if isinstance(x, ast.Name)}
    unstored = sorted(acc - in_value)
    unguarded = sorted(acc - in_guard) if guards(st) else []
    ctx.check(not unstored and not unguarded, rule, construct, f"accumulators {sorted(acc)}",
              (f"blocks collected in `{unstored[0]}` never reach `{norm(st)[:50]}`" if unstored else
               f"`{norm(st)[:60]}` runs only if `{norm(guards(st)[0][0])}`, which does not look at `{unguarded[0] if unguarded else ''}`: when "
               f"only `{unguarded[0] if unguarded else ''}` received text the description is not stored, and the block - already "
               f"popped from the unused list - is in no tract and raises no unused_desc flag"),
              key=f"{rule}|rebuild_sec_within|accumulators|{','.join(unstored + unguarded)}", where=common.loc(fi, st))


def _thresholds_and_tests(ctx):
    """(a) Both places that decide "long enough to matter" compare the length
    of the text with the minimum by >= (a block of exactly the minimum length
    is kept).  (b) cleanup_desc tests the text it then cuts: the endswith()
    test and the slice act on the same variable."""
    sites = []
    for spec in ('plss_parse:rebuild_sec_within', 'PLSSParser.parse'):
        try:
            fi = ctx.repo.func(spec)
        except AnalysisError:
            continue
        for c in ast.walk(fi.node):
            if isinstance(c, ast.Compare) and len(c.ops) == 1 and isinstance(c.left, ast.Call) and dotted(c.left.func) == 'len' \
                    and isinstance(c.ops[0], (ast.Gt, ast.GtE, ast.Lt, ast.LtE)) \
                    and any(w in norm(c.comparators[0]).lower() for w in ('min', 'len')) \
                    and 'unused' in norm(c.left).lower():
                sites.append((fi, c))
    if len(sites) >= 2:
        kinds = {type(c.ops[0]).__name__ for _f, c in sites}
        strict = [(f, c) for f, c in sites if isinstance(c.ops[0], ast.Gt)]
        ctx.tri(kinds == {'GtE'}, bool(strict) and 'GtE' in kinds, 'SIB',
                'unused text of exactly the minimum length counts as long enough everywhere',
                f"{len(sites)} sites use >=",
                (f"`{norm(strict[0][1])}` in {strict[0][0].qualname} uses > while the sibling test uses >=: a block of exactly the "
                 f"minimum length is popped from the unused list but neither re-attached nor flagged") if strict else '',
                key="SIB|min-length|strict", where=common.loc(strict[0][0], strict[0][1]) if strict else None)
    else:
        ctx.undecided('SIB', 'unused text of exactly the minimum length counts as long enough everywhere', 'fewer than two length tests recognised')
    cd = common.cleanup_func(ctx)
    n = 0
    for node in walk_local(cd.node):
        if not isinstance(node, ast.If):
            continue
        tests = [c for c in ast.walk(node.test) if isinstance(c, ast.Call) and isinstance(c.func, ast.Attribute)
                 and c.func.attr in ('endswith', 'startswith')]
        if not tests:
            continue
        root = tests[0].func.value
        while isinstance(root, (ast.Call, ast.Attribute)):
            root = root.func.value if isinstance(root, ast.Call) and isinstance(root.func, ast.Attribute) else \
                (root.value if isinstance(root, ast.Attribute) else None)
            if root is None:
                break
        cut = [a for a in ast.walk(node) if isinstance(a, ast.Assign) and isinstance(a.value, ast.Subscript)
               and isinstance(a.value.slice, ast.Slice) and isinstance(a.targets[0], ast.Name)]
        if not isinstance(root, ast.Name) or not cut:
            continue
        n += 1
        acted = cut[0].targets[0].id
        ctx.check(root.id == acted, 'SINK', 'cleanup_desc cuts the text it has just tested',
                  f"tests `{root.id}`, cuts `{acted}`",
                  f"`if {norm(node.test)[:50]}` looks at `{root.id}` but `{norm(cut[0])}` cuts `{acted}`: after the first cut the "
                  f"test still sees the old text, so a second connector is cut off although the text no longer ends with it "
                  f"(characters of the description are lost)", key="SINK|cleanup_desc|test-act", where=common.loc(cd, node))
    if n == 0:
        ctx.undecided('SINK', 'cleanup_desc cuts the text it has just tested', 'endswith / slice pair not recognised')


def scrubber_wildcards(ctx, why=None):
    """a wildcard inside a pattern whose whole match the preprocessor replaces
    by the clean Twp/Rge deletes whatever it matched"""
    sc = list(ctx.fold.get('plss_preprocess', 'SCRUBBER_REGEXES')) + [ctx.fold.get('plss_preprocess', 'OCR_SCRUBBER')]
    for rv in sc:
        if not isinstance(rv, RegexVal):
            raise AnalysisError("scrubber table entry is not a regex")
        out = []
        _wildcards(rx.parse(rv.pattern, rv.flags), out)
        if out:
            for w in sorted(set(out)):
                ctx.violation('SINK', f"{rv.name}: wildcard {w} inside the replaced span",
                              why or f"whatever matches {w} is deleted together with the Twp/Rge and never re-emitted or flagged",
                              key=f"SINK|{rv.name}|wildcard|{w}", where=rv.module)
        else:
            ctx.ok('SINK', f"{rv.name}: the replaced span consists of Twp/Rge syntax only (no wildcard)")


def _sec_inside_words(ctx):
    """The section patterns start with the word 'Section' / 'Sect' / 'Sec' (or a
    misspelling).  With no boundary in front, the tail of an ordinary word
    followed by a number ('bisect 14 acres', 'intersect 9') is read as a
    section reference: a bogus tract is created and the block in front is cut
    in the middle of the word, with no flag."""
    hits = {}
    for name in ('sec_regex', 'multisec_regex'):
        rv = ctx.fold.get('rgxlib.sec', name)
        L = common.lang(ctx, rv)
        for w in ('bisect 14 acres', 'intersect 9 times', 'transect 3'):
            sp = [s_ for s_ in L.search_spans(w) if s_[1] > s_[0] and s_[0] > 0 and w[s_[0] - 1].isalpha()]
            if sp:
                hits.setdefault(name, []).append((w, w[sp[-1][0]:sp[-1][1]]))
    for name in ('sec_regex', 'multisec_regex'):
        h = hits.get(name)
        ctx.check(not h, 'RX-LANG-NEG', f"{name} does not start inside an ordinary word",
                  detail_bad=f"{name} matches {h[0][1]!r} inside {h[0][0]!r}: the tail of the word and the number after it become a "
                             f"section reference (a bogus tract), and the description in front is cut inside the word" if h else '',
                  key=f"RX-LANG-NEG|{name}|inside-word", where='pytrs/parser/rgxlib/sec.py')


def _pm_needs_pm(ctx):
    """pm_regex (whose match, and up to 25 characters before it, is deleted
    after a Twp/Rge) only fires on a principal-meridian designation: ordinary
    words that merely contain 'pr' / 'p' must not match."""
    rv = ctx.fold.get('rgxlib.twprge', 'pm_regex')
    L = common.lang(ctx, rv)
    for w in tuple(dict.fromkeys(('private', 'property', 'approximately', 'April', 'improvements', 'pr', 'PR') + F.ORDINARY_WORDS)):
        hit = [sp for sp in L.search_spans(w) if sp[1] > sp[0]]
        ctx.check(not hit, 'RX-LANG-NEG', f"pm_regex does not fire inside {w!r}",
                  detail_bad=f"pm_regex matches {(w[hit[0][0]:hit[0][1]] if hit else '')!r} in {w!r}: any such word within 25 characters after a "
                             f"Twp/Rge makes the preprocessor delete the words in between as if they were a P.M. designation",
                  key=f"RX-LANG-NEG|pm_regex|{w}")
    for w in ('5th P.M.', 'Principal Meridian', '6th PM', 'Prin. Mer.'):
        ctx.shape(bool(L.search(w)), 'RX-LANG', f"pm_regex finds {w!r}")


def cleanup_words(ctx, rule='SINK'):
    """cleanup_desc (shared by the marker walk, the chunker and
    rebuild_sec_within) may drop a connector word only from the END of a
    block, and recognises it whatever its case:
      * a word test (endswith / startswith / removesuffix / removeprefix with a
        lower-case word) on text that was not lower-cased misses 'OF', 'All In';
      * a word removed from the FRONT of a block ('and ', 'the ') is text of
        the description - and of every unused fragment that sec_within glues
        back - that disappears without a flag."""
    cd = common.cleanup_func(ctx)
    tables = {}
    for x in walk_local(cd.node):
        if isinstance(x, ast.Assign) and isinstance(x.targets[0], ast.Name):
            v = ctx.fold.eval(x.value, {}, cd.module.name)
            if isinstance(v, (list, tuple)) and v and all(isinstance(w, str) for w in v) and any(ch.isalpha() for w in v for ch in w):
                tables[x.targets[0].id] = list(v)
    loopvars = {}
    for lp in walk_local(cd.node):
        if isinstance(lp, ast.For) and isinstance(lp.target, ast.Name) and isinstance(lp.iter, ast.Name) and lp.iter.id in tables:
            loopvars[lp.target.id] = tables[lp.iter.id]
    n = 0
    for c in walk_local(cd.node):
        if not (isinstance(c, ast.Call) and isinstance(c.func, ast.Attribute)
                and c.func.attr in ('endswith', 'startswith', 'removesuffix', 'removeprefix') and c.args):
            continue
        a = c.args[0]
        words = loopvars.get(a.id) if isinstance(a, ast.Name) else [a.value] if isinstance(a, ast.Constant) and isinstance(a.value, str) else None
        if not words or not any(ch.isalpha() for w in words for ch in w):
            continue
        n += 1
        lowered = any(isinstance(x, ast.Call) and isinstance(x.func, ast.Attribute) and x.func.attr in ('lower', 'casefold')
                      for x in ast.walk(c.func.value))
        if all(w == w.lower() for w in words):
            ctx.check(lowered, rule, f"cleanup_desc: `{norm(c)[:50]}` compares lower-cased text with the lower-case words",
                      detail_bad=f"`{norm(c)[:60]}` looks for {words[:3]}... in text that has not been lower-cased: 'NE/4 OF', "
                                 f"'ALL IN', 'N/2 Of' keep their connector, so the description block is not clean (and differs "
                                 f"by the case the text happens to be written in)",
                      key=f"{rule}|cleanup_desc|case|{c.func.attr}", where=common.loc(cd, c))
        if c.func.attr in ('startswith', 'removeprefix'):
            ctx.violation(rule, 'cleanup_desc drops connector words from the end of a block only',
                          f"`{norm(c)[:60]}` (words {words}) removes words from the FRONT of a block: cleanup_desc also runs on every "
                          f"unused fragment that sec_within re-attaches and on the description itself, so words in the middle "
                          f"of the rejoined description / at the start of a block vanish with no unused_desc flag",
                          key=f"{rule}|cleanup_desc|front-words", where=common.loc(cd, c))
    if n == 0:
        ctx.undecided(rule, 'cleanup_desc: word tests', 'no endswith / startswith / removesuffix test on a word table found')


def _cleanup(ctx):
    n = word_tables(ctx)
    cd = common.cleanup_func(ctx)
    ctx.attempt(stripset, [cd])
    ctx.attempt(cleanup_words)
    # the words cleanup_desc may cut from the end of a block without a flag:
    # the connectors accepted by design on the pinned tree.  Any further word
    # in the table is a word that can vanish silently (the property's
    # "inserted word disappears" case), so an addition is reported by word.
    accepted = {'the', 'all in', 'all of', 'of', 'in', 'and'}
    for x in walk_local(cd.node):
        if isinstance(x, ast.Assign) and norm(x.targets[0]) == 'cull_list':
            val = ctx.fold.eval(x.value, {}, cd.module.name)
            if is_unknown(val):
                ctx.undecided('SINK', 'cleanup_desc: cull vocabulary', 'cull_list does not fold')
                continue
            words = {str(w).strip().lower() for w in val}
            extra = sorted(w for w in words - accepted if any(ch.isalnum() for ch in w))
            ctx.check(not extra, 'SINK', 'cleanup_desc culls only the accepted trailing connectors',
                      f"{sorted(words)}",
                      f"cull_list also drops {extra}: such a word at the end of a block disappears from the "
                      f"description with no unused-text flag",
                      key=f"SINK|cleanup_desc|vocabulary|{','.join(extra)}", where=common.loc(cd, x))
    loops = [n_ for n_ in walk_local(cd.node) if isinstance(n_, ast.For) and norm(n_.iter) == 'cull_list']
    if len(loops) != 1:
        raise AnalysisError("cleanup_desc: cull loop not found")
    body = ' '.join(norm(s) for s in ast.walk(loops[0]) if isinstance(s, ast.stmt))
    test_lower = 'text.lower().endswith(cull_str)' in body
    by_pos = 'text = text[:-cull_length]' in body and 'cull_length = len(cull_str)' in body
    searching = [c for c in ast.walk(loops[0]) if isinstance(c, ast.Call) and isinstance(c.func, ast.Attribute)
                 and c.func.attr in ('rsplit', 'split', 'replace', 'partition', 'rpartition', 'rfind', 'find', 'index', 'rindex')
                 and any(norm(a) == 'cull_str' for a in c.args)]
    if searching:
        ctx.violation('SINK', 'cleanup_desc cuts a trailing connector by position',
                      f"`{norm(searching[0])[:60]}` looks the connector up in the text (case-sensitively, anywhere) "
                      f"while the test is a case-insensitive endswith: an earlier occurrence is cut instead and the "
                      f"text after it is lost", key="SINK|cleanup_desc|cut", where=common.loc(cd, searching[0]))
    else:
        ctx.shape(test_lower and by_pos, 'SINK', 'cleanup_desc cuts a trailing connector by position')
    strips = [ctx.fold.eval(c.args[0], {}, cd.module.name) for c in walk_local(cd.node)
              if isinstance(c, ast.Call) and isinstance(c.func, ast.Attribute) and c.func.attr in ('strip', 'lstrip', 'rstrip') and c.args]
    ok = all(isinstance(s, str) and not any(ch.isalnum() for ch in s) for s in strips)
    ctx.tri(ok and bool(strips), bool(strips) and not ok, 'SINK', 'cleanup_desc strips only punctuation and whitespace',
            detail_bad=f"strip sets {strips} contain letters/digits: words are eaten from the description",
            key="SINK|cleanup_desc|strip")


def _segment_without_twprge(ctx):
    """With `segment`, a text in which the Twp/Rge finder keeps nothing (no
    Twp/Rge at all, or none the dictated layout accepts) must still come out
    of PLSSChunker.segment() as a block: a chunker that produces neither a
    block nor an unused block makes the whole description vanish - no tract,
    no flag."""
    from .c11 import follow_segment
    from .layouts import layout_classes
    seg = ctx.repo.func('PLSSChunker.segment')
    names = [n for n in layout_classes(ctx)['names'] if n != 'COPY_ALL' and n.isupper()]
    n = 0
    for lay in sorted(names):
        verdict = follow_segment(ctx, seg, lay, ())
        if verdict is None:
            ctx.undecided('SINK', f"segment(): a {lay} text without a Twp/Rge is kept as one block", 'walk not covered')
            continue
        n += 1
        if verdict.startswith('calls '):
            # handed to a _segment_* method with an empty match list: its loop over the matches does not run;
            # anything that keeps the text must stand outside that loop
            import re as _re
            mname = _re.match(r'calls self\.(\w+)\(\)', verdict)
            callee = ctx.repo.find_method(seg.cls, mname.group(1)) if seg.cls is not None and mname else None
            keeps = callee is not None and any(
                isinstance(c, ast.Call) and norm(c.func).startswith('self.') and norm(c.func).endswith(('.append', '.extend'))
                and not any(isinstance(p_, (ast.For, ast.While)) for p_ in _ancestors(c, callee.node))
                for c in ast.walk(callee.node))
            if callee is None or keeps:
                ctx.undecided('SINK', f"segment(): a {lay} text without a Twp/Rge is kept as one block",
                              f"segment() {verdict} with an empty match list; what that method does with it is not followed")
                continue
            ctx.violation('SINK', f"segment(): a {lay} text without a Twp/Rge is kept as one block",
                          f"for layout {lay} and a text in which the Twp/Rge finder keeps nothing, segment() {verdict} with an empty "
                          f"match list; that method only adds blocks inside its loop over the matches, so neither a block nor an "
                          f"unused block is produced: with `segment` the whole description vanishes (no tract, no unused_desc flag)",
                          key=f"SINK|segment|no-twprge|{lay}", where=common.loc(seg, seg.node))
            continue
        ctx.check(verdict == 'kept', 'SINK', f"segment(): a {lay} text without a Twp/Rge is kept as one block",
                  'followed with an empty match list',
                  f"for layout {lay} and a text in which the Twp/Rge finder keeps nothing, segment() {verdict}: with `segment` "
                  f"the whole description vanishes (no tract, no unused_desc flag)",
                  key=f"SINK|segment|no-twprge|{lay}", where=common.loc(seg, seg.node))
    return n


def _ancestors(node, stop):
    p = parent(node)
    while p is not None and p is not stop:
        yield p
        p = parent(p)


def cleanup_keeps_final_stop(ctx, rule='SINK'):
    """cleanup_desc strips separators from both ends of a block but a full
    stop only from its FRONT: a block may end in an abbreviation ('the East
    20 ac.', 'north of the R.R.'), whose last character belongs to the text."""
    cd = common.cleanup_func(ctx)
    n = 0
    for c in walk_local(cd.node):
        if isinstance(c, ast.Call) and isinstance(c.func, ast.Attribute) and c.func.attr in ('strip', 'rstrip') and c.args:
            chars = ctx.fold.eval(c.args[0], ctx.fold.func_env(cd), cd.module.name)
            if not isinstance(chars, str):
                continue
            n += 1
            ctx.check('.' not in chars, rule, f"cleanup_desc: `{norm(c)[:40]}` leaves a final full stop alone",
                      detail_bad=f"`{norm(c)[:50]}` also removes full stops from the END of a block: 'less the East 20 ac.' comes out "
                                 f"as '... 20 ac' - the description is no longer the block as written",
                      key=f"{rule}|cleanup_desc|strips-final-stop", where=common.loc(cd, c))
    return n


def continuation_word_tests_are_whole_words(ctx, rule='TBL'):
    """SecFinder decides from the word in front of a section ('... of Section
    4') whether the section continues the previous block.  A regex used for
    that test must see whole words only: 'thereof', 'basin', 'aforesaid',
    'Main' end in the letters of 'of' / 'in' / 'said' without being them."""
    from ..fold import RegexVal
    sf = ctx.repo.func('SecFinder.findall_matching_sec')
    scopes = [m for m in sf.cls.methods.values()] if sf.cls is not None else [sf]
    n = 0
    for fi in scopes:
        for c in walk_local(fi.node):
            if not (isinstance(c, ast.Call) and isinstance(c.func, ast.Attribute) and c.func.attr in ('search', 'match', 'fullmatch')):
                continue
            recv = c.func.value
            if isinstance(recv, ast.Name) and recv.id == 're':
                if not c.args:
                    continue
                recv = c.args[0]
            try:
                rv = common.fold_in_func(ctx, fi, recv)
            except AnalysisError:
                continue
            if isinstance(rv, str):
                rv = RegexVal(rv, 0)
            if not isinstance(rv, RegexVal) or not (rv.pattern.rstrip().endswith(('$', r'\Z')) or r'\s*$' in rv.pattern):
                continue
            try:
                L = rx.Lang(rv.pattern, rv.flags)
                yes = [w for w in ('NE/4 of', 'lying in', 'part of said') if any(e == len(w) for s_, e in L.search_spans(w))]
                inside = [w for w in ('thereof', 'basin', 'aforesaid', 'Main', 'herein', 'cabin')
                          if any(e == len(w) and s_ > 0 and w[s_ - 1].isalpha() for s_, e in L.search_spans(w))]
            except Exception:
                continue
            if not yes:
                continue            # not a continuation-word test
            n += 1
            ctx.check(not inside, rule, f"{fi.qualname}: the continuation-word test `{rv.pattern[:40]}` sees whole words only",
                      detail_bad=f"`{rv.pattern[:60]}` also matches at the end of {inside}: a block that ends in such a word makes the "
                                 f"next 'Sec NN:' look like a continuation - the section is swallowed into the previous tract, without a flag",
                      key=f"{rule}|{fi.qualname}|continuation-word-inside|{','.join(inside)}", where=common.loc(fi, c))
    return n
