"""
C06 -- tract parsing is compositional: lots, divisions, acreages and aliquots.
"""

import ast

from .. import AnalysisError, flow
from ..fold import is_unknown
from ..srcmodel import walk_local, norm, dotted, guards, enclosing_stmt, parent
from . import common, families as F
from .c08 import _inc
from .c05 import lin, Lin
from .c10 import pair_sites

from . import forward

from .c13 import lockdown

from .c07 import half_plus_q_contexts, ELEMENT_SEPARATORS, lookahead_accepts_separators

META = {
    'explanation': (
        "Independence of neighbouring elements on arbitrary text is not "
        "decided. Decided: both extraction loops rebuild the remaining text "
        "with a non-empty separator that neither loop regex can match, so "
        "neighbours do not fuse and the loops progress; the leading aliquot "
        "qualifies lots only under `not suppress_lot_divs and leading_aliquot "
        "is not None` and only the first aliquots_through lots; the lot "
        "unpacker's bookkeeping uses this iteration's through-flag and "
        "records acreage for every lot kind (single / range end / range "
        "start); duplicate detection compares each element with all later "
        "ones and raises one paired flag for lots and one for aliquots; "
        "lots_qqs = lots + qqs, ilots maps lots."
        " Also: half_plus_q_regex completes before every element separator, ilots reads after the last 'L', parallel lots/qqs statements read one collection each, argument-over-attribute lock-down of the lot settings."
        " Round 7: a flag test by prefix cannot be answered by a different flag (dup_lot / dup_lot_acreage); ilots evaluated on lot names the parser writes ('N2 of L7'); a substring pre-test in front of a regex search is implied by every enumerated member of the regex's language."
        ' Round 8: the duplicate scan is gated on the list it scans; a lot group is cut at the bounds of its whole match.'
        " Round 10: stale captures of repeated groups (`word_lot_rightmost`, `and`, `thru`) are not read by value in a rightmost walk - this found and repaired a genuine defect ('N/2 of Lot 1 - Lot 3, 4'); the aliquot look-ahead accepts every element separator."
        " Round 11: `x = x or self.x` on a switch setting drops an explicit False; the acreage pattern finds the acreage in context ('L1(38.29)')."
        " Round 12: the 'Lot'-word count is taken after this pass's lots were added, as their plain number."
        ' Also: every acreage the unpacker found is recorded (no `continue` / condition in front of the store).'),
    'families': ['SEP', 'DEFUSE', 'PAIR', 'RX-LANG', 'RX-GROUPS', 'FORWARD', 'DEADPARAM', 'SIB-DEFAULTS'],
}


def _chain_language(ctx):
    """every clean chain of halves and quarters, in any order, is unpacked as ONE aliquot"""
    import re as _re
    from .. import rx as _rx
    from . import families as _F
    rv = ctx.fold.get('rgxlib.aliquots', 'aliquot_unpacker_regex')
    cex = ctx.cache(('inc', _F.ALIQUOT_CHAIN, rv.pattern, rv.flags),
                    lambda: _rx.included(_F.ALIQUOT_CHAIN, 0, rv.pattern, rv.flags))
    ctx.check(cex is None, 'RX-LANG', 'clean aliquot chains (halves and quarters in any order) <= L(aliquot_unpacker_regex)',
              'family included',
              f"the chain {cex!r} is no longer matched as a whole by aliquot_unpacker_regex: the aliquot is dropped / cut "
              f"in two by TractParser", key='RX-LANG|aliquot_unpacker_regex|chains', witness=repr(cex))


def dup_scan_and_cut(ctx):
    """(a) The duplicate warning is computed from the list it is about: a scan
    of `.qqs` that only runs when some OTHER collection has more than one
    entry (`len(self.aliquots_whole) > 1`) misses repeats that collection does
    not count ('NE/4, ALL').  (b) A lot group is cut out of the remaining text
    from where its whole match starts: cutting from the start of an inner
    group leaves the leading aliquot in the text, where the aliquot pass finds
    it again as an aliquot of the section."""
    from ..srcmodel import facts_at
    gf = ctx.repo.func('TractParser.gen_flags')
    n = 0
    for c in walk_local(gf.node):
        if isinstance(c, ast.Call) and (dotted(c.func) or '').split('.')[-1] == 'find_duplicates' and c.args:
            subject = norm(c.args[0])
            n += 1
            facts = [t for _e, t, _p in facts_at(c)]
            par = getattr(c, '_parent', None)
            if isinstance(par, ast.IfExp):
                facts += [norm(par.test)]
            foreign = [t for t in facts if 'len(' in t and subject not in t]
            ctx.check(not foreign, 'DEFUSE', f"gen_flags: the duplicate scan of {subject} does not depend on another collection",
                      detail_bad=f"`{norm(c)}` runs only if `{foreign[0] if foreign else ''}`: that is the size of a different "
                                 f"collection, which need not count everything that ends up in {subject} (a stand-alone 'ALL' is in "
                                 f".qqs four times over but not in .aliquots_whole) - repeated QQs then carry no dup_qq warning",
                      key=f"DEFUSE|gen_flags|dup-scan-gated|{subject}", where=common.loc(gf, c))
    tp = ctx.repo.func('TractParser.parse')
    for x in walk_local(tp.node):
        if isinstance(x, ast.Subscript) and isinstance(x.slice, ast.Slice) and 'remaining' in norm(x.value):
            for bound in (x.slice.lower, x.slice.upper):
                if bound is None:
                    continue
                exprs = [bound]
                if isinstance(bound, ast.Name):
                    exprs = [a.value for a in walk_local(tp.node) if isinstance(a, ast.Assign) and norm(a.targets[0]) == bound.id]
                inner = [c for e in exprs for c in ast.walk(e) if isinstance(c, ast.Call) and isinstance(c.func, ast.Attribute)
                         and c.func.attr in ('start', 'end') and c.args and not (isinstance(c.args[0], ast.Constant) and c.args[0].value == 0)]
                n += 1
                ctx.check(not inner, 'DEFUSE', f"TractParser.parse: `{norm(x)[:40]}` is cut at the bounds of the whole match",
                          detail_bad=f"the cut uses `{norm(inner[0]) if inner else ''}` (an inner group): whatever the match holds outside "
                                     f"that group - the aliquot in front of a lot group - stays in the text and is found again by "
                                     f"the aliquot pass ('N/2 of Lot 2' with divisions suppressed: L2 plus the whole N/2 as QQs)",
                          key="DEFUSE|TractParser.parse|cut-inner-group", where=common.loc(tp, x))
    ctx.floor('duplicate scans and text cuts examined', n, 3)


def ilots_after_l(ctx):
    """the integer of a lot is taken from the part after the LAST 'L': a lot
    division ('N2 of L7') has digits and letters of its own in front"""
    il = ctx.repo.func('Tract.ilots')
    src = norm(il.node.body[-1]).replace('"', "'")
    after_l = any(x in src for x in (".split('L')[-1]", ".rsplit('L', 1)[-1]", ".rpartition('L')[2]", ".rpartition('L')[-1]"))
    all_digits = any(isinstance(c, (ast.GeneratorExp, ast.ListComp)) and isinstance(c.generators[0].iter, ast.Name)
                     and any(isinstance(x, ast.Attribute) and x.attr in ('isdigit', 'isdecimal', 'isnumeric') for x in ast.walk(c))
                     for c in ast.walk(il.node)) or "re.sub('\\\\D'" in src or "re.sub('[^0-9]'" in src
    prefix_only = any(isinstance(c, ast.Call) and isinstance(c.func, ast.Attribute)
                      and c.func.attr in ('lstrip', 'strip', 'removeprefix') for c in ast.walk(il.node)) \
        or any(isinstance(c, ast.Subscript) and isinstance(c.slice, ast.Slice) and norm(c.slice) in ('1:',) for c in ast.walk(il.node))
    # decided on lot names the parser itself produces (plain, half division, nested division)
    from ..streval import StrEval, Unsupported
    comp = next((c for c in ast.walk(il.node) if isinstance(c, (ast.ListComp, ast.GeneratorExp))
                 and len(c.generators) == 1 and isinstance(c.generators[0].target, ast.Name)
                 and norm(c.generators[0].iter) == 'self.lots' and not c.generators[0].ifs), None)
    if comp is not None and not after_l and not all_digits and not prefix_only:
        var = comp.generators[0].target.id
        wrong = None
        try:
            # divisions first: an expression that cannot be evaluated on a plain lot (a capture group) may
            # still fail decidably on a division (`rx.match('N2 of L7')` is None)
            for lot, want in (('N2 of L7', 7), ('E2SW of L4', 4), ('S2N2 of L10', 10), ('L1', 1), ('L12', 12)):
                got = StrEval(ctx, il, env={var: lot}).ev(comp.elt)
                if got != want:
                    wrong = (lot, got, want)
                    break
        except Unsupported as e:
            if str(e).startswith(('ValueError', 'AttributeError', 'IndexError')):
                wrong = (lot, str(e), want)
            else:
                ctx.undecided('DEFUSE', "ilots reads the number after the 'L' only", f"expression not evaluated ({e})")
                return
        ctx.check(wrong is None, 'DEFUSE', "ilots reads the number after the 'L' only", 'witness lot names give their own number',
                  f"for the lot {wrong[0]!r} (a lot division, as the parser writes it) `{norm(comp.elt)[:60]}` gives {wrong[1]!r}, "
                  f"not {wrong[2]}: ilots no longer mirrors lots whenever a division with a half is present" if wrong else '',
                  key="DEFUSE|Tract.ilots|witness", where=il.loc)
        return
    ctx.tri(after_l, (all_digits or prefix_only) and not after_l, 'DEFUSE', "ilots reads the number after the 'L' only",
            detail_bad=("ilots collects every digit of the lot string: the '2' of a half division ('N2 of L7') ends up in "
                        "the lot number (27), so ilots no longer mirrors lots" if all_digits else
                        "ilots only removes a leading 'L': for a lot division ('N2 of L1') int() gets 'N2 of L1' and raises "
                        "ValueError, also from every export that includes 'ilots'"),
            key="DEFUSE|Tract.ilots|" + ('digits' if all_digits else 'prefix'), where=il.loc)


def check(ctx):
    ctx.consult('tract/tract_parse.py', 'tract/tract.py', 'unpack/unpackers.py', 'rgxlib/lots.py', 'rgxlib/aliquots.py')
    fi = ctx.repo.func('TractParser.parse')
    mlwa = ctx.fold.get('rgxlib.lots', 'multilot_with_aliquot_regex')
    aunp = ctx.fold.get('rgxlib.aliquots', 'aliquot_unpacker_regex')
    ctx.attempt(_inc, 'RX-LANG', 'multilot_with_aliquot_regex', F.LOT_WITH_ALIQUOT, mlwa, 'lot groups with leading aliquot / acreage')
    ctx.attempt(_separator_rule, fi, mlwa, aunp)
    ctx.attempt(_rest_of_check, fi, mlwa, aunp)


def _separator_rule(ctx, fi, mlwa, aunp):
    # separator rule
    loops = [n for n in fi.node.body if isinstance(n, ast.While)]
    if not loops:
        # the extraction may live in a helper that TractParser.parse calls with the pattern and the separator
        ctx.undecided('SEP', 'extraction loops of TractParser.parse', 'no while-loop at the top level of parse(): the extraction was moved / rewritten')
        return
    ctx.floor('extraction loops', len(loops), 2)
    seps = []
    for loop, rv in zip(loops[:2], (mlwa, aunp)):
        rebuilt = [n for n in ast.walk(loop) if isinstance(n, ast.Assign) and norm(n.targets[0]) == 'remaining_text'
                   and isinstance(n.value, ast.JoinedStr)]
        if len(rebuilt) != 1:
            ctx.undecided('SEP', f"extraction loop over {rv.name}", 'remaining_text rebuild not recognised')
            continue
        consts = [v.value for v in rebuilt[0].value.values if isinstance(v, ast.Constant)]
        fvals = [v for v in rebuilt[0].value.values if isinstance(v, ast.FormattedValue)]
        sep = ''.join(consts)
        seps.append(sep)
        ok = len(fvals) == 2 and len(consts) == 1 and sep != ''
        ctx.tri(ok, len(fvals) == 2 and sep == '', 'SEP', f"extraction loop over {rv.name}: remnants are joined with a non-empty separator",
                f"separator {sep!r}", "the text before and after an extracted element is glued together: "
                "neighbouring elements fuse into new matches", key=f"SEP|TractParser.parse|{rv.name}|nonempty",
                where=common.loc(fi, rebuilt[0]))
        if sep:
            for rname, r2 in (('multilot_with_aliquot_regex', mlwa), ('aliquot_unpacker_regex', aunp)):
                L = common.lang(ctx, r2)
                ctx.check(not L.search(sep), 'SEP', f"separator {sep!r} cannot be matched by {rname}",
                          detail_bad=f"{rname} matches inside the separator {sep!r}: the loop re-extracts its own placeholder",
                          key=f"SEP|{rv.name}|{rname}|nomatch")
            # the separator breaks an aliquot chain: X<sep>Y is not one aliquot
            La = common.lang(ctx, aunp)
            ctx.check(not La.fullmatch(f"N½{sep}NE¼"), 'SEP', f"separator {sep!r} splits aliquot chains",
                      detail_bad="aliquots on both sides of an extracted lot would be read as one chain",
                      key=f"SEP|{rv.name}|split")
        # slices: text before match start, after match end
        t = ' '.join(norm(s) for s in ast.walk(loop) if isinstance(s, ast.stmt))
        ok = ('remaining_text[:lot_aliq_mo.start()]' in t and 'remaining_text[lot_aliq_mo.end():]' in t) or \
             ('aliq_mo.start(), aliq_mo.end()' in t and 'remaining_text[:start]' in t and 'remaining_text[end:]' in t)
        ctx.shape(ok, 'SEP', f"loop over {rv.name} removes exactly the matched span")
        srch = [c for c in ast.walk(loop) if isinstance(c, ast.Call) and isinstance(c.func, ast.Attribute) and c.func.attr == 'search']
        ctx.shape(bool(srch) and norm(srch[0].func.value) == rv.name and norm(srch[0].args[0]) == 'remaining_text', 'SEP',
                  f"loop searches remaining_text with {rv.name}")
    ctx.shape(len(set(seps)) == 1, 'SEP', 'both loops use the same separator')


def _rest_of_check(ctx, fi, mlwa, aunp):
    t = ' '.join(norm(s) for s in walk_local(fi.node) if isinstance(s, ast.stmt))
    ctx.shape("leading_aliquot = lot_aliq_mo['aliquot']" in t and "lot_text = lot_aliq_mo['lots']" in t, 'DEFUSE',
              "lot blocks come from the 'lots' group, the division from the 'aliquot' group")
    gf = common.group_facts(ctx, mlwa)
    ctx.check('aliquot' in gf and gf['aliquot'].optional and 'lots' in gf and not gf['lots'].optional, 'RX-GROUPS',
              'multilot_with_aliquot_regex: optional aliquot, mandatory lots', detail_bad="group structure changed",
              key="RX-GROUPS|multilot_with_aliquot_regex")
    # lot divisions
    ifs = [n for n in walk_local(fi.node) if isinstance(n, ast.If) and 'leading_aliquot' in norm(n.test)]
    ok = any('suppress_lot_divs' in norm(n.test) and 'leading_aliquot' in norm(n.test) for n in ifs)
    nosupp = bool(ifs) and not any('suppress_lot_divs' in norm(x) for n in ifs for x in [n.test] + [t for t, _ in guards(n)])
    ctx.tri(ok, nosupp, 'DEFUSE', 'a leading aliquot qualifies lots only when divisions are not suppressed and one was found',
            detail_bad=f"the division is applied under {[norm(n.test) for n in ifs]}: suppress_lot_divs is ignored",
            key="DEFUSE|TractParser.parse|divguard")
    ctx.shape('for idx in range(unpacker.aliquots_through)' in t
              and "new_lots[idx] = f'{leading_aliquot} of {new_lots[idx]}'" in t.replace('"', "'"), 'DEFUSE',
              'the division is applied to the first aliquots_through lots of the block')
    ctx.shape('self.lots.extend(new_lots)' in t and 'self.qqs.extend(new_qqs)' in t
              and 'self.aliquots_whole.append(remove_fractions(aliq_block))' in t, 'DEFUSE',
              'results are accumulated in reading order (extend/append only)')
    ctx.shape('for txt in aliquot_blocks' in t and 'parse_aliquot(txt, qq_depth_min, qq_depth_max, qq_depth, break_halves)' in t,
              'DEFUSE', 'every aliquot block is parsed on its own with the locked depth settings')
    ctx.shape("if all_mo['context'] is None" in t and 'aliquot_blocks.append(_ALL)' in t, 'DEFUSE',
              "'ALL' is an aliquot only without trailing context")
    lq = ctx.repo.func('Tract.lots_qqs')
    ctx.shape(norm(lq.node.body[-1]) == 'return self.lots + self.qqs', 'DEFUSE', 'lots_qqs == lots + qqs')
    il = ctx.repo.func('Tract.ilots')
    ctx.shape('for lt in self.lots' in norm(il.node.body[-1]), 'DEFUSE', 'ilots mirrors lots element-wise')
    ilots_after_l(ctx)
    ctx.attempt(_dups)
    ctx.attempt(_unpack_lots)
    ctx.attempt(_word_lot_count_after_the_lots)
    ctx.attempt(_every_unpacked_acreage_is_recorded)
    ctx.attempt(_acreage)
    ctx.attempt(forward.check_all, module_suffixes=('unpack.unpackers', 'tract.tract_parse', 'tract.tract'))
    ctx.attempt(common.flag_prefix_tests)
    ctx.attempt(dup_scan_and_cut)
    ctx.attempt(common.dedup_idioms, [f for f in ctx.repo.funcs.values() if f.module.name.endswith(('tract.tract_parse', 'unpack.unpackers'))])
    ctx.attempt(lockdown, ctx.repo.func('Tract.parse'), only=('include_lot_divs', 'suppress_lot_divs', 'parse_qq'))
    from .c13 import precedence
    ctx.attempt(precedence, ctx.repo.func('Tract.parse'), only=('include_lot_divs', 'suppress_lot_divs', 'parse_qq'))
    ctx.attempt(common.embedded_case_consistency, modules=('rgxlib.lots', 'rgxlib.aliquots'))
    ctx.attempt(_chain_language)
    ctx.attempt(half_plus_q_contexts, ELEMENT_SEPARATORS)
    ctx.attempt(lookahead_accepts_separators)
    ctx.attempt(common.parallel_shapes, [f for f in ctx.repo.funcs.values() if f.module.name.endswith(('tract.tract_parse', 'tract.tract', 'unpack.unpackers'))])
    ctx.attempt(common.config_words, plss=('suppress_lot_divs', 'parse_qq'), tract=('suppress_lot_divs', 'parse_qq'))
    ctx.attempt(common.cut_out_spans, ctx.repo.func('TractParser.parse'))
    ctx.attempt(common.stale_captures, [f for f in ctx.repo.funcs.values() if f.module.name.endswith(('tract.tract_parse', 'tract.tract', 'unpack.unpackers', 'tract.tract_preprocess'))])


def _dups(ctx):
    gf = ctx.repo.func('TractParser.gen_flags')
    fd = ctx.repo.func('TractParser.gen_flags.find_duplicates')
    loops = [n for n in fd.node.body if isinstance(n, ast.For)]
    if len(loops) != 1 or not (isinstance(loops[0].iter, ast.Call) and dotted(loops[0].iter.func) == 'enumerate'):
        raise AnalysisError("find_duplicates: enumerate loop not found")
    loop = loops[0]
    start = 0
    for k in loop.iter.keywords:
        if k.arg == 'start':
            start = ctx.fold.eval(k.value, {}, fd.module.name)
    if len(loop.iter.args) > 1:
        start = ctx.fold.eval(loop.iter.args[1], {}, fd.module.name)
    ivar = norm(loop.target.elts[0])
    tails = [n for n in ast.walk(loop) if isinstance(n, ast.Compare) and isinstance(n.ops[0], ast.In)
             and isinstance(n.comparators[0], ast.Subscript) and isinstance(n.comparators[0].slice, ast.Slice)]
    if len(tails) != 1:
        raise AnalysisError("find_duplicates: `elem in lst[...:]` test not found")
    lo = tails[0].comparators[0].slice.lower
    lf = lin(lo) if lo is not None else Lin()
    if lf is None:
        raise AnalysisError("find_duplicates: non-linear tail bound")
    d = lf - Lin({ivar: 1})
    ok = d.is_const() and d.const == 1 - start and tails[0].comparators[0].slice.upper is None
    ctx.check(ok, 'DEFUSE', 'find_duplicates compares each element with ALL later elements',
              f"enumerate(start={start}), tail lst[{norm(lo) if lo else ''}:]",
              f"with enumerate(start={start}) the tail `lst[{norm(lo) if lo else ''}:]` starts "
              f"{d.const - (1 - start) if d.is_const() else '?'} element(s) too late/early: an element repeated "
              f"right next to itself is not reported", key="DEFUSE|find_duplicates|tail", where=common.loc(fd, tails[0]))
    # an early `if i == <last>: break` must not stop before the last pair
    brk = [n for n in ast.walk(loop) if isinstance(n, ast.If) and any(isinstance(x, ast.Break) for x in n.body)
           and isinstance(n.test, ast.Compare) and isinstance(n.test.ops[0], ast.Eq) and norm(n.test.left) == ivar]
    if brk:
        bound = brk[0].test.comparators[0]
        cfg, rd = flow.analyse(fd.node)
        forms = []
        if isinstance(bound, ast.Name):
            for d in rd.reaching(cfg.node_of(brk[0]), bound.id):
                v = rd.defs[d]
                forms.append(lin(v) if isinstance(v, ast.AST) else None)
        else:
            forms.append(lin(bound))
        lenname = f"len({norm(loop.iter.args[0])})"
        for lf2 in forms:
            if lf2 is None:
                ctx.undecided('DEFUSE', 'find_duplicates early break', 'bound not linear')
                continue
            d2 = lf2 - Lin({lenname: 1})
            if not d2.is_const():
                ctx.undecided('DEFUSE', 'find_duplicates early break', f"bound {lf2!r} not in terms of {lenname}")
                continue
            # 1-based position of the last element that still has a later neighbour: len - 1 + (start - 1) ... stop allowed from len + start - 1
            ok_b = d2.const >= start - 1
            ctx.check(ok_b, 'DEFUSE', 'find_duplicates: the early break only skips the very last element',
                      f"break at {ivar} == {lf2!r} with enumerate(start={start})",
                      f"the loop stops at {ivar} == {lf2!r} (enumerate start {start}): the second-to-last element is never "
                      f"compared with the last, so a duplicate at the end of the list is not reported",
                      key="DEFUSE|find_duplicates|break", where=common.loc(fd, brk[0]))
    t = ' '.join(norm(s) for s in walk_local(gf.node) if isinstance(s, ast.stmt))
    ctx.shape('dup_lots = find_duplicates(self.lots)' in t and 'dup_qqs = find_duplicates(self.qqs)' in t
              and 'if dup_lots' in t and 'if dup_qqs' in t, 'DEFUSE',
              'duplicates are looked for in both lots and aliquots')
    n = pair_sites(ctx, [gf])
    ctx.floor('gen_flags flag sites', n, 2)
    tp = ctx.repo.func('TractParser.parse')
    ctx.shape('self.gen_flags()' in [norm(s) for s in tp.node.body], 'DEFUSE', 'parse() always runs gen_flags()')


def _unpack_lots(ctx):
    fi = ctx.repo.func('LotUnpacker.unpack_lots')
    cfg, rd = flow.analyse(fi.node)
    # the word-lot bookkeeping reads THIS iteration's through flag
    tests = [n for n in walk_local(fi.node) if isinstance(n, ast.If) and 'word_lot_rightmost' in norm(n.test)
             and 'found_through' in norm(n.test)]
    if len(tests) != 1:
        raise AnalysisError("unpack_lots: word-lot bookkeeping test not found")
    node = cfg.node_of(tests[0])
    defs = rd.reaching(node, 'found_through')
    vals = {norm(rd.defs[d]) if isinstance(rd.defs[d], ast.AST) else str(rd.defs[d]) for d in defs}
    ok = len(defs) == 1 and all(v.startswith('thru_rightmost(') for v in vals)
    ctx.check(ok, 'DEFUSE', "unpack_lots: the 'Lot' word bookkeeping uses this iteration's through flag",
              'found_through = thru_rightmost(lot_mo) reaches the test alone',
              f"the test `{norm(tests[0].test)}` can see found_through from {sorted(vals)}: it reads the previous "
              f"iteration's value, so 'N/2 of Lot 1 - Lot 3' divides the wrong number of lots",
              key="DEFUSE|unpack_lots|found_through", where=common.loc(fi, tests[0]))
    ctx.shape(norm(tests[0].test) == "lot_mo['word_lot_rightmost'] is not None and (not found_through)", 'DEFUSE',
              "a repeated 'Lot' word counts unless it follows 'through'")
    t = ' '.join(norm(s) for s in walk_local(fi.node) if isinstance(s, ast.stmt))
    ctx.shape('word_lot_encountered = len(working_lot_list)' in t
              and 'self.aliquots_through = len(working_lot_list) - word_lot_encountered' in t, 'DEFUSE',
              'aliquots_through = lots left of the second Lot word')
    # acreage recorded for every lot kind: not nested under the found_through branch
    acre = [n for n in walk_local(fi.node) if isinstance(n, ast.If) and norm(n.test) == 'lot_acreage is not None']
    if len(acre) != 1:
        raise AnalysisError("unpack_lots: acreage block not found")
    gs = [norm(tt) for tt, pol in guards(acre[0])]
    ctx.check(not any('found_through' in g for g in gs), 'DEFUSE',
              'unpack_lots records a stated acreage whether the lot is single, ends or starts a range',
              'acreage block is independent of the through branch',
              f"the acreage block is nested under {gs}: an acreage on the lot that starts a range is dropped",
              key="DEFUSE|unpack_lots|acreage-branch", where=common.loc(fi, acre[0]))
    body = ' '.join(norm(s) for s in ast.walk(acre[0]) if isinstance(s, ast.stmt))
    ctx.shape("lot_name = f'L{lot_num}'" in body.replace('"', "'") and 'self.lot_acres[lot_name] = lot_acreage' in body,
              'DEFUSE', 'the acreage is stored under the lot just found')
    n = pair_sites(ctx, [fi])
    ctx.floor('unpack_lots flag sites', n, 2)
    ctx.shape("working_lot_list = [f'L{lot_num}' for lot_num in working_lot_list]" in t.replace('"', "'"), 'DEFUSE',
              "lots are rendered 'L<n>'")


def _acreage(ctx):
    fi = ctx.repo.func('unpackers:get_rightmost_acreage')
    t = ' '.join(norm(s) for s in walk_local(fi.node) if isinstance(s, ast.stmt))
    ctx.shape('i = start_of_rightmost(multilot_mo)' in t and 'j = multilot_mo.end(0)' in t
              and 'lot_acres_unpacker_regex.search(multilot_mo.string, pos=i, endpos=j)' in t, 'DEFUSE',
              'the acreage is searched between the start of the rightmost element and the end of the match')
    ctx.shape("acreage_mo['acreage']" in t, 'DEFUSE', "acreage text comes from the 'acreage' group")
    rv = ctx.fold.get('rgxlib.lots', 'lot_acres_unpacker_regex')
    L = common.lang(ctx, rv)
    for s in ('1(38.29)', '12 [40.00]', '3 (40)'):
        ctx.check(L.fullmatch(s), 'RX-LANG', f"lot_acres_unpacker_regex matches {s!r}",
                  detail_bad=f"{s!r} no longer recognised as lot + acreage", key=f"RX-LANG|lot_acres_unpacker_regex|{s}")
    # ... and is FOUND where get_rightmost_acreage looks for it: from the start of the lot element (the word
    # 'Lot' / 'L' or the intervener) - the number may stand directly behind a letter or a comma
    for s in ('L1(38.29)', 'Lot5[39.51]', 'Lots 1(40.00)', ', 2 (31.3)', ', L3(40)', ' & Lot 4 [39.1]'):
        found = any(e_ == len(s) for _s, e_ in L.search_spans(s))
        ctx.check(found, 'RX-LANG', f"lot_acres_unpacker_regex finds the acreage in {s!r}",
                  detail_bad=f"searched in {s!r} (a lot element as multilot_regex matches it), the pattern no longer finds the "
                             f"acreage: the stated acreage of that lot is silently dropped from lot_acres",
                  key=f"RX-LANG|lot_acres_unpacker_regex|search|{s}")
    for ch in '[]()':
        ctx.shape(f"acreage_string.replace('{ch}', '')" in t, 'DEFUSE', f"brackets {ch!r} stripped from the acreage")
    tp = ctx.repo.func('TractParser.parse')
    t = ' '.join(norm(s) for s in walk_local(tp.node) if isinstance(s, ast.stmt))
    ctx.shape('for lot_, acres_ in unpacker.lot_acres.items()' in t and 'self.lot_acres[lot_] = acres_' in t, 'DEFUSE',
              "each block's acreages are merged into the tract's lot_acres")


def _word_lot_count_after_the_lots(ctx):
    """`word_lot_encountered = len(working_lot_list)` counts the lots seen so
    far INCLUDING the one(s) just read (a range adds several): the statement
    has to come after everything this pass adds to the list, and take the
    plain length.  Counted earlier, a following range is not included and the
    leading aliquot reaches too far ('N/2 of Lot 1, Lots 3 - 5')."""
    fi = ctx.repo.func('LotUnpacker.unpack_lots')
    loops = [l for l in fi.node.body if isinstance(l, (ast.While, ast.For))]
    n = 0
    for lp in loops:
        body = lp.body
        adds = [i for i, st in enumerate(body) if any(
            isinstance(c, ast.Call) and isinstance(c.func, ast.Attribute) and c.func.attr in ('append', 'extend', 'appendleft', 'extendleft', 'insert')
            and isinstance(c.func.value, ast.Name) and 'lot_list' in c.func.value.id for c in ast.walk(st))]
        sets = [(i, a) for i, st in enumerate(body) for a in ast.walk(st) if isinstance(a, ast.Assign)
                and any(isinstance(t, ast.Name) and t.id == 'word_lot_encountered' for t in a.targets)]
        if not adds or not sets:
            continue
        n += 1
        early = [(i, a) for i, a in sets if i <= max(adds) and not any(j > i for j in []) and i < max(adds)]
        odd = [(i, a) for i, a in sets if not (isinstance(a.value, ast.Call) and dotted(a.value.func) == 'len')]
        bad = early or odd
        ctx.tri(not bad, bool(bad) and all(isinstance(a.value, (ast.Call, ast.BinOp)) for _i, a in bad), 'ORDER',
                "unpack_lots: the 'Lot'-word count is taken after this pass's lots were added, as their plain number",
                detail_bad=(f"`{norm(bad[0][1])[:60]}` " + ("runs before the statement that adds this pass's lots (a range adds several): "
                            if early else "does not take the plain length of the list: ") +
                            "the number of lots the leading aliquot reaches is off - 'N/2 of Lot 1, Lots 3 - 5' divides Lot 3 too") if bad else '',
                key="ORDER|unpack_lots|word-lot-count", where=common.loc(fi, bad[0][1]) if bad else None)
    if n == 0:
        ctx.undecided('ORDER', "unpack_lots: the 'Lot'-word count", 'bookkeeping not recognised')


def _every_unpacked_acreage_is_recorded(ctx):
    """TractParser.parse copies every acreage the LotUnpacker found into
    `lot_acres` (a repeated one additionally raises dup_lot_acreage).  A
    `continue` / condition in front of the store drops stated acreages - e.g.
    every acreage of a lot block that has a leading aliquot, although only
    its first lots are divided ('N/2 of Lot 1, Lot 2(39.50)')."""
    fi = ctx.repo.func('TractParser.parse')
    n = 0
    for lp in walk_local(fi.node):
        if not (isinstance(lp, ast.For) and 'lot_acres' in norm(lp.iter)):
            continue
        stores = [a for a in ast.walk(lp) if isinstance(a, ast.Assign) and any(
            isinstance(t, ast.Subscript) and 'lot_acres' in norm(t.value) for t in a.targets)]
        if not stores:
            continue
        n += 1
        st = stores[0]
        gs = [(t, pol) for t, pol in guards(st, stop=lp)]
        # statements of the loop body in front of the store that can leave the iteration
        top = st
        while getattr(top, '_parent', None) is not lp:
            top = top._parent
        idx = lp.body.index(top)
        skips = [x for s_ in lp.body[:idx] for x in ast.walk(s_) if isinstance(x, (ast.Continue, ast.Break))]
        ctx.tri(not gs and not skips, bool(gs or skips), 'SINK', 'TractParser.parse records every acreage the unpacker found',
                detail_bad=(f"the store `{norm(st)[:40]}` " + (f"is skipped by a `{type(skips[0]).__name__.lower()}` under "
                            f"`{norm(guards(skips[0], stop=lp)[0][0])[:50] if guards(skips[0], stop=lp) else '?'}`" if skips else
                            f"runs only under `{norm(gs[0][0])[:50]}`") +
                            ": stated acreages are dropped from lot_acres (all of a block with a leading aliquot, also for the lots the "
                            "aliquot does not reach)") if (gs or skips) else '',
                key="SINK|TractParser.parse|acreage-store-conditional", where=common.loc(fi, st))
    if n == 0:
        ctx.undecided('SINK', 'TractParser.parse records every acreage the unpacker found', 'acreage transfer loop not recognised')
