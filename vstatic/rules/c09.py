"""
C09 -- every tract is well-formed and traceable to its source.
"""

import ast

from .. import AnalysisError, flow
from ..srcmodel import walk_local, norm, dotted, guards, literals
from . import common, forward
from . import c12

from .c01 import emitted_trs_accepted

META = {
    'explanation': (
        "Delegation chain Tract.<attr> -> TRS.<attr> -> trs dict key (same "
        "name at each hop), 'trs' rebuilt from its parts, strictness of the "
        "decomposition (shared with C12), only error placeholders - never the "
        "undefined ones - staged by the marker walk, and the hand-down chain "
        "of orig_desc / source / orig_index from PLSSDesc through PLSSParser "
        "to each Tract (counter from 0, +1 per tract)."
        ' Also: Tract.__init__ stores source / orig_desc / orig_index as given (no truthiness filter), emitted Twp/Rge digits fit the TRS unpacker, parallel twp/rge/sec clauses are pure.'
        ' Round 7: the original text is recorded before any rewriting; the source tag is not truth-filtered on its way to the parser; a tract made by copying gets its own orig_index.'
        ' Round 8: a keyword dict filtered by truthiness does not drop the source tag; trs_to_dict hands out a fresh dict.'
        " Round 9: components handed to construct_trs are never an empty slice ('' means undefined)."
        ' Round 11: the dict of trs_to_dict may be built by a helper it calls.'
        ' Round 12: the break-down dict may be put together by update(zip(...)) / subscript stores.'),
    'families': ['SIB', 'DEFUSE', 'RX-LANG', 'TBL', 'FORWARD', 'DEADPARAM', 'SIB-DEFAULTS'],
}

ATTRS = ('trs', 'twp', 'twp_num', 'twp_ns', 'rge', 'rge_num', 'rge_ew', 'sec', 'sec_num',
         'twp_undef', 'rge_undef', 'sec_undef')


def check(ctx):
    ctx.consult('plssdesc/plss_parse.py', 'trs/trs.py', 'tract/tract.py', 'plssdesc/plssdesc.py')
    tract = ctx.repo.cls('tract.tract:Tract')
    trs = ctx.repo.cls('trs.trs:TRS')
    # keys produced by trs_to_dict
    t2d = ctx.repo.func('TRS.trs_to_dict')
    keys = set()
    scopes = [t2d.node]
    from .. import flow as _flow
    for c in walk_local(t2d.node):       # ... or by a helper it calls (`return TRS._compile_dict(...)`)
        if isinstance(c, ast.Call) and _flow.RESOLVER:
            node_ = _flow.RESOLVER(dotted(c.func) or '', c, t2d.node)
            if node_ is not None and node_ is not t2d.node:
                scopes.append(node_)
    for sc in scopes:
        for n in ast.walk(sc):
            if isinstance(n, ast.Dict) and len(n.keys) >= 10 and not keys:
                keys = {k.value for k in n.keys if isinstance(k, ast.Constant)}
    if len(keys) < 8:
        # the dict may be put together piecemeal: `d['k'] = ..`, `d.update(zip(('k1', 'k2'), parts))`, dict(k=..)
        loose = set()
        for sc in scopes:
            for n in ast.walk(sc):
                if isinstance(n, ast.Subscript) and isinstance(n.ctx, ast.Store) and isinstance(n.slice, ast.Constant) \
                        and isinstance(n.slice.value, str):
                    loose.add(n.slice.value)
                elif isinstance(n, ast.Dict):
                    loose |= {k.value for k in n.keys if isinstance(k, ast.Constant) and isinstance(k.value, str)}
                elif isinstance(n, ast.Call) and dotted(n.func) == 'zip' and n.args and isinstance(n.args[0], (ast.Tuple, ast.List)):
                    loose |= {e.value for e in n.args[0].elts if isinstance(e, ast.Constant) and isinstance(e.value, str)}
                elif isinstance(n, ast.Call) and dotted(n.func) == 'dict':
                    loose |= {k.arg for k in n.keywords if k.arg}
        keys = loose
    keys_known = len(keys) >= 8
    if not keys_known:
        ctx.undecided('SIB', 'trs_to_dict produces every key the properties read', 'how the dict is put together was not recognised')
    for a in ATTRS:
        if a != 'trs' and not a.endswith('_undef') or a == 'trs':
            pass
        tp = tract.methods.get(a)
        if tp is not None and a != 'trs':
            body = norm(tp.node.body[-1])
            other = [x for x in ATTRS + ('twprge',) if x != a and body == f"return self.__trs.{x}"]
            ctx.tri(body == f"return self.__trs.{a}", bool(other), 'SIB', f"Tract.{a} -> TRS.{a}",
                    detail_bad=f"Tract.{a} returns the TRS's `{other[0] if other else ''}`", key=f"SIB|Tract.{a}")
        rp = trs.methods.get(a)
        if rp is None:
            ctx.violation('SIB', f"TRS.{a}", "property missing", key=f"SIB|TRS.{a}|missing")
            continue
        getter = rp.node
        body = norm(getter.body[-1])
        other = [x for x in ATTRS if x != a and body == f"return self.__trs_dict['{x}']"]
        ctx.tri(body == f"return self.__trs_dict['{a}']", bool(other), 'SIB', f"TRS.{a} -> dict key '{a}'",
                detail_bad=f"TRS.{a} reads key '{other[0] if other else ''}'", key=f"SIB|TRS.{a}")
        if keys_known:
          ctx.check(a in keys, 'SIB', f"trs_to_dict produces key '{a}'",
                  detail_bad=f"key {a!r} missing from the decomposition", key=f"SIB|trs_to_dict|{a}")
    # Tract.trs getter (first definition is the property getter)
    tget = [st for st in tract.node.body if isinstance(st, ast.FunctionDef) and st.name == 'trs']
    ctx.shape(bool(tget) and norm(tget[0].body[-1]) == 'return self.__trs.trs', 'SIB', 'Tract.trs -> TRS.trs')
    tset = [st for st in tract.node.body if isinstance(st, ast.FunctionDef) and st.name == 'trs'][-1]
    ctx.shape('self.__trs = TRS(new_trs)' in ' '.join(norm(s) for s in tset.body), 'SIB',
              'Tract.trs setter wraps the value in a TRS')
    for cls, ci in (('Tract', tract), ('TRS', trs)):
        f = ci.methods['twprge']
        b = norm(f.node.body[-1])
        want = "return self.__trs.twprge" if cls == 'Tract' else None
        if cls == 'Tract':
            ctx.shape(b == want, 'SIB', 'Tract.twprge -> TRS.twprge')
        else:
            v = f.node.body[-1].value
            ok = isinstance(v, ast.JoinedStr) and [norm(x.value) for x in v.values if isinstance(x, ast.FormattedValue)] \
                == ["self.__trs_dict['twp']", "self.__trs_dict['rge']"] \
                and not any(isinstance(x, ast.Constant) and x.value for x in v.values)
            ctx.shape(ok, 'SIB', 'TRS.twprge == twp + rge')
    # aliases
    for ci, nm in ((tract, 'Tract'), (trs, 'TRS')):
        al = {norm(st) for st in ci.node.body if isinstance(st, ast.Assign)}
        ctx.shape('ns = twp_ns' in al and 'ew = rge_ew' in al, 'SIB', f"{nm}.ns/.ew alias twp_ns/rge_ew")

    # strict decomposition (same rules as C12, necessary here too)
    c12.anchored_calls(ctx, c12.unpack_func(ctx), min_calls=1)
    rv = c12.unpacker(ctx)
    L = common.lang(ctx, rv)
    for s in ('154n97w114', '154n97w100', '1154n97w14', '154n97w1'):
        ctx.check(not L.fullmatch(s), 'RX-LANG-NEG', f"{s!r} does not decompose as a valid TRS",
                  detail_bad=f"{s!r} is read as a valid-looking Twp/Rge/Sec",
                  key=f"RX-LANG-NEG|unpacker|{s}")

    # the string and its decomposition cannot disagree (shared with C12)
    ctx.attempt(c12._siblings, t2d, ctx.repo.func('TRS.construct_trs'))
    ctx.attempt(_placeholders)
    ctx.attempt(_hand_down)
    ctx.attempt(forward.check_all, module_suffixes=('plssdesc.plss_parse', 'plssdesc.plssdesc', 'tract.tract', 'trs.trs'))
    ctx.attempt(emitted_trs_accepted)
    from .c15 import _escape                  # a tract's parts are read from a dict nobody else can edit
    ctx.attempt(_escape)
    ctx.attempt(common.clause_purity, [f for f in ctx.repo.funcs.values() if f.module.name.endswith(('trs.trs','tract.tract'))])
    ctx.attempt(common.parallel_shapes, [f for f in ctx.repo.funcs.values() if f.module.name.endswith(('trs.trs','tract.tract'))])


def _placeholders(ctx):
    for meth, const in (('ChunkParser.get_next_sec', '_ERR_SEC'), ('ChunkParser.get_next_twprge', '_ERR_TWPRGE')):
        fi = ctx.repo.func(meth)
        t = ' '.join(norm(s) for s in walk_local(fi.node) if isinstance(s, ast.stmt))
        ctx.tri(f"MasterConfig.{const}" in t and '_UNDEF' not in t, '_UNDEF' in t, 'TBL',
                f"{meth} falls back to the error placeholder {const}",
                detail_bad=f"{meth} stages an 'undefined' placeholder when nothing is left",
                key=f"TBL|{meth}|fallback")
    # no undefined placeholder anywhere in the description parser
    mod = ctx.repo.module('plssdesc.plss_parse')
    undef = [n for n in ast.walk(mod.tree) if isinstance(n, ast.Attribute) and n.attr.startswith('_UNDEF')]
    ctx.check(not undef, 'TBL', 'the description parser never stages an undefined placeholder',
              detail_bad=f"plss_parse.py uses {sorted({n.attr for n in undef})}: tracts of a parsed "
                         f"description can carry the 'undefined' Twp/Rge/Sec",
              key="TBL|plss_parse|undef")
    # prep_new_tract resets the used section to the error placeholder
    fi = ctx.repo.func('ChunkParser._parse_meaningful.prep_new_tract')
    t = ' '.join(norm(s) for s in fi.node.body)
    ctx.shape('self.working_sec = [MasterConfig._ERR_SEC]' in t, 'TBL',
              'a used section is replaced by the error placeholder')
    # trs = twprge + sec
    ct = ctx.repo.func('PLSSParser.construct_tracts')
    ok = False
    for n in walk_local(ct.node):
        if isinstance(n, ast.Assign) and norm(n.targets[0]) == 'trs' and isinstance(n.value, ast.JoinedStr):
            parts = [norm(v.value) for v in n.value.values if isinstance(v, ast.FormattedValue)]
            if parts == ["tract_data['twprge']", 'sec'] and not any(
                    isinstance(v, ast.Constant) and v.value for v in n.value.values):
                ok = True
    ctx.shape(ok, 'DEFUSE', "construct_tracts: trs = f\"{twprge}{sec}\"")
    # values flowing into twprge: twprge_natural_to_short(unpack_twprge(mo))
    nm = ctx.repo.func('TwpRgeFinder.findall_matching_twprge.new_match')
    t = ' '.join(norm(s) for s in nm.node.body)
    ctx.shape('unpack_twprge(mo)' in t and 'twprge_natural_to_short(twprge)' in t, 'DEFUSE',
              'Twp/Rge markers carry twprge_natural_to_short(unpack_twprge(match))')


def _kwargs(call):
    return {k.arg: norm(k.value) for k in call.keywords if k.arg}


def _hand_down(ctx):
    ct = ctx.repo.func('PLSSParser.construct_tracts')
    calls = [c for c in walk_local(ct.node) if isinstance(c, ast.Call) and dotted(c.func) == 'Tract']
    if len(calls) != 1:
        raise AnalysisError("construct_tracts: expected one Tract(...) call")
    from .c13 import _consumer_kwargs
    call_, kwx = _consumer_kwargs(ctx, ct, 'Tract')
    wrong_src = {'orig_desc': {'self.text'}, 'source': set(), 'orig_index': set(), 'config': set(), 'parse_qq': set()}
    for k, want in (('source', 'self.source'), ('orig_desc', 'self.orig_text'),
                    ('orig_index', 'self.next_tract_uid'), ('config', 'self.handed_down_config'),
                    ('parse_qq', 'self.parse_qq')):
        if k not in kwx:
            ctx.undecided('DEFUSE', f"construct_tracts: Tract({k}=...)", 'keyword not found')
            continue
        pv_k = flow.provenance(ct.node, kwx[k])
        attrs = flow.prov_attrs(pv_k)
        if k == 'orig_index' and want not in attrs and any(p_[0] in ('iter', 'unpack') for p_ in pv_k):
            ctx.violation('DEFUSE', f"construct_tracts: Tract({k}=...) derives from {want}",
                          f"Tract receives orig_index={norm(kwx[k])}, a loop position, not the running counter: the tracts that one "
                          f"multi-section expands into share an index and later tracts are numbered too low",
                          key=f"DEFUSE|construct_tracts|{k}", where=common.loc(ct, calls[0]))
            continue
        ctx.tri(want in attrs, bool(attrs & wrong_src[k]) and want not in attrs, 'DEFUSE',
                f"construct_tracts: Tract({k}=...) derives from {want}",
                detail_bad=f"Tract receives {k}={norm(kwx[k])}, derived from {sorted(attrs)} (not {want}): "
                           f"the tract records the preprocessed text instead of the original",
                key=f"DEFUSE|construct_tracts|{k}")
    args = [norm(a) for a in calls[0].args]
    ctx.shape(args[:2] == ['desc', 'trs'], 'DEFUSE', 'construct_tracts: Tract(desc, trs, ...)')
    # '' and None MEAN "undefined" to TRS.construct_trs / from_twprgesec: a component cut out of the
    # staged Twp/Rge by slicing is '' whenever that string is an error placeholder (no 'n' / 's' to
    # cut at), and the tract of a PARSED description would then carry an undefined component
    mod_ = ctx.repo.module('plssdesc.plss_parse')
    for f2 in ctx.repo.funcs.values():
        if f2.module is not mod_:
            continue
        for c_ in walk_local(f2.node):
            if isinstance(c_, ast.Call) and (dotted(c_.func) or '').split('.')[-1] in ('construct_trs', 'from_twprgesec'):
                sliced = []
                for a_ in list(c_.args) + [k.value for k in c_.keywords]:
                    exprs = [a_]
                    if isinstance(a_, ast.Name):
                        for y in walk_local(f2.node):
                            if isinstance(y, ast.Assign):
                                for t_ in y.targets:
                                    if isinstance(t_, ast.Name) and t_.id == a_.id:
                                        exprs.append(y.value)
                                    elif isinstance(t_, ast.Tuple) and any(isinstance(e_, ast.Name) and e_.id == a_.id for e_ in t_.elts) \
                                            and isinstance(y.value, ast.Tuple):
                                        exprs += list(y.value.elts)
                    if any(isinstance(x, ast.Subscript) and isinstance(x.slice, ast.Slice) for e_ in exprs for x in ast.walk(e_)):
                        sliced.append(norm(a_))
                ctx.check(not sliced, 'TBL', f"{f2.qualname}: components handed to {dotted(c_.func)} are never an empty slice",
                          detail_bad=f"`{norm(c_)[:70]}` receives {sliced}, cut out of a longer string by slicing: for the error Twp/Rge "
                                     f"placeholder ('XXXzXXXz' has no 'n' / 's') the slice is '', which construct_trs reads as UNDEFINED "
                                     f"- a tract of a parsed description then carries '___z...' and twp_undef=True",
                          key=f"TBL|{f2.qualname}|empty-slice-undef", where=common.loc(f2, c_))
    # a tract made by copying another one carries that one's orig_index
    for a_ in walk_local(ct.node):
        if isinstance(a_, ast.Assign) and isinstance(a_.targets[0], ast.Name):
            cp = [c for c in ast.walk(a_.value) if isinstance(c, ast.Call)
                  and (dotted(c.func) or '').split('.')[-1] in ('deepcopy', 'copy')]
            if not cp:
                continue
            nm_ = a_.targets[0].id
            appended = any(isinstance(c, ast.Call) and isinstance(c.func, ast.Attribute) and c.func.attr == 'append'
                           and c.args and norm(c.args[0]) == nm_ for c in walk_local(ct.node))
            renum = any(isinstance(x, ast.Assign) and norm(x.targets[0]) == f"{nm_}.orig_index" for x in walk_local(ct.node))
            if appended:
                ctx.check(renum, 'DEFUSE', f"construct_tracts: a copied tract (`{norm(cp[0])[:40]}`) gets its own orig_index",
                          detail_bad=f"`{nm_}` is a copy of an earlier tract and `{nm_}.orig_index` is never assigned: all tracts "
                                     f"cloned from one template share its orig_index",
                          key="DEFUSE|construct_tracts|copied-tract", where=common.loc(ct, a_))
    # counter
    incs = [n for n in walk_local(ct.node) if isinstance(n, ast.AugAssign) and norm(n.target) == 'self.next_tract_uid']
    loop_of = lambda n: next((p for p in _parents(n) if isinstance(p, ast.For)), None)
    ok = len(incs) == 1 and norm(incs[0]) == 'self.next_tract_uid += 1'
    bad = False
    if ok:
        # same (innermost) loop as the Tract() call, unconditional
        same = loop_of(incs[0]) is loop_of(calls[0])
        bad = not same or bool(guards(incs[0], stop=loop_of(incs[0])))
        ok = not bad
    # positive evidence: the counter is (re)computed from loop positions instead
    # of being advanced: comp_i + sec_i repeats values across components
    loop_vars = {x.id for lp in walk_local(ct.node) if isinstance(lp, ast.For)
                 for x in ast.walk(lp.target) if isinstance(x, ast.Name)}
    recomputed = []
    for n in walk_local(ct.node):
        if isinstance(n, ast.Assign) and norm(n.targets[0]) == 'self.next_tract_uid' and loop_of(n) is not None \
                and isinstance(n.value, ast.BinOp):
            pv_ = flow.provenance(ct.node, n.value)
            from_self = 'self.next_tract_uid' in flow.prov_attrs(pv_)
            names_ = {x.id for x in ast.walk(n.value) if isinstance(x, ast.Name)}
            if not from_self and names_ and names_ <= loop_vars:
                recomputed.append(n)
    if recomputed:
        bad = True
        ok = False
    ctx.tri(ok, bad or len(incs) > 1, 'DEFUSE', 'construct_tracts: next_tract_uid += 1 exactly once per tract',
            detail_bad="the creation counter is not advanced once per constructed tract (outside the per-section "
                       "loop, conditional, or twice): tracts share / skip orig_index values",
            key="DEFUSE|construct_tracts|counter")
    init = ctx.repo.func('PLSSParser.__init__')
    t = [norm(s) for s in walk_local(init.node) if isinstance(s, ast.Assign)]
    ctx.shape('self.next_tract_uid = 0' in t, 'DEFUSE', 'PLSSParser: counter starts at 0')
    ot = [n for n in walk_local(init.node) if isinstance(n, ast.Assign) and norm(n.targets[0]) == 'self.orig_text']
    bad_ot = bool(ot) and 'preprocessor' in norm(ot[0].value) or (bool(ot) and norm(ot[0].value) == 'self.text')
    ctx.tri('self.orig_text = text' in t and 'self.source = source' in t, bad_ot, 'DEFUSE',
            'PLSSParser keeps the original text and the source tag',
            detail_bad="orig_text is set from the preprocessed text", key="DEFUSE|PLSSParser.__init__|orig")
    # orig_text is the parameter itself, not reassigned before
    first_text_store = [n for n in walk_local(init.node) if isinstance(n, ast.Assign)
                        and any(norm(x) == 'text' for x in n.targets)]
    # a rebinding of `text` IN FRONT OF the statement that records it is what the tracts get as their original
    before = [n for n in first_text_store if ot and n.lineno < ot[0].lineno and norm(ot[0].value) == 'text'
              and norm(n.value) != 'text']
    ctx.tri(not first_text_store, bool(before), 'DEFUSE', 'PLSSParser.__init__ records the text it was given as the original',
            detail_bad=f"`{norm(before[0])[:70] if before else ''}` rewrites the text before `self.orig_text = text`: every tract's "
                       f"orig_desc is the rewritten copy, not the text the description was created from",
            key="DEFUSE|PLSSParser.__init__|orig-rebound", where=common.loc(init, before[0]) if before else None,
            why='`text` is rebound after it was recorded')
    # PLSSDesc.parse -> PLSSParser(text=self.orig_desc, source=self.source)
    pp = ctx.repo.func('PLSSDesc.parse')
    calls = [c for c in walk_local(pp.node) if isinstance(c, ast.Call) and dotted(c.func) == 'PLSSParser']
    if len(calls) != 1:
        raise AnalysisError("PLSSDesc.parse: expected one PLSSParser(...) call")
    kw = _kwargs(calls[0])
    ctx.tri(kw.get('text') == 'self.orig_desc', kw.get('text') in ('self.pp_desc',), 'DEFUSE',
            'PLSSDesc.parse parses the original text',
            detail_bad=f"PLSSParser receives text={kw.get('text')}: tracts record the preprocessed text as their original",
            key="DEFUSE|PLSSDesc.parse|text")
    try:
        _c, kwx_ = _consumer_kwargs(ctx, pp, 'PLSSParser')
    except AnalysisError:
        kwx_ = {k.arg: k.value for k in calls[0].keywords if k.arg}
    sv = kwx_.get('source')
    flt = kwx_.get('__filter__')
    if flt is not None:
        g = flt.generators[0]
        vname = g.target.elts[1].id if isinstance(g.target, ast.Tuple) and len(g.target.elts) == 2 and isinstance(g.target.elts[1], ast.Name) else None
        by_truth = any(isinstance(t, ast.Name) and t.id == vname for t in g.ifs)
        ctx.tri(False, by_truth, 'DEFUSE', 'PLSSDesc.parse hands down the source tag',
                detail_bad=f"`{norm(flt)[:70]}` drops every falsy value from what is handed to the parser: a falsy but legitimate source "
                           f"tag (0, '', an empty tuple) never reaches the tracts, which then carry source=None while the "
                           f"description keeps the real tag", key="DEFUSE|PLSSDesc.parse|source-truthy",
                where=common.loc(pp, flt), why='the keyword dict is filtered before the call')
    elif sv is None:
        ctx.undecided('DEFUSE', 'PLSSDesc.parse hands down the source tag', 'no source= keyword reaches PLSSParser')
    else:
        lits = [(txt, pol) for _e, txt, pol in literals(guards(sv))]
        by_truth = [txt for txt, pol in lits if txt in ('self.source', 'source') and pol]
        ctx.tri(norm(sv) == 'self.source' and not lits, bool(by_truth), 'DEFUSE', 'PLSSDesc.parse hands down the source tag',
                detail_bad=f"the source tag is handed to the parser only `if {by_truth[0] if by_truth else ''}`: a falsy but "
                           f"legitimate tag (0, '', an empty tuple) is dropped and the tracts carry source=None while the "
                           f"description keeps the real tag", key="DEFUSE|PLSSDesc.parse|source-truthy",
                where=common.loc(pp, sv))
    pi = ctx.repo.func('PLSSDesc.__init__')
    t = [norm(s) for s in walk_local(pi.node) if isinstance(s, ast.Assign)]
    ctx.shape('self.orig_desc = raw_plss' in t and 'self.source = source' in t, 'DEFUSE',
              'PLSSDesc stores the raw text and source')
    ti = ctx.repo.func('Tract.__init__')
    t = [norm(s) for s in walk_local(ti.node) if isinstance(s, ast.Assign)]
    for a in ('orig_index', 'source', 'orig_desc', 'desc'):
        stores = [x for x in walk_local(ti.node) if isinstance(x, ast.Assign) and norm(x.targets[0]) == f"self.{a}"]
        construct = f"Tract.__init__ stores {a} as given"
        if not stores:
            ctx.undecided('DEFUSE', construct, f"no `self.{a} = ...` found")
            continue
        v = stores[-1].value
        filtered = None
        if isinstance(v, ast.IfExp) and any(txt == a for _e, txt, _p in literals([(v.test, True)])) \
                and any(isinstance(b, ast.Constant) for b in (v.body, v.orelse)):
            filtered = v
        if isinstance(v, ast.BoolOp) and norm(v.values[0]) == a and isinstance(v.values[-1], ast.Constant):
            filtered = v
        prov = flow.prov_params(flow.provenance(ti.node, v))
        ctx.tri(norm(v) == a, filtered is not None or a not in prov, 'DEFUSE', construct,
                detail_bad=(f"`{norm(stores[-1])}` replaces a falsy {a} (0, '', (), False) by a constant: the tract no longer "
                            f"carries what its parent was given" if filtered is not None
                            else f"`{norm(stores[-1])}` does not derive from the `{a}` argument"),
                key=f"DEFUSE|Tract.__init__|{a}|{'filtered' if filtered is not None else 'lost'}", where=common.loc(ti, stores[-1]))
    ctx.shape('self.trs = trs' in t, 'DEFUSE', 'Tract.__init__ routes trs through the setter')


def _parents(n):
    from ..srcmodel import parent
    p = parent(n)
    while p is not None:
        yield p
        p = parent(p)
