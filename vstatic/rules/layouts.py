"""
Layout-dispatch table shared by C01 / C11 / C20.

The four meaningful layout names encode their own order ('TRS_desc':
T,R,S,desc ...).  From the folded constants two predicates are derived,
*sec-before-desc* and *TR-first*, and every `layout in / not in <collection>`
test in the description parser must use exactly the class that the function
it stands in needs.
"""

import ast

from .. import AnalysisError
from ..fold import is_unknown
from ..srcmodel import walk_local, norm, dotted
from . import common


def layout_classes(ctx):
    g = lambda n: ctx.fold.get('config.layouts', n)
    names = {k: g(k) for k in ('TRS_DESC', 'DESC_STR', 'S_DESC_TR', 'TR_DESC_S', 'COPY_ALL')}
    impl = g('_IMPLEMENTED_LAYOUTS')
    if not set(names.values()) <= set(impl) or len(impl) != len(set(impl)):
        missing = sorted(set(names.values()) - set(impl))
        ctx.violation('TBL', 'every layout constant is in _IMPLEMENTED_LAYOUTS (the table the config reader validates against)',
                      f"_IMPLEMENTED_LAYOUTS = {tuple(impl)}: {missing or 'duplicates / unknown entries'} "
                      f"{'is' if len(missing) == 1 else 'are'} rejected as an unknown layout in a config string "
                      f"('layout.{missing[0] if missing else '?'}') although the keyword form still works",
                      key=f"TBL|_IMPLEMENTED_LAYOUTS|{','.join(missing)}")
        raise AnalysisError(f"_IMPLEMENTED_LAYOUTS = {impl}")
    meaningful = [v for k, v in names.items() if k != 'COPY_ALL']
    for v in meaningful:
        if 'desc' not in v or 'S' not in v.replace('desc', '') or 'TR' not in v:
            raise AnalysisError(f"layout name {v!r} does not encode its order")

    def sec_before_desc(v):
        return v.replace('desc', '#').index('S') < v.index('desc') if True else False

    def s_before(v):
        w = v.replace('desc', '#')
        return w.index('S') < w.index('#')
    s_desc = frozenset(v for v in meaningful if s_before(v))
    tr_first = frozenset(v for v in meaningful if v.startswith('TR'))
    allm = frozenset(meaningful)
    return {
        'names': names, 'copy_all': names['COPY_ALL'], 'meaningful': allm,
        's_desc': s_desc, 'not_s_desc': allm - s_desc,
        'tr_first': tr_first, 'not_tr_first': allm - tr_first,
    }


# function -> the layout class every membership test in it must use
SITE_TABLE = {
    'TwpRgeFinder.findall_matching_twprge': ('not_s_desc', "every Twp/Rge counts unless the section precedes the description"),
    'SecFinder.findall_matching_sec': ('s_desc', "colon / 'of,said,in' filters only make sense when the section precedes the description"),
    'ChunkParser._parse_meaningful': (None, "two collections: s_desc_lays (sec before desc) and tr_first_lays (Twp/Rge first)"),
    'PLSSChunker.segment': ('tr_first', "chunks start at a Twp/Rge iff the Twp/Rge comes first"),
}


def dispatch_exhaustive(ctx, rule='TBL'):
    """An if/elif chain that dispatches on the layout and has no final else
    must name every meaningful layout that can reach it; otherwise a layout
    falls through the chain and nothing is done for it (PLSSChunker.segment
    cutting no block at all)."""
    cl = layout_classes(ctx)
    n = 0
    for fi in ctx.repo.funcs.values():
        if not fi.module.name.endswith('plssdesc.plss_parse'):
            continue
        env = ctx.fold.func_env(fi)
        for node in walk_local(fi.node):
            if not isinstance(node, ast.If) or (isinstance(node._parent, ast.If) and node in node._parent.orelse
                                                and len(node._parent.orelse) == 1):
                continue        # only chain heads
            covered, calls, cur, has_else, ok = set(), 0, node, False, True
            while True:
                t = cur.test
                sets = None
                if isinstance(t, ast.Compare) and len(t.ops) == 1 and norm(t.left) == 'layout':
                    v = ctx.fold.eval(t.comparators[0], env, fi.module.name)
                    if not is_unknown(v):
                        if isinstance(t.ops[0], ast.In):
                            sets = set(v)
                        elif isinstance(t.ops[0], ast.Eq):
                            sets = {v}
                if sets is None:
                    ok = False
                    break
                covered |= sets
                calls += sum(1 for b in cur.body for x in ast.walk(b) if isinstance(x, ast.Call))
                if len(cur.orelse) == 1 and isinstance(cur.orelse[0], ast.If):
                    cur = cur.orelse[0]
                    continue
                has_else = bool(cur.orelse)
                break
            if not ok or has_else or calls == 0 or len(covered) < 2:
                continue
            # a pure dispatch: nothing but `return` follows the chain in its block
            blk = None
            for fld in ('body', 'orelse', 'finalbody'):
                b_ = getattr(node._parent, fld, None)
                if isinstance(b_, list) and node in b_:
                    blk = b_
            if blk is None or any(not isinstance(x, (ast.Return, ast.Pass)) for x in blk[blk.index(node) + 1:]):
                continue
            n += 1
            # layouts that cannot arrive here: excluded by an earlier `return`
            excluded = set()
            for prev in fi.node.body:
                if prev is node:
                    break
                if isinstance(prev, ast.If) and any(isinstance(x, ast.Return) for x in prev.body):
                    for x in ast.walk(prev.test):
                        if isinstance(x, ast.Compare) and norm(x.left) == 'layout' and isinstance(x.ops[0], ast.Eq):
                            v = ctx.fold.eval(x.comparators[0], env, fi.module.name)
                            if not is_unknown(v):
                                excluded.add(v)
            missing = set(cl['meaningful']) - covered - excluded
            ctx.check(not missing, rule, f"{fi.qualname}: the layout dispatch without else covers every meaningful layout",
                      f"covers {sorted(covered)}",
                      f"the chain handles {sorted(covered)} and has no else: for layout {sorted(missing)} none of its "
                      f"branches runs, so nothing is produced for such a description",
                      key=f"{rule}|{fi.qualname}|exhaustive|{','.join(sorted(missing))}", where=common.loc(fi, node))
    return n


def check_dispatch(ctx, rule='TBL'):
    cl = layout_classes(ctx)
    n = 0
    try:
        dispatch_exhaustive(ctx, rule)
    except AnalysisError as e:
        ctx.undecided(rule, 'layout dispatch chains are exhaustive', str(e))
    for spec, (want, why) in SITE_TABLE.items():
        fi = ctx.repo.func(spec)
        env = ctx.fold.func_env(fi)
        tests = []

        def collect(f, pname, fenv):
            for node in walk_local(f.node):
                if isinstance(node, ast.Compare) and len(node.ops) == 1 \
                        and isinstance(node.ops[0], (ast.In, ast.NotIn)) and norm(node.left) == pname:
                    coll = ctx.fold.eval(node.comparators[0], fenv, f.module.name)
                    if is_unknown(coll):
                        raise AnalysisError(f"{f.qualname}: layout collection `{norm(node.comparators[0])}` does not fold")
                    tests.append((node, frozenset(coll), f))
        collect(fi, 'layout', env)
        # helpers of this function that are handed the layout decide for it
        from .. import flow as _flow
        for c in walk_local(fi.node):
            if not isinstance(c, ast.Call):
                continue
            hands = [(i, None) for i, a in enumerate(c.args) if norm(a) == 'layout'] + \
                    [(None, k.arg) for k in c.keywords if k.arg and norm(k.value) == 'layout']
            if not hands:
                continue
            callee = _flow.RESOLVER(dotted(c.func) or '', c, fi.node) if _flow.RESOLVER else None
            cf = getattr(callee, '_func', None) if callee is not None else None
            if cf is None or cf is fi:
                continue
            a = cf.node.args
            pn = [x.arg for x in a.posonlyargs + a.args]
            if pn and pn[0] in ('self', 'cls') and isinstance(c.func, ast.Attribute):
                pn = pn[1:]
            for i, kw in hands:
                name = kw if kw is not None else (pn[i] if i < len(pn) else None)
                if name:
                    collect(cf, name, ctx.fold.func_env(cf))
        if spec == 'ChunkParser._parse_meaningful' and not all(
                env.get(nm) is not None and not is_unknown(env.get(nm)) for nm in ('s_desc_lays', 'tr_first_lays')):
            # rewritten without the two named locals: every layout test (here or in the helpers that are
            # handed the layout) must still use one of the two classes the walk distinguishes
            if not tests:
                ctx.undecided(rule, '_parse_meaningful: layout membership tests use the s_desc / tr_first layouts',
                              'no `layout in <collection>` test found in the function or the helpers it hands the layout to')
                continue
            for node, coll, holder in tests:
                n += 1
                got = coll - {cl['copy_all']}
                ctx.check(got in (cl['s_desc'], cl['tr_first']), rule,
                          f"_parse_meaningful: `{norm(node)[:60]}` uses the s_desc or the tr_first layouts",
                          detail_bad=f"collection {sorted(coll)} is neither {sorted(cl['s_desc'])} nor {sorted(cl['tr_first'])}: "
                                     f"blocks are attached to the wrong side of their section / Twp/Rge",
                          key=f"{rule}|_parse_meaningful|class|{','.join(sorted(coll))}", where=common.loc(holder, node))
            continue
        if spec == 'ChunkParser._parse_meaningful':
            for nm, cls in (('s_desc_lays', 's_desc'), ('tr_first_lays', 'tr_first')):
                v = env.get(nm)
                if v is None or is_unknown(v):
                    raise AnalysisError(f"_parse_meaningful: {nm} does not fold")
                n += 1
                ctx.check(frozenset(v) == cl[cls], rule, f"_parse_meaningful: {nm} == {sorted(cl[cls])}",
                          detail_bad=f"{nm} = {sorted(v)}: blocks are attached to the wrong side of their section / Twp/Rge",
                          key=f"{rule}|_parse_meaningful|{nm}")
            used = {norm(t[0].comparators[0]) for t in tests if t[2] is fi}
            ctx.check(used <= {'s_desc_lays', 'tr_first_lays'}, rule,
                      '_parse_meaningful tests layouts only through its two collections',
                      detail_bad=f"ad-hoc layout collections {sorted(used)}", key=f"{rule}|_parse_meaningful|adhoc")
            continue
        if not tests:
            ctx.undecided(rule, f"{spec}: layout membership tests use the {want} layouts",
                          "no `layout in <collection>` test found in the function or the helpers it hands the layout to")
            continue
        for node, coll, holder in tests:
            n += 1
            got = coll - {cl['copy_all']}
            has_copy = cl['copy_all'] in coll
            ok = got == cl[want]
            if want == 'not_s_desc':
                ok = ok and has_copy      # copy_all keeps every Twp/Rge too
            ctx.check(ok, rule, f"{spec}: `{norm(node)[:60]}` uses the {want} layouts",
                      why, f"collection {sorted(coll)} is not {sorted(cl[want])}"
                           f"{' + copy_all' if want == 'not_s_desc' else ''}: {why}",
                      key=f"{rule}|{spec}|{want}|{norm(node.ops[0].__class__.__name__)}", where=common.loc(holder, node))
    # deduce_layout: default candidates are the four meaningful layouts; returns only known layouts
    fi = ctx.repo.func('plss_parse:deduce_layout')
    env = ctx.fold.func_env(fi)
    cands = None
    for node in walk_local(fi.node):
        if isinstance(node, ast.Assign) and norm(node.targets[0]) == 'candidates':
            cands = ctx.fold.eval(node.value, ctx.fold.module_env(fi.module.name), fi.module.name)
    known = cands is not None and not is_unknown(cands)
    ctx.tri(known and frozenset(cands) == cl['meaningful'], known and frozenset(cands) != cl['meaningful'], rule,
            'deduce_layout considers the four meaningful layouts by default',
            detail_bad=f"default candidates {cands}", key=f"{rule}|deduce_layout|candidates")
    menv = ctx.fold.module_env(fi.module.name)
    rets, unknown_rets = set(), []

    def leaves(e):
        if isinstance(e, ast.IfExp):
            yield from leaves(e.body)
            yield from leaves(e.orelse)
        elif isinstance(e, ast.BoolOp):
            for v_ in e.values:
                yield from leaves(v_)
        else:
            yield e
    for node in walk_local(fi.node):
        if isinstance(node, ast.Return) and node.value is not None:
            for leaf in leaves(node.value):
                v = ctx.fold.eval(leaf, menv, fi.module.name)
                if is_unknown(v):
                    if isinstance(leaf, ast.Name):
                        # a local that only ever holds layout constants
                        vals = [ctx.fold.eval(a.value, menv, fi.module.name) for a in walk_local(fi.node)
                                if isinstance(a, ast.Assign) and norm(a.targets[0]) == leaf.id]
                        if vals and not any(is_unknown(x) for x in vals):
                            rets.update(vals)
                            continue
                    unknown_rets.append(norm(leaf))
                else:
                    rets.add(v)
    known_bad = {r for r in rets if isinstance(r, str)} - set(cl['names'].values())
    if unknown_rets and not known_bad:
        ctx.undecided(rule, 'deduce_layout returns only implemented layouts', f"return values {unknown_rets} do not fold")
    else:
        ctx.check(not known_bad, rule, 'deduce_layout returns only implemented layouts',
                  detail_bad=f"returns {sorted(map(str, known_bad))}", key=f"{rule}|deduce_layout|returns")
    # S_desc_TR / desc_STR only when the section word precedes the Twp/Rge
    ok = False
    for node in walk_local(fi.node):
        if isinstance(node, ast.If) and norm(node.test) == 'sec_mo.start() < twprge_mo.start()':
            body = ' '.join(norm(s) for s in ast.walk(node) if isinstance(s, ast.stmt))
            tail_after = True
            ok = 'layout_guess = DESC_STR' in body and 'layout_guess = S_DESC_TR' in body \
                and 'TR_DESC_S' not in body and 'TRS_DESC' not in body.replace('try_trs_desc', '')
    # positive evidence of a defect: a Twp/Rge-first layout chosen inside the
    # section-first branch (or vice versa)
    bad = False
    for node in walk_local(fi.node):
        if isinstance(node, ast.If) and isinstance(node.test, ast.Compare) and '.start()' in norm(node.test) \
                and 'twprge_mo.start()' in norm(node.test) and isinstance(node.test.ops[0], (ast.Lt, ast.LtE)):
            body = ' '.join(norm(s) for s in ast.walk(node) if isinstance(s, (ast.Return, ast.Assign)))
            if 'return TR_DESC_S' in body or 'return TRS_DESC' in body or '= TR_DESC_S' in body or '= TRS_DESC' in body:
                bad = True
    ctx.tri(ok, bad, rule, 'deduce_layout: section-first layouts only when the section word comes first',
            detail_bad="a Twp/Rge-first layout is chosen although the section word precedes the Twp/Rge",
            key=f"{rule}|deduce_layout|secfirst")
    t = ' '.join(norm(s) for s in walk_local(fi.node) if isinstance(s, ast.stmt))
    ctx.shape(('not sec_mo or not twprge_mo' in t and 'return COPY_ALL' in t), rule,
              'deduce_layout: no section or no Twp/Rge -> copy_all')
    ctx.shape('no_num_sec_regex.search(text)' in t and 'twprge_regex.search(text)' in t, rule,
              'deduce_layout looks for the first section word and the first Twp/Rge')
    return n
