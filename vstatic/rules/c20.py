"""
C20 -- optional parse modes are conservative where they are not needed.
"""

import ast

from .. import AnalysisError, flow
from ..fold import is_unknown
from ..srcmodel import walk_local, norm, dotted, guards, enclosing_stmt
from . import common, families as F
from .layouts import check_dispatch, layout_classes
from .c08 import _inc

from . import forward

from .c13 import lockdown

from .c10 import _staging_tables

META = {
    'explanation': (
        "Equivalence of `segment` on/off on single-layout text is not decided "
        "(chunk boundaries are runtime). Decided: need_colon is consulted only "
        "in the guard `need_colon and sec_mo['colon'] is None`, so colon modes "
        "cannot change anything when every section match has its colon group "
        "(and the colon group accepts the documented spellings); the "
        "require_colon lattice {False, True, CAUTIOUS, SECOND_PASS} is "
        "produced and consumed exhaustively, True never reaches the second "
        "pass, the second pass clears staged flags, runs without need_colon "
        "and raises a paired warning; colon modes and chunking use the right "
        "layout classes; sec_within producer/consumer protocol (tags, FIFO "
        "consumption, prefix on 0 / suffix otherwise, exactly one component, "
        "warning) and its ordering before tracts are constructed."
        ' Also: lock-down of the colon / segment / sec_within settings, require_colon is computed from the locked-down arguments (provenance), the fallback takes over every list parse_safe hands off, side tags of unused text are constants, exhaustive layout dispatch, the settings are known to Config.'
        ' Round 7: cleanup_desc removes words from the end of a block only; a local name bound to a list the object keeps is not grown in place (`pulled = self.matches[0][1]; pulled += ...`).'
        ' Round 8: the colon-required fallback stages a single section (shared with C11).'
        " Round 9: segment cuts at TwpRgeFinder's matches, not at every raw pattern match; the sec_within length gate is >=."
        ' Round 12: field-role names are judged only when they speak about the match, not about the block.'
        ' Also (round 12): with sec_within, left-over text below the minimum length is dropped without a flag - recorded as a known finding whose key carries the folded threshold (a larger threshold is a new violation).'
        " deduce_layout's description-length threshold measures the text as written, not the cleaned-up text (C20-r8m1)."),
    'families': ['TBL', 'LOCK', 'ORDER', 'PAIR', 'FORWARD', 'DEADPARAM', 'SIB-DEFAULTS'],
}


def _ancestors(n):
    p_ = getattr(n, '_parent', None)
    while p_ is not None:
        yield p_
        p_ = getattr(p_, '_parent', None)


def check(ctx):
    ctx.consult('plssdesc/plss_parse.py', 'plssdesc/plssdesc.py', 'rgxlib/sec.py')
    ctx.attempt(check_dispatch)
    ctx.attempt(_colon)
    ctx.attempt(_sec_within)
    ctx.attempt(_segment)
    # with `segment`, cleanup_desc is applied to whole chunks: its connector
    # table must not swallow description vocabulary
    from .c01 import word_tables
    ctx.attempt(_segment_uses_the_finder)
    from .c04 import _thresholds_and_tests   # sec_within re-attaches a block of exactly the minimum length (>=, as the flagging side)
    ctx.attempt(_thresholds_and_tests)
    ctx.attempt(_sec_within_length_gate)
    ctx.attempt(_layout_threshold_measures_the_written_text)
    from .c11 import _copyall                 # the colon-required fallback keeps the text in ONE tract
    ctx.attempt(_copyall)
    ctx.attempt(word_tables)
    from .c04 import cleanup_words     # (lazy import: c04 imports c01)
    ctx.attempt(cleanup_words)
    ctx.attempt(forward.check_all, module_suffixes=('plssdesc.plss_parse', 'plssdesc.plssdesc'))
    ctx.attempt(lockdown, ctx.repo.func('PLSSDesc.parse'), only=('sec_colon_required', 'sec_colon_cautious', 'segment', 'sec_within', 'layout'))
    ctx.attempt(_staging_tables)
    ctx.attempt(common.config_words, plss=('sec_colon_required', 'sec_colon_cautious', 'segment', 'sec_within'))
    ctx.attempt(common.match_record_roles)
    ctx.attempt(_need_colon_table)


def _need_colon_table(ctx):
    """Conditional constant propagation through the `need_colon` decision of
    SecFinder for every (require_colon, layout): a colon is demanded exactly
    when the layout puts the section before its description AND the mode is
    True or the cautious first pass; never in the second pass, never for the
    other layouts."""
    from .. import ccp
    from .layouts import layout_classes
    fi = ctx.repo.func('SecFinder.findall_matching_sec')
    cl = layout_classes(ctx)
    g = lambda a: ctx.fold.get_attr('plss_parse', 'SecFinder', a)
    cautious, second = g('SEC_COLON_CAUTIOUS'), g('SECOND_PASS')
    construct = 'SecFinder: need_colon for every (require_colon, layout)'
    names = dict(cl['names'])
    n = 0
    first_loop = next((st for st in fi.node.body if isinstance(st, (ast.For, ast.While))), None)
    for rc_label, rc in (('True', True), ('False', False), ('cautious', cautious), ('second pass', second)):
        for lname, layout in sorted(names.items()):
            env = {p: None for p in fi.params()}
            env.update(names)
            env.update({'require_colon': rc, 'layout': layout,
                        'self': ccp.Obj(SEC_COLON_CAUTIOUS=cautious, SECOND_PASS=second,
                                        _methods={m_.node.name: m_.node for m_ in ctx.repo.cls('plss_parse:SecFinder').methods.values()})})
            try:
                out = ccp.run_slice(fi.node, ['need_colon'], env, stop_at=first_loop)
            except ccp.Unsupported as e:
                ctx.undecided('TBL', construct, f"not propagated ({e})")
                return
            if 'need_colon' not in out:
                ctx.undecided('TBL', construct, 'need_colon is not computed before the scan loop')
                return
            got = bool(out['need_colon'])
            want = layout in cl['s_desc'] and (rc is True or rc == cautious)
            n += 1
            ctx.check(got == want, 'TBL', f"{construct}: require_colon={rc_label}, layout={layout} -> {want}", f"{got}",
                      f"with require_colon={rc_label} and layout {layout} a colon is {'demanded' if got else 'not demanded'} "
                      f"but should {'not ' if not want else ''}be: "
                      + ("sections without a colon are accepted although the user required one" if want else
                         "sections without a colon are ignored in a layout / pass where the colon must not matter"),
                      key=f"TBL|SecFinder|need_colon|{rc_label}|{layout}", where=fi.loc)
    ctx.floor('need_colon cases', n, 12)


def _colon(ctx):
    fi = ctx.repo.func('SecFinder.findall_matching_sec')
    uses = [n for n in walk_local(fi.node) if isinstance(n, ast.Name) and n.id == 'need_colon'
            and isinstance(n.ctx, ast.Load)]
    ctx.floor('need_colon uses', len(uses), 1)
    for u in uses:
        st = enclosing_stmt(u)
        ok = isinstance(st, ast.If) and 'need_colon' in norm(st.test) and "['colon']" in norm(st.test)
        bad = isinstance(st, ast.If) and 'need_colon' in norm(st.test) and 'colon' not in norm(st.test).replace('need_colon', '')
        ctx.tri(ok, bad, 'TBL', "need_colon only matters for a section match without a colon",
                "`need_colon` is tested together with the match's colon group",
                f"need_colon is consulted in `{norm(st)[:70]}` without the colon group: colon modes can change the "
                f"result even when every section has its colon", key="TBL|SecFinder|need_colon-use", where=common.loc(fi, u))
    ms = ctx.fold.get('rgxlib.sec', 'multisec_regex')
    ctx.attempt(_inc, 'RX-LANG', 'multisec_regex', F.MULTISEC, ms, 'section lists with optional (spaced) colon')
    L = common.lang(ctx, ms)
    for s in ('Sec 14:', 'Section 14 :', 'Sec 1 - 3:', 'Sections 1, 2 and 5:'):
        ctx.check(L.fullmatch(s), 'RX-LANG', f"multisec_regex takes the colon of {s!r} into the match",
                  detail_bad=f"{s!r}: the colon is not part of the section match, so colon modes reject a section "
                             f"that does have one", key=f"RX-LANG|multisec_regex|colon|{s}")
    gf = common.group_facts(ctx, ms)
    ctx.check('colon' in gf and gf['colon'].optional, 'RX-GROUPS', 'multisec_regex: optional colon group',
              detail_bad="colon group missing/mandatory", key="RX-GROUPS|multisec_regex|colon")
    # lattice
    sfc = ctx.repo.cls('plss_parse:SecFinder')
    consts = {norm(s.targets[0]): ctx.fold.eval(s.value, {}, sfc.module.name)
              for s in sfc.node.body if isinstance(s, ast.Assign)}
    ctx.check(consts.get('SEC_COLON_CAUTIOUS') not in (None, True, False) and consts.get('SECOND_PASS') not in (None, True, False)
              and consts.get('SEC_COLON_CAUTIOUS') != consts.get('SECOND_PASS'), 'TBL',
              'SEC_COLON_CAUTIOUS and SECOND_PASS are distinct non-bool markers',
              detail_bad=f"markers {consts}", key="TBL|SecFinder|markers")
    t = ' '.join(norm(s) for s in walk_local(fi.node) if isinstance(s, ast.stmt))
    chain = [n for n in fi.node.body if isinstance(n, ast.If) and norm(n.test) == 'isinstance(require_colon, bool)']
    ok = False
    if chain:
        c = chain[0]
        b1 = [norm(s) for s in c.body]
        el = c.orelse[0] if len(c.orelse) == 1 and isinstance(c.orelse[0], ast.If) else None
        if el is not None and norm(el.test) == 'require_colon == self.SECOND_PASS':
            b2 = [norm(s) for s in el.body]
            b3 = [norm(s) for s in el.orelse]
            ok = b1 == ['need_colon = require_colon'] and 'need_colon = False' in b2 \
                and 'self.flags = []' in b2 and 'self.flag_lines = []' in b2 and b3 == ['need_colon = True']
    ctx.shape(ok, 'TBL', 'require_colon lattice: bool -> itself; SECOND_PASS -> no colon needed, staged flags cleared; CAUTIOUS -> colon needed')
    # second pass only for CAUTIOUS (never for True), only when nothing matched, paired warning
    sec = [n for n in fi.node.body if isinstance(n, ast.If) and 'self.SEC_COLON_CAUTIOUS' in norm(n.test)]
    ok = bool(sec) and norm(sec[0].test).startswith('require_colon == self.SEC_COLON_CAUTIOUS and layout in') \
        and any(isinstance(c, ast.Call) and dotted(c.func) == 'self.findall_matching_sec'
                and any(k.arg == 'require_colon' and norm(k.value) == 'self.SECOND_PASS' for k in c.keywords)
                for c in ast.walk(sec[0]))
    ctx.shape(ok, 'TBL', 'a second pass runs only for sec_colon_cautious (never for sec_colon_required)')
    m = [n for n in fi.node.body if isinstance(n, ast.If) and norm(n.test) == 'self.matches and require_colon != self.SECOND_PASS']
    ok = bool(m) and any(isinstance(s, ast.Return) for s in m[0].body) and len(m[0].orelse) == 1 \
        and isinstance(m[0].orelse[0], ast.If) and norm(m[0].orelse[0].test) == 'self.matches'
    body2 = [norm(s) for s in m[0].orelse[0].body] if ok else []
    whole = ' '.join(norm(x) for x in walk_local(fi.node) if isinstance(x, ast.stmt))
    ctx.tri(ok and 'self.flags.append(flag)' in body2 and 'self.flag_lines.append((flag, flag))' in body2
            and any('pulled_sec_without_colon' in x for x in body2), 'pulled_sec_without_colon' not in whole, 'PAIR',
            'sections pulled by the second pass raise a paired pulled_sec_without_colon warning',
            detail_bad="the second pass no longer raises the pulled_sec_without_colon warning",
            key="PAIR|SecFinder|second-pass-warning")
    # producers of require_colon
    prop = ctx.repo.func('PLSSDesc.require_colon')
    vals = set()
    for n in walk_local(prop.node):
        if isinstance(n, ast.Assign) and norm(n.targets[0]) == 'required':
            vals.add(norm(n.value))
    ctx.shape(vals == {'self.sec_colon_required', 'SecFinder.SEC_COLON_CAUTIOUS'}, 'LOCK',
              'PLSSDesc.require_colon yields required-bool or the CAUTIOUS marker')
    p = ctx.repo.func('PLSSDesc.parse')
    vals = set()
    for n in walk_local(p.node):
        if isinstance(n, ast.Assign) and norm(n.targets[0]) == 'require_colon':
            vals.add(norm(n.value))
    # positive evidence: require_colon seeded from the attribute instead of the locked-down argument
    from_attr = False
    for n in walk_local(p.node):
        if isinstance(n, ast.Assign) and norm(n.targets[0]) == 'require_colon':
            pv_ = flow.provenance(p.node, n.value)
            if {'self.sec_colon_required', 'self.sec_colon_cautious', 'self.require_colon'} & flow.prov_attrs(pv_) \
                    and not ({'sec_colon_required', 'sec_colon_cautious'} & flow.prov_params(pv_)):
                from_attr = True
    ctx.tri(vals == {'sec_colon_required', 'SecFinder.SEC_COLON_CAUTIOUS'}, from_attr, 'LOCK',
            'PLSSDesc.parse yields required-bool or the CAUTIOUS marker (from the locked-down arguments)',
            detail_bad=f"require_colon is assigned {sorted(vals)}: the attribute, not the argument, decides",
            key="LOCK|PLSSDesc.parse|require_colon-values")
    from .c13 import _consumer_kwargs
    call, kwp = _consumer_kwargs(ctx, p, 'PLSSParser')
    if 'require_colon' in kwp:
        pv = flow.provenance(p.node, kwp['require_colon'], control='sentinel')
        ctx.check('sec_colon_required' in flow.prov_params(pv), 'LOCK',
                  'the parser\'s require_colon derives from the sec_colon_required argument',
                  detail_bad="parse(sec_colon_required=...) does not reach the parser (the attribute is used instead)",
                  key="LOCK|PLSSDesc.parse|sec_colon_required")
    else:
        ctx.undecided('LOCK', 'require_colon handed to PLSSParser', 'keyword not found')
    fm = ctx.repo.func('ChunkParser.find_matches')
    t = ' '.join(norm(s) for s in walk_local(fm.node) if isinstance(s, ast.stmt))
    ctx.shape('SecFinder(text, layout, self.parent.require_colon)' in t, 'LOCK',
              "every chunk's SecFinder receives the parser's require_colon")
    pi = ctx.repo.func('PLSSParser.__init__')
    ctx.shape('self.require_colon = require_colon' in [norm(s) for s in walk_local(pi.node) if isinstance(s, ast.stmt)],
              'LOCK', 'PLSSParser stores require_colon')


def _sec_within(ctx):
    fi = ctx.repo.func('plss_parse:rebuild_sec_within')
    t = ' '.join(norm(s) for s in walk_local(fi.node) if isinstance(s, ast.stmt))
    ctx.shape('if len(tract_components) != 1' in t, 'TBL', 'sec_within acts only when exactly one tract component is staged')
    pops = [c for c in walk_local(fi.node) if isinstance(c, ast.Call) and norm(c.func) == 'unused_components.pop']
    if len(pops) == 1:
        arg = norm(pops[0].args[0]) if pops[0].args else None
        ctx.tri(arg == '0', arg in (None, '-1'), 'ORDER', 'unused blocks are re-attached in reading order (pop(0))',
                'FIFO', f"`{norm(pops[0])}` takes the blocks from the end: pieces on the same side of the section are "
                        f"joined in swapped order", key="ORDER|rebuild_sec_within|fifo", where=common.loc(fi, pops[0]))
    else:
        ctx.undecided('ORDER', 'unused blocks are re-attached in reading order', 'pop loop not recognised')
    # the reportable-length test looks at the CLEANED block
    lens = [n for n in walk_local(fi.node) if isinstance(n, ast.Compare) and 'min_length' in norm(n)
            and isinstance(n.left, ast.Call) and dotted(n.left.func) == 'len' and n.left.args]
    if len(lens) == 1:
        pv = flow.provenance(fi.node, lens[0].left.args[0])
        ctx.check(common.cleanup_name(ctx) in {c_.split('.')[-1] for c_ in flow.prov_calls(pv)}, 'ORDER',
                  'sec_within measures the cleaned-up block against the minimum length',
                  detail_bad="the length gate sees the raw block (cleanup_desc runs after it): connector words such "
                             "as ' of ' / ', in ' between the section and an embedded Twp/Rge are spliced into the description",
                  key="ORDER|rebuild_sec_within|clean-before-len", where=common.loc(fi, lens[0]))
    else:
        ctx.undecided('ORDER', 'sec_within length gate', 'length test not recognised')
    pre = [n for n in walk_local(fi.node) if isinstance(n, ast.Assign) and norm(n.targets[0]) == 'desc'
           and isinstance(n.value, ast.JoinedStr)]
    forms = {}
    for n in pre:
        parts = [norm(v.value) for v in n.value.values if isinstance(v, ast.FormattedValue)]
        gs = [(norm(tt), pol) for tt, pol in guards(n)]
        forms[tuple(parts)] = gs
    ok = ('unused', 'desc') in forms and ('desc', 'unused') in forms \
        and ('i == 0', True) in forms[('unused', 'desc')] and ('i == 0', False) in forms[('desc', 'unused')]
    swapped = ('unused', 'desc') in forms and ('desc', 'unused') in forms \
        and ('i == 0', False) in forms[('unused', 'desc')] and ('i == 0', True) in forms[('desc', 'unused')]
    # the suffix must extend the running description (not restart from the original)
    restart = any('orig_desc' in p for p in forms if len(p) == 2 and p != ('unused', 'desc') and p != ('desc', 'unused'))
    # generally: inside the loop every update of the accumulator reads the accumulator itself
    for n in pre:
        inloop = any(isinstance(p_, (ast.While, ast.For)) for p_ in _ancestors(n))
        reads_self = any(isinstance(x, ast.Name) and x.id == 'desc' for x in ast.walk(n.value))
        if inloop and not reads_self:
            restart = True
    ctx.tri(ok, swapped or restart, 'TBL', 'text tagged 0 is put before the description, anything else after it',
            detail_bad=f"prefix/suffix forms {sorted(forms)}: leading and trailing text are "
                       f"{'swapped' if swapped else 'not accumulated (an earlier re-attached block is lost)'}",
            key="TBL|rebuild_sec_within|sides")
    ctx.shape("repaired_tract['sec_within'] = True" in t and "repaired_tract['desc'] = desc" in t, 'TBL',
              'a repaired component is marked sec_within')
    # producers
    pm = ctx.repo.func('ChunkParser._parse_meaningful')
    tp = ' '.join(norm(s) for s in walk_local(pm.node) if isinstance(s, ast.stmt))
    ctx.shape('self.unused_components.append((len(self.tract_components), block))' in tp, 'TBL',
              'unused blocks are tagged with the number of tracts staged so far (0 = before the first)')
    for spec, tag, sl in (('PLSSChunker._segment_twprge_first', '0', 'text[:start]'),
                          ('PLSSChunker._segment_twprge_last', '1', 'text[end:]')):
        f2 = ctx.repo.func(spec)
        t2 = ' '.join(norm(s) for s in walk_local(f2.node) if isinstance(s, ast.stmt))
        tags = [norm(c.args[0].elts[0]) for c in walk_local(f2.node) if isinstance(c, ast.Call)
                and norm(c.func) == 'self.unused_blocks.append' and c.args and isinstance(c.args[0], ast.Tuple)
                and isinstance(c.args[0].elts[0], ast.Constant)]
        idx_vars = set()
        for lp in walk_local(f2.node):
            if isinstance(lp, ast.For) and isinstance(lp.iter, ast.Call) and dotted(lp.iter.func) == 'enumerate' \
                    and isinstance(lp.target, ast.Tuple) and isinstance(lp.target.elts[0], ast.Name):
                idx_vars.add(lp.target.elts[0].id)
        by_index = [c for c in walk_local(f2.node) if isinstance(c, ast.Call)
                    and norm(c.func) == 'self.unused_blocks.append' and c.args and isinstance(c.args[0], ast.Tuple)
                    and isinstance(c.args[0].elts[0], ast.Name) and c.args[0].elts[0].id in idx_vars]
        if by_index:
            ctx.violation('TBL', f"{spec.split('.')[-1]} tags its unused text {tag}",
                          f"`{norm(by_index[0])[:60]}` tags the leftover text with the loop index: for the first (or only) "
                          f"Twp/Rge that is 0, which sec_within reads as 'before the description'",
                          key=f"TBL|{spec}|tag", where=common.loc(f2, by_index[0]))
            continue
        ctx.tri(tags == [tag], bool(tags) and any(t_ != tag for t_ in tags), 'TBL',
                f"{spec.split('.')[-1]} tags its unused text {tag}",
                detail_bad=f"leftover text is tagged {tags}: sec_within attaches it on the wrong side",
                key=f"TBL|{spec}|tag")
    # consumer sets marker -> warning
    cw = ctx.repo.func('PLSSParser.check_sec_within_tracts')
    t3 = ' '.join(norm(s) for s in walk_local(cw.node) if isinstance(s, ast.stmt))
    ctx.shape('for i in self.sec_within_indexes' in t3 and 'self.w_flags.append(flag)' in t3
              and 'self.w_flag_lines.append((flag, context))' in t3 and 'sec_within<' in t3, 'PAIR',
              'every repaired tract raises a paired sec_within warning')
    ct = ctx.repo.func('PLSSParser.construct_tracts')
    t4 = ' '.join(norm(s) for s in walk_local(ct.node) if isinstance(s, ast.stmt))
    ctx.shape("if tract_data['sec_within']" in t4 and 'self.sec_within_indexes.append(self.next_tract_uid)' in t4, 'TBL',
              'construct_tracts records the index of every repaired tract')
    # ordering in PLSSParser.parse: rebuild (under sec_within) before construct_tracts
    pp = ctx.repo.func('PLSSParser.parse')
    cfg, _ = flow.analyse(pp.node)
    rb = [enclosing_stmt(c) for c in walk_local(pp.node) if isinstance(c, ast.Call) and dotted(c.func) == 'rebuild_sec_within']
    cs = [enclosing_stmt(c) for c in walk_local(pp.node) if isinstance(c, ast.Call) and dotted(c.func) == 'self.construct_tracts']
    if len(rb) != 1 or len(cs) != 1:
        ctx.undecided('ORDER', 'unused text is re-attached before the tracts are constructed', 'calls not recognised')
        return
    gs = [(norm(tt), pol) for tt, pol in guards(rb[0])]
    ctx.tri(gs == [('self.sec_within', True)], gs == [], 'ORDER', 'PLSSParser.parse re-attaches unused text only under sec_within',
            detail_bad="rebuild_sec_within runs unconditionally: unused text is glued onto tracts although sec_within is off",
            key="ORDER|PLSSParser.parse|sec_within-guard")
    a, b = cfg.node_of(rb[0]._parent if isinstance(rb[0]._parent, ast.If) else rb[0]), cfg.node_of(cs[0])
    ctx.check(cfg.must_pass(cfg.entry, [a], to=b) and a.id != b.id and b not in cfg.reachable_from(cfg.entry, blocked=[a]), 'ORDER',
              'unused text is re-attached before the tracts are constructed',
              detail_bad="rebuild_sec_within runs after construct_tracts(): the Tract objects already exist, so the "
                         "re-attached text is lost (and the unused list is emptied without a flag)",
              key="ORDER|PLSSParser.parse|rebuild-before-construct", where=common.loc(pp, rb[0]))
    args = [norm(x) for x in rb[0].value.args] if isinstance(rb[0], ast.Expr) else []
    ctx.shape(args[:2] == ['self.tract_components', 'self.unused_components'], 'ORDER',
              'the parser-level repair works on the parser lists')
    pc = ctx.repo.func('ChunkParser.parse_chunk')
    rbc = [c for c in walk_local(pc.node) if isinstance(c, ast.Call) and dotted(c.func) == 'rebuild_sec_within']
    ok = len(rbc) == 1 and [(norm(tt), pol) for tt, pol in guards(rbc[0])] == [('self.parent.sec_within', True)] \
        and [norm(x) for x in rbc[0].args[:2]] == ['self.tract_components', 'self.unused_components']
    ctx.shape(ok, 'ORDER', 'the chunk-level repair runs under sec_within on the chunk lists')


def _segment(ctx):
    pp = ctx.repo.func('PLSSParser.parse')
    t = ' '.join(norm(s) for s in walk_local(pp.node) if isinstance(s, ast.stmt))
    segs = [n for n in pp.node.body if isinstance(n, ast.If) and norm(n.test) == 'segment']
    ok = len(segs) == 1 and [norm(s) for s in segs[0].body] == [
        'chunker = PLSSChunker(self.text, layout=self.layout)', 'self.blocks = chunker.blocks',
        'self.unused_components.extend(chunker.unused_blocks)']
    ctx.shape(ok, 'TBL', 'segment: blocks from the chunker, its unused text kept for flagging / sec_within')
    pi = ctx.repo.func('PLSSParser.__init__')
    ti = [norm(s) for s in walk_local(pi.node) if isinstance(s, ast.stmt)]
    ctx.shape('self.blocks = [self.text]' in ti, 'TBL', 'without segment the whole text is one block')
    # chunk slices tile the text (first: [start, next_start); last: [previous_end, end))
    for spec, blk in (('PLSSChunker._segment_twprge_first', 'text[start:next_start]'),
                      ('PLSSChunker._segment_twprge_last', 'text[previous_end:end]')):
        f2 = ctx.repo.func(spec)
        t2 = ' '.join(norm(s) for s in walk_local(f2.node) if isinstance(s, ast.stmt))
        ctx.shape(f"new_block = {blk}" in t2 and 'self.blocks.append(new_block)' in t2, 'TBL',
                  f"{spec.split('.')[-1]}: chunk i is {blk}")


def _segment_uses_the_finder(ctx):
    """PLSSChunker.segment cuts the text at the Twp/Rges that the PARSER will
    use: the matches of TwpRgeFinder for the layout, which leaves out a
    Twp/Rge that merely continues a section reference ("... of Section 4 of
    T154N-R97W ...").  Cutting at every raw regex match instead splits the
    text at such references, so with `segment` the tracts differ from the
    unsegmented parse."""
    fi = ctx.repo.func('PLSSChunker.segment')
    construct = 'PLSSChunker.segment cuts at the Twp/Rges TwpRgeFinder keeps for the layout'
    defs = [a for a in walk_local(fi.node) if isinstance(a, ast.Assign) and norm(a.targets[0]) == 'matches']
    if not defs:
        ctx.undecided('SIB', construct, '`matches = ...` not found')
        return
    for a in defs:
        calls = {(dotted(c.func) or '').split('.')[-1] for c in ast.walk(a.value) if isinstance(c, ast.Call)}
        raw = [c for c in ast.walk(a.value) if isinstance(c, ast.Call) and isinstance(c.func, ast.Attribute)
               and c.func.attr in ('finditer', 'findall', 'search') and 'twprge' in norm(c.func.value).lower()]
        ctx.tri('TwpRgeFinder' in calls, bool(raw) and 'TwpRgeFinder' not in calls, 'SIB', construct,
                detail_bad=f"`{norm(a)[:80]}` takes every match of the raw pattern: a Twp/Rge that the finder ignores for this layout "
                           f"(one that follows 'Section N of') becomes a cut point, so the segmented parse splits / shifts tracts and "
                           f"raises twprge_error / unused_desc where the unsegmented parse is clean",
                key="SIB|PLSSChunker.segment|raw-matches", where=common.loc(fi, a))


def _sec_within_length_gate(ctx):
    """rebuild_sec_within re-attaches a left-over block only if it is at
    least `min_length` characters long; shorter text ('RR', 'in') is in
    neither the rebuilt description nor a flag.  The gate exists on the
    unchanged tree (a recorded finding, keyed by the folded threshold the
    callers pass); a larger threshold drops ordinary short words ('less RR',
    'in RoW') and is a different, new key."""
    fi = ctx.repo.func('plss_parse:rebuild_sec_within')
    gates = [c for c in walk_local(fi.node) if isinstance(c, ast.Compare) and len(c.ops) == 1
             and isinstance(c.left, ast.Call) and dotted(c.left.func) == 'len' and 'min_length' in norm(c.comparators[0])]
    if not gates:
        ctx.ok('SINK', 'rebuild_sec_within re-attaches every left-over block', 'no length gate')
        return
    vals = set()
    for f2 in ctx.repo.funcs.values():
        for c in walk_local(f2.node):
            if isinstance(c, ast.Call) and (dotted(c.func) or '').split('.')[-1] == 'rebuild_sec_within':
                kw = {k.arg: k.value for k in c.keywords if k.arg}
                arg = kw.get('min_length', c.args[2] if len(c.args) > 2 else None)
                if arg is None:
                    d = fi.param_defaults().get('min_length') if hasattr(fi, 'param_defaults') else None
                    v = ctx.fold.eval(d, {}, fi.module.name) if d is not None else None
                else:
                    v = None
                    if isinstance(arg, ast.Attribute) and arg.attr.isupper():
                        try:
                            v = ctx.fold.get_attr('plss_parse', 'PLSSParser', arg.attr)
                        except AnalysisError:
                            v = None
                    if v is None:
                        v = common.fold_in_func(ctx, f2, arg)
                vals.add(v if isinstance(v, int) else None)
    if not vals or None in vals:
        ctx.undecided('SINK', 'rebuild_sec_within: length gate', 'the threshold the callers pass does not fold')
        return
    val = max(vals)
    ctx.violation('SINK', f"rebuild_sec_within re-attaches a left-over block only if `{norm(gates[0])}`",
                  f"with sec_within, left-over text shorter than {val} characters is dropped from the rebuilt description without a flag "
                  f"(the property asks for the leading and trailing text joined in order)",
                  key=f"SINK|rebuild_sec_within|min-length|{val}", where=common.loc(fi, gates[0]))


def _layout_threshold_measures_the_written_text(ctx):
    """deduce_layout tells TR_desc_S from TRS_desc by how much text stands
    between the first Twp/Rge and the first section (>= a few characters: a
    description).  The measure is the text as written (stripped): running it
    through the clean-up function first culls connector words ('W/2 of' ->
    'W/2', below the threshold), and because `segment` re-deduces the layout
    per chunk, a chunk whose leading description is a half then parses under
    another layout than the description as a whole: segment on != segment off."""
    fi = ctx.repo.func('plss_parse:deduce_layout')
    cname = common.cleanup_name(ctx)
    n = 0
    for c in walk_local(fi.node):
        if isinstance(c, ast.Compare) and len(c.ops) == 1 and isinstance(c.left, ast.Call) and dotted(c.left.func) == 'len' and c.left.args \
                and isinstance(c.comparators[0], ast.Constant) and isinstance(c.comparators[0].value, int):
            pv = flow.provenance(fi.node, c.left.args[0])
            calls = {x.split('.')[-1] for x in flow.prov_calls(pv)}
            n += 1
            ctx.check(cname not in calls, 'SIB', f"deduce_layout: `{norm(c)}` measures the text as written",
                      detail_bad=f"the text measured by `{norm(c)}` went through {cname}(): connector words are culled before the "
                                 f"threshold ('W/2 of' counts 3 characters, 'SW/4 of' 4), so with `segment` a later chunk that starts with a "
                                 f"half is deduced as TRS_desc while the whole description is TR_desc_S - its sections are rejected and "
                                 f"the chunk collapses into one copy_all tract", key="SIB|deduce_layout|threshold-after-cleanup",
                      where=common.loc(fi, c))
    if n == 0:
        ctx.undecided('SIB', 'deduce_layout: the description-length threshold', 'no length comparison found')
