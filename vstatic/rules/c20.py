"""
C20 -- optional parse modes are conservative where they are not needed.
"""

import ast

from .. import AnalysisError, flow
from ..fold import is_unknown
from ..srcmodel import walk_local, norm, dotted, guards, enclosing_stmt
from . import common, families as F
from .layouts import check_dispatch, layout_classes
from .c08 import _inc

META = {
    'explanation': (
        "Equivalence of `segment` on/off on single-layout text is not decided "
        "(chunk boundaries are runtime). Decided: need_colon is consulted only "
        "in the guard `need_colon and sec_mo['colon'] is None`, so colon modes "
        "cannot change anything when every section match has its colon group "
        "(and the colon group accepts the documented spellings); the "
        "require_colon lattice {False, True, CAUTIOUS, SECOND_PASS} is "
        "produced and consumed exhaustively, True never reaches the second "
        "pass, the second pass clears staged flags, runs without need_colon "
        "and raises a paired warning; colon modes and chunking use the right "
        "layout classes; sec_within producer/consumer protocol (tags, FIFO "
        "consumption, prefix on 0 / suffix otherwise, exactly one component, "
        "warning) and its ordering before tracts are constructed."),
    'families': ['TBL', 'LOCK', 'ORDER', 'PAIR'],
}


def check(ctx):
    ctx.consult('plssdesc/plss_parse.py', 'plssdesc/plssdesc.py', 'rgxlib/sec.py')
    ctx.attempt(check_dispatch)
    ctx.attempt(_colon)
    ctx.attempt(_sec_within)
    ctx.attempt(_segment)


def _colon(ctx):
    fi = ctx.repo.func('SecFinder.findall_matching_sec')
    uses = [n for n in walk_local(fi.node) if isinstance(n, ast.Name) and n.id == 'need_colon'
            and isinstance(n.ctx, ast.Load)]
    ctx.floor('need_colon uses', len(uses), 1)
    for u in uses:
        st = enclosing_stmt(u)
        ok = isinstance(st, ast.If) and norm(st.test) == "need_colon and sec_mo['colon'] is None"
        ctx.check(ok, 'TBL', "need_colon only matters for a section match without a colon",
                  "`if need_colon and sec_mo['colon'] is None`",
                  f"need_colon is consulted in `{norm(st)[:70]}`: colon modes can change the result even when "
                  f"every section has its colon", key="TBL|SecFinder|need_colon-use", where=common.loc(fi, u))
    ms = ctx.fold.get('rgxlib.sec', 'multisec_regex')
    ctx.attempt(_inc, 'RX-LANG', 'multisec_regex', F.MULTISEC, ms, 'section lists with optional (spaced) colon')
    L = common.lang(ctx, ms)
    for s in ('Sec 14:', 'Section 14 :', 'Sec 1 - 3:', 'Sections 1, 2 and 5:'):
        ctx.check(L.fullmatch(s), 'RX-LANG', f"multisec_regex takes the colon of {s!r} into the match",
                  detail_bad=f"{s!r}: the colon is not part of the section match, so colon modes reject a section "
                             f"that does have one", key=f"RX-LANG|multisec_regex|colon|{s}")
    gf = common.group_facts(ctx, ms)
    ctx.check('colon' in gf and gf['colon'].optional, 'RX-GROUPS', 'multisec_regex: optional colon group',
              detail_bad="colon group missing/mandatory", key="RX-GROUPS|multisec_regex|colon")
    # lattice
    sfc = ctx.repo.cls('plss_parse:SecFinder')
    consts = {norm(s.targets[0]): ctx.fold.eval(s.value, {}, sfc.module.name)
              for s in sfc.node.body if isinstance(s, ast.Assign)}
    ctx.check(consts.get('SEC_COLON_CAUTIOUS') not in (None, True, False) and consts.get('SECOND_PASS') not in (None, True, False)
              and consts.get('SEC_COLON_CAUTIOUS') != consts.get('SECOND_PASS'), 'TBL',
              'SEC_COLON_CAUTIOUS and SECOND_PASS are distinct non-bool markers',
              detail_bad=f"markers {consts}", key="TBL|SecFinder|markers")
    t = ' '.join(norm(s) for s in walk_local(fi.node) if isinstance(s, ast.stmt))
    chain = [n for n in fi.node.body if isinstance(n, ast.If) and norm(n.test) == 'isinstance(require_colon, bool)']
    ok = False
    if chain:
        c = chain[0]
        b1 = [norm(s) for s in c.body]
        el = c.orelse[0] if len(c.orelse) == 1 and isinstance(c.orelse[0], ast.If) else None
        if el is not None and norm(el.test) == 'require_colon == self.SECOND_PASS':
            b2 = [norm(s) for s in el.body]
            b3 = [norm(s) for s in el.orelse]
            ok = b1 == ['need_colon = require_colon'] and 'need_colon = False' in b2 \
                and 'self.flags = []' in b2 and 'self.flag_lines = []' in b2 and b3 == ['need_colon = True']
    ctx.check(ok, 'TBL', 'require_colon lattice: bool -> itself; SECOND_PASS -> no colon needed, staged flags cleared; CAUTIOUS -> colon needed',
              detail_bad="the require_colon decoding chain changed", key="TBL|SecFinder|lattice")
    # second pass only for CAUTIOUS (never for True), only when nothing matched, paired warning
    sec = [n for n in fi.node.body if isinstance(n, ast.If) and 'self.SEC_COLON_CAUTIOUS' in norm(n.test)]
    ok = bool(sec) and norm(sec[0].test).startswith('require_colon == self.SEC_COLON_CAUTIOUS and layout in') \
        and any(isinstance(c, ast.Call) and dotted(c.func) == 'self.findall_matching_sec'
                and any(k.arg == 'require_colon' and norm(k.value) == 'self.SECOND_PASS' for k in c.keywords)
                for c in ast.walk(sec[0]))
    ctx.check(ok, 'TBL', 'a second pass runs only for sec_colon_cautious (never for sec_colon_required)',
              detail_bad="second-pass trigger changed", key="TBL|SecFinder|second-pass")
    m = [n for n in fi.node.body if isinstance(n, ast.If) and norm(n.test) == 'self.matches and require_colon != self.SECOND_PASS']
    ok = bool(m) and any(isinstance(s, ast.Return) for s in m[0].body) and len(m[0].orelse) == 1 \
        and isinstance(m[0].orelse[0], ast.If) and norm(m[0].orelse[0].test) == 'self.matches'
    body2 = [norm(s) for s in m[0].orelse[0].body] if ok else []
    ctx.check(ok and 'self.flags.append(flag)' in body2 and 'self.flag_lines.append((flag, flag))' in body2
              and any('pulled_sec_without_colon' in x for x in body2), 'PAIR',
              'sections pulled by the second pass raise a paired pulled_sec_without_colon warning',
              detail_bad="second-pass warning missing / unpaired", key="PAIR|SecFinder|second-pass-warning")
    # producers of require_colon
    prop = ctx.repo.func('PLSSDesc.require_colon')
    vals = set()
    for n in walk_local(prop.node):
        if isinstance(n, ast.Assign) and norm(n.targets[0]) == 'required':
            vals.add(norm(n.value))
    ctx.check(vals == {'self.sec_colon_required', 'SecFinder.SEC_COLON_CAUTIOUS'}, 'LOCK',
              'PLSSDesc.require_colon yields required-bool or the CAUTIOUS marker',
              detail_bad=f"values {sorted(vals)}", key="LOCK|PLSSDesc.require_colon|values")
    p = ctx.repo.func('PLSSDesc.parse')
    vals = set()
    for n in walk_local(p.node):
        if isinstance(n, ast.Assign) and norm(n.targets[0]) == 'require_colon':
            vals.add(norm(n.value))
    ctx.check(vals == {'sec_colon_required', 'SecFinder.SEC_COLON_CAUTIOUS'}, 'LOCK',
              'PLSSDesc.parse yields required-bool or the CAUTIOUS marker (from the locked-down arguments)',
              detail_bad=f"values {sorted(vals)}", key="LOCK|PLSSDesc.parse|require_colon-values")
    prov_ok = False
    for n in walk_local(p.node):
        if isinstance(n, ast.Assign) and norm(n) == 'require_colon = sec_colon_required':
            pv = flow.provenance(p.node, n.value)
            prov_ok = 'sec_colon_required' in flow.prov_params(pv) and 'self.sec_colon_required' in flow.prov_attrs(pv)
    ctx.check(prov_ok, 'LOCK', 'sec_colon_required: keyword if given, else attribute',
              detail_bad="parse(sec_colon_required=...) does not reach the parser", key="LOCK|PLSSDesc.parse|sec_colon_required")
    fm = ctx.repo.func('ChunkParser.find_matches')
    t = ' '.join(norm(s) for s in walk_local(fm.node) if isinstance(s, ast.stmt))
    ctx.check('SecFinder(text, layout, self.parent.require_colon)' in t, 'LOCK',
              "every chunk's SecFinder receives the parser's require_colon", detail_bad="require_colon not forwarded",
              key="LOCK|find_matches|require_colon")
    pi = ctx.repo.func('PLSSParser.__init__')
    ctx.check('self.require_colon = require_colon' in [norm(s) for s in walk_local(pi.node) if isinstance(s, ast.stmt)],
              'LOCK', 'PLSSParser stores require_colon', detail_bad="require_colon dropped", key="LOCK|PLSSParser|require_colon")


def _sec_within(ctx):
    fi = ctx.repo.func('plss_parse:rebuild_sec_within')
    t = ' '.join(norm(s) for s in walk_local(fi.node) if isinstance(s, ast.stmt))
    ctx.check('if len(tract_components) != 1' in t, 'TBL', 'sec_within acts only when exactly one tract component is staged',
              detail_bad="the one-component condition changed", key="TBL|rebuild_sec_within|one")
    pops = [c for c in walk_local(fi.node) if isinstance(c, ast.Call) and norm(c.func) == 'unused_components.pop']
    if len(pops) != 1:
        raise AnalysisError("rebuild_sec_within: unused_components.pop not found")
    arg = norm(pops[0].args[0]) if pops[0].args else None
    ctx.check(arg == '0', 'ORDER', 'unused blocks are re-attached in reading order (pop(0))',
              'FIFO', f"`{norm(pops[0])}` takes the blocks from the end: pieces on the same side of the section are "
                      f"joined in swapped order", key="ORDER|rebuild_sec_within|fifo", where=common.loc(fi, pops[0]))
    pre = [n for n in walk_local(fi.node) if isinstance(n, ast.Assign) and norm(n.targets[0]) == 'desc'
           and isinstance(n.value, ast.JoinedStr)]
    forms = {}
    for n in pre:
        parts = [norm(v.value) for v in n.value.values if isinstance(v, ast.FormattedValue)]
        gs = [(norm(tt), pol) for tt, pol in guards(n)]
        forms[tuple(parts)] = gs
    ok = ('unused', 'desc') in forms and ('desc', 'unused') in forms \
        and ('i == 0', True) in forms[('unused', 'desc')] and ('i == 0', False) in forms[('desc', 'unused')]
    ctx.check(ok, 'TBL', 'text tagged 0 is put before the description, anything else after it',
              detail_bad=f"prefix/suffix forms {forms}", key="TBL|rebuild_sec_within|sides")
    ctx.check("repaired_tract['sec_within'] = True" in t and "repaired_tract['desc'] = desc" in t, 'TBL',
              'a repaired component is marked sec_within', detail_bad="marking changed", key="TBL|rebuild_sec_within|mark")
    # producers
    pm = ctx.repo.func('ChunkParser._parse_meaningful')
    tp = ' '.join(norm(s) for s in walk_local(pm.node) if isinstance(s, ast.stmt))
    ctx.check('self.unused_components.append((len(self.tract_components), block))' in tp, 'TBL',
              'unused blocks are tagged with the number of tracts staged so far (0 = before the first)',
              detail_bad="tag of unused blocks changed", key="TBL|_parse_meaningful|tag")
    for spec, tag, sl in (('PLSSChunker._segment_twprge_first', '0', 'text[:start]'),
                          ('PLSSChunker._segment_twprge_last', '1', 'text[end:]')):
        f2 = ctx.repo.func(spec)
        t2 = ' '.join(norm(s) for s in walk_local(f2.node) if isinstance(s, ast.stmt))
        ctx.check(f"self.unused_blocks.append(({tag}, {sl}))" in t2, 'TBL',
                  f"{spec.split('.')[-1]} tags its unused text {tag}",
                  detail_bad="chunker tag/slice changed", key=f"TBL|{spec}|tag")
    # consumer sets marker -> warning
    cw = ctx.repo.func('PLSSParser.check_sec_within_tracts')
    t3 = ' '.join(norm(s) for s in walk_local(cw.node) if isinstance(s, ast.stmt))
    ctx.check('for i in self.sec_within_indexes' in t3 and 'self.w_flags.append(flag)' in t3
              and 'self.w_flag_lines.append((flag, context))' in t3 and 'sec_within<' in t3, 'PAIR',
              'every repaired tract raises a paired sec_within warning', detail_bad="sec_within warning changed",
              key="PAIR|check_sec_within_tracts")
    ct = ctx.repo.func('PLSSParser.construct_tracts')
    t4 = ' '.join(norm(s) for s in walk_local(ct.node) if isinstance(s, ast.stmt))
    ctx.check("if tract_data['sec_within']" in t4 and 'self.sec_within_indexes.append(self.next_tract_uid)' in t4, 'TBL',
              'construct_tracts records the index of every repaired tract', detail_bad="index recording changed",
              key="TBL|construct_tracts|sec_within")
    # ordering in PLSSParser.parse: rebuild (under sec_within) before construct_tracts
    pp = ctx.repo.func('PLSSParser.parse')
    cfg, _ = flow.analyse(pp.node)
    rb = [enclosing_stmt(c) for c in walk_local(pp.node) if isinstance(c, ast.Call) and dotted(c.func) == 'rebuild_sec_within']
    cs = [enclosing_stmt(c) for c in walk_local(pp.node) if isinstance(c, ast.Call) and dotted(c.func) == 'self.construct_tracts']
    if len(rb) != 1 or len(cs) != 1:
        raise AnalysisError("PLSSParser.parse: rebuild_sec_within / construct_tracts calls not found")
    gs = [(norm(tt), pol) for tt, pol in guards(rb[0])]
    ctx.check(gs == [('self.sec_within', True)], 'ORDER', 'PLSSParser.parse re-attaches unused text only under sec_within',
              detail_bad=f"guards {gs}", key="ORDER|PLSSParser.parse|sec_within-guard")
    a, b = cfg.node_of(rb[0]._parent if isinstance(rb[0]._parent, ast.If) else rb[0]), cfg.node_of(cs[0])
    ctx.check(cfg.must_pass(cfg.entry, [a], to=b) and a.id != b.id and b not in cfg.reachable_from(cfg.entry, blocked=[a]), 'ORDER',
              'unused text is re-attached before the tracts are constructed',
              detail_bad="rebuild_sec_within runs after construct_tracts(): the Tract objects already exist, so the "
                         "re-attached text is lost (and the unused list is emptied without a flag)",
              key="ORDER|PLSSParser.parse|rebuild-before-construct", where=common.loc(pp, rb[0]))
    args = [norm(x) for x in rb[0].value.args] if isinstance(rb[0], ast.Expr) else []
    ctx.check(args[:2] == ['self.tract_components', 'self.unused_components'], 'ORDER',
              'the parser-level repair works on the parser lists', detail_bad=f"args {args}",
              key="ORDER|PLSSParser.parse|rebuild-args")
    pc = ctx.repo.func('ChunkParser.parse_chunk')
    rbc = [c for c in walk_local(pc.node) if isinstance(c, ast.Call) and dotted(c.func) == 'rebuild_sec_within']
    ok = len(rbc) == 1 and [(norm(tt), pol) for tt, pol in guards(rbc[0])] == [('self.parent.sec_within', True)] \
        and [norm(x) for x in rbc[0].args[:2]] == ['self.tract_components', 'self.unused_components']
    ctx.check(ok, 'ORDER', 'the chunk-level repair runs under sec_within on the chunk lists',
              detail_bad="chunk-level rebuild_sec_within changed", key="ORDER|parse_chunk|rebuild")


def _segment(ctx):
    pp = ctx.repo.func('PLSSParser.parse')
    t = ' '.join(norm(s) for s in walk_local(pp.node) if isinstance(s, ast.stmt))
    segs = [n for n in pp.node.body if isinstance(n, ast.If) and norm(n.test) == 'segment']
    ok = len(segs) == 1 and [norm(s) for s in segs[0].body] == [
        'chunker = PLSSChunker(self.text, layout=self.layout)', 'self.blocks = chunker.blocks',
        'self.unused_components.extend(chunker.unused_blocks)']
    ctx.check(ok, 'TBL', 'segment: blocks from the chunker, its unused text kept for flagging / sec_within',
              detail_bad="segment block changed", key="TBL|PLSSParser.parse|segment")
    pi = ctx.repo.func('PLSSParser.__init__')
    ti = [norm(s) for s in walk_local(pi.node) if isinstance(s, ast.stmt)]
    ctx.check('self.blocks = [self.text]' in ti, 'TBL', 'without segment the whole text is one block',
              detail_bad="default blocks changed", key="TBL|PLSSParser.__init__|blocks")
    # chunk slices tile the text (first: [start, next_start); last: [previous_end, end))
    for spec, blk in (('PLSSChunker._segment_twprge_first', 'text[start:next_start]'),
                      ('PLSSChunker._segment_twprge_last', 'text[previous_end:end]')):
        f2 = ctx.repo.func(spec)
        t2 = ' '.join(norm(s) for s in walk_local(f2.node) if isinstance(s, ast.stmt))
        ctx.check(f"new_block = {blk}" in t2 and 'self.blocks.append(new_block)' in t2, 'TBL',
                  f"{spec.split('.')[-1]}: chunk i is {blk}", detail_bad="chunk slice changed",
                  key=f"TBL|{spec}|slice")
