"""
C19 -- bulk export is faithful, ordered and total over documented attributes.
"""

import ast

from .. import AnalysisError, flow
from ..fold import is_unknown
from ..srcmodel import walk_local, norm, dotted, guards, enclosing_stmt
from . import common
from .c15 import alias_roots

META = {
    'explanation': (
        "Every name in Tract.ATTRIBUTES is a member of Tract; to_dict/to_list "
        "read each attribute with the 3-argument getattr whose default is the "
        "documented 'n/a' placeholder and pass the value through untouched, in "
        "argument order; both CSV scrubbers join list/tuple cells as "
        "str(element) over the *flattened* elements and treat dict/list/tuple "
        "alike (sibling rule); one writerow per tract in iteration order, "
        "header iff not (file exists and mode 'a') in both writers; header "
        "construction works on a fresh list. csv quoting is not decided."),
    'families': ['TBL', 'EXC', 'SIB', 'ESCAPE'],
}


def check(ctx):
    ctx.consult('containers/containers.py', 'tractwriter/tractwriter.py', 'tract/tract.py', 'utils/__init__.py')
    tract = ctx.repo.cls('tract.tract:Tract')
    attrs = ctx.fold.get_attr('tract.tract', 'Tract', 'ATTRIBUTES')
    if not isinstance(attrs, dict) or len(attrs) < 20:
        raise AnalysisError("Tract.ATTRIBUTES does not fold")
    members = ctx.repo.class_members(tract)
    for a in attrs:
        ctx.check(a in members, 'TBL', f"Tract.ATTRIBUTES[{a!r}] is an attribute of Tract",
                  detail_bad=f"documented attribute {a!r} does not exist on Tract: export yields the n/a placeholder",
                  key=f"TBL|Tract.ATTRIBUTES|{a}")
    ctx.check(all(isinstance(v, str) and v for v in attrs.values()), 'TBL', 'every attribute has a header text',
              detail_bad="empty header", key="TBL|Tract.ATTRIBUTES|headers")

    for meth in ('to_dict', 'to_list'):
        fi = ctx.repo.func(f"Tract.{meth}")
        rets = [n for n in walk_local(fi.node) if isinstance(n, ast.Return)]
        if len(rets) != 1 or not isinstance(rets[0].value, (ast.DictComp, ast.ListComp)):
            # not the comprehension form: look for post-processing
            gets = [c for c in walk_local(fi.node) if isinstance(c, ast.Call) and dotted(c.func) == 'getattr']
            if gets and (len(gets[0].args) < 3 or 'n/a' not in norm(gets[0].args[2])):
                ctx.violation('TBL', f"Tract.{meth}: value = getattr(self, att, '<att>: n/a')",
                              f"`{norm(gets[0])}`: the placeholder is no longer the getattr default, so a "
                              f"documented attribute whose real value is None (or falsy) is exported as 'n/a'",
                              key=f"TBL|Tract.{meth}|getattr", where=common.loc(fi, gets[0]))
                continue
            raise AnalysisError(f"Tract.{meth}: unrecognised shape")
        comp = rets[0].value
        val = comp.value if isinstance(comp, ast.DictComp) else comp.elt
        ok = isinstance(val, ast.Call) and dotted(val.func) == 'getattr' and len(val.args) == 3 \
            and norm(val.args[0]) == 'self' and norm(val.args[1]) == 'att' \
            and isinstance(val.args[2], ast.JoinedStr) and 'n/a' in norm(val.args[2])
        ctx.check(ok, 'TBL', f"Tract.{meth}: value = getattr(self, att, '<att>: n/a')",
                  detail_bad=f"value expression is `{norm(val)}`", key=f"TBL|Tract.{meth}|getattr")
        gen = comp.generators[0]
        ctx.check(len(comp.generators) == 1 and norm(gen.iter) == 'attributes' and not gen.ifs, 'TBL',
                  f"Tract.{meth}: one entry per requested attribute, in order",
                  detail_bad="iteration changed", key=f"TBL|Tract.{meth}|order")
        if isinstance(comp, ast.DictComp):
            ctx.check(norm(comp.key) == 'att', 'TBL', 'Tract.to_dict keys are the attribute names',
                      detail_bad=f"key is `{norm(comp.key)}`", key="TBL|Tract.to_dict|key")
        t = [norm(s) for s in fi.node.body]
        ctx.check('attributes = clean_attributes(attributes)' in t, 'TBL', f"Tract.{meth} flattens/validates the names",
                  detail_bad="clean_attributes call gone", key=f"TBL|Tract.{meth}|clean")

    tl = ctx.repo.cls('containers:TractList')
    for meth, inner in (('tracts_to_dict', 't.to_dict(attributes)'), ('tracts_to_list', 't.to_list(attributes)')):
        fi = tl.methods[meth]
        r = norm(fi.node.body[-1])
        ctx.check(r == f"return [{inner} for t in self]", 'TBL', f"TractList.{meth}: one record per tract, in order",
                  detail_bad=f"`{r}`", key=f"TBL|TractList.{meth}")
    for meth, inner in (('iter_to_dict', 'tract.to_dict(attributes)'), ('iter_to_list', 'tract.to_list(attributes)')):
        fi = tl.methods[meth]
        t = ' '.join(norm(s) for s in walk_local(fi.node) if isinstance(s, ast.stmt))
        ctx.check(f"for tract in self: yield {inner}" in t.replace('\n', ' ') or (
            'for tract in self' in t and f"yield {inner}" in t), 'TBL',
            f"TractList.{meth}: yields one record per tract, in order",
            detail_bad=f"{meth} changed", key=f"TBL|TractList.{meth}")

    ctx.attempt(_scrubbers)
    ctx.attempt(_writers)
    ctx.attempt(_headers)


def _join_sites(fi):
    for c in walk_local(fi.node):
        if isinstance(c, ast.Call) and isinstance(c.func, ast.Attribute) and c.func.attr == 'join' \
                and isinstance(c.func.value, ast.Constant) and isinstance(c.func.value.value, str):
            yield c


def _scrubbers(ctx):
    scrubs = [ctx.repo.func('TractList.tracts_to_csv.scrub_row'), ctx.repo.func('TractWriter._scrub_row')]
    shapes = []
    for fi in scrubs:
        joins = list(_join_sites(fi))
        ctx.floor(f"{fi.qualname} join sites", len(joins), 2)
        tests = sorted(norm(n.test) for n in walk_local(fi.node) if isinstance(n, ast.If))
        shapes.append(tests)
        for j in joins:
            arg = j.args[0]
            gs = [norm(t) for t, pol in guards(j) if pol]
            construct = f"{fi.qualname}: {norm(j)[:60]}"
            if any('dict' in g for g in gs):
                ok = isinstance(arg, (ast.ListComp, ast.GeneratorExp)) and isinstance(arg.elt, ast.JoinedStr)
                ctx.check(ok, 'EXC', construct, 'dict cell: f-string per item (always str)',
                          "dict items are joined without being formatted to str", key=f"EXC|{fi.qualname}|dict-join")
                continue
            # list / tuple cell
            is_comp = isinstance(arg, (ast.ListComp, ast.GeneratorExp))
            elt_str = is_comp and isinstance(arg.elt, ast.Call) and dotted(arg.elt.func) == 'str'
            if not elt_str and is_comp and isinstance(arg.elt, ast.JoinedStr):
                elt_str = True
            if not is_comp and isinstance(arg, ast.Call) and dotted(arg.func) == 'map' \
                    and arg.args and norm(arg.args[0]) == 'str':
                is_comp, elt_str = True, True
            ctx.check(bool(elt_str), 'EXC', construct, 'elements converted with str()',
                      f"`{norm(j)}` joins the elements as they are: TypeError for documented attributes whose "
                      f"elements are not str (ilots: int, *_flag_lines: tuple)",
                      key=f"EXC|{fi.qualname}|list-join|str", where=common.loc(fi, j))
            it = arg.generators[0].iter if isinstance(arg, (ast.ListComp, ast.GeneratorExp)) else (
                arg.args[1] if isinstance(arg, ast.Call) and len(arg.args) > 1 else arg)
            prov = flow.provenance(fi.node, it)
            ctx.check('flatten' in flow.prov_calls(prov), 'EXC', f"{construct} over flatten(elem)",
                      'nested tuples (flag lines) are flattened before joining',
                      f"the join iterates `{norm(it)}`, not the flattened elements: (flag, context) tuples are "
                      f"written as tuple reprs / the two writers disagree",
                      key=f"EXC|{fi.qualname}|list-join|flatten", where=common.loc(fi, j))
        t = ' '.join(norm(s) for s in walk_local(fi.node) if isinstance(s, ast.stmt))
        ctx.check('scrubbed.append(elem)' in t and 'for elem in data' in t and 'return scrubbed' in t, 'SIB',
                  f"{fi.qualname}: every cell is kept (converted or as is)", detail_bad="cells can be dropped",
                  key=f"SIB|{fi.qualname}|keep")
    ctx.check(shapes[0] == shapes[1] and 'isinstance(elem, dict)' in shapes[0]
              and 'isinstance(elem, (list, tuple))' in shapes[0], 'SIB',
              'scrub_row / _scrub_row treat dict, list and tuple cells alike',
              detail_bad=f"tracts_to_csv: {shapes[0]}; TractWriter: {shapes[1]}", key="SIB|scrub_row|types")
    fl = ctx.repo.func('utils:flatten')
    t = ' '.join(norm(s) for s in walk_local(fl.node) if isinstance(s, ast.stmt))
    ctx.check('while any((isinstance(e, (list, tuple)) for e in list_or_tuple))' in t
              and 'unpacked.extend(element)' in t and 'unpacked.append(element)' in t, 'SIB',
              'flatten unpacks nested lists/tuples until none is left, keeping every leaf',
              detail_bad="flatten changed", key="SIB|flatten")


def _writers(ctx):
    csvf = ctx.repo.func('TractList.tracts_to_csv')
    t = ' '.join(norm(s) for s in walk_local(csvf.node) if isinstance(s, ast.stmt))
    ctx.check("headers = True" in t and "if fp.exists() and mode == 'a'" in t and 'headers = False' in t
              and 'if headers' in t and 'writer.writerow(header_row)' in t, 'SIB',
              "tracts_to_csv: header unless the file exists and mode is 'a'",
              detail_bad="header condition changed", key="SIB|tracts_to_csv|header")
    loops = [n for n in walk_local(csvf.node) if isinstance(n, ast.For) and norm(n.iter) == 'self']
    ok = len(loops) == 1 and [norm(s) for s in loops[0].body] == [
        'row = tract.to_list(attributes)', 'row = scrub_row(row)', 'writer.writerow(row)']
    ctx.check(ok, 'SIB', 'tracts_to_csv: exactly one scrubbed row per tract, in order',
              detail_bad=f"row loop is {[norm(s) for s in loops[0].body] if loops else None}",
              key="SIB|tracts_to_csv|rows")
    ctx.check("open(fp, mode=mode, newline='')" in t, 'SIB', "tracts_to_csv opens the file with newline=''",
              detail_bad="open() arguments changed", key="SIB|tracts_to_csv|open")
    init = ctx.repo.func('TractWriter.__init__')
    t = ' '.join(norm(s) for s in walk_local(init.node) if isinstance(s, ast.stmt))
    ctx.check('write_headers = True' in t and "if self.fp.exists() and mode == 'a'" in t
              and 'write_headers = False' in t and 'if write_headers' in t and 'self.write_headers()' in t,
              'SIB', "TractWriter: header unless the file exists and mode is 'a'",
              detail_bad="header condition changed", key="SIB|TractWriter|header")
    # the existence test must precede open() (open creates the file)
    cfg, _ = flow.analyse(init.node)
    ex = [n for n in init.node.body if isinstance(n, ast.If) and 'self.fp.exists()' in norm(n.test)]
    op = [n for n in init.node.body if isinstance(n, ast.Expr) and norm(n) == 'self.open()']
    ctx.check(bool(ex) and bool(op) and cfg.precedes_always(ex[0], op[0]), 'SIB',
              'TractWriter decides about the header before opening (creating) the file',
              detail_bad="the existence test runs after open(): a new file never gets a header",
              key="SIB|TractWriter|header-before-open")
    w = ctx.repo.func('TractWriter.write')
    loops = [n for n in walk_local(w.node) if isinstance(n, ast.For) and norm(n.iter) == 'tl']
    ok = len(loops) == 1
    if ok:
        body = [norm(s) for s in loops[0].body]
        ok = body[0] == 'row = tract.to_list(self.attributes)' and 'row = TractWriter._scrub_row(row)' in body \
            and body.count('self.writer.writerow(row)') == 1 and 'written += 1' in body \
            and body.index('row = TractWriter._scrub_row(row)') < body.index('self.writer.writerow(row)')
    ctx.check(ok, 'SIB', 'TractWriter.write: exactly one scrubbed row per tract, in order',
              detail_bad="row loop changed", key="SIB|TractWriter.write|rows")
    t = ' '.join(norm(s) for s in walk_local(w.node) if isinstance(s, ast.stmt))
    ctx.check('tl = TractList.from_multiple(to_write)' in t, 'SIB', 'TractWriter.write accepts anything TractList.from_multiple does',
              detail_bad="input handling changed", key="SIB|TractWriter.write|input")


def _headers(ctx):
    gh = ctx.repo.func('Tract.get_headers')
    # whatever gets extended / returned must be a fresh list
    for c in walk_local(gh.node):
        if isinstance(c, ast.Call) and isinstance(c.func, ast.Attribute) and c.func.attr in ('extend', 'append') \
                and isinstance(c.func.value, ast.Name):
            roots = alias_roots(gh, c.func.value)
            ctx.check(all(k == 'fresh' for k, _ in roots), 'ESCAPE',
                      f"Tract.get_headers: `{norm(c)[:40]}` acts on a list built in this call",
                      f"roots {sorted(roots)}",
                      f"`{norm(c)}` mutates {sorted(roots)}: the caller's attribute list grows, so every later "
                      f"row has extra 'n/a' cells and is wider than the header",
                      key="ESCAPE|Tract.get_headers|extend", where=common.loc(gh, c))
    t = ' '.join(norm(s) for s in walk_local(gh.node) if isinstance(s, ast.stmt))
    ctx.check('Tract.ATTRIBUTES.get(att, att)' in t and 'nice_headers.get(att, att)' in t, 'TBL',
              'get_headers falls back to the attribute name for unknown attributes',
              detail_bad="header fallback changed", key="TBL|get_headers|fallback")
    wh = ctx.repo.func('TractWriter.write_headers')
    t = ' '.join(norm(s) for s in walk_local(wh.node) if isinstance(s, ast.stmt))
    ctx.check('Tract.get_headers(self.attributes, self.nice_headers, self.plus_cols)' in t
              and 'self.writer.writerow(header_row)' in t, 'TBL', 'TractWriter.write_headers writes one header row',
              detail_bad="write_headers changed", key="TBL|TractWriter.write_headers")
    # nobody mutates self.attributes of the writer
    tw = ctx.repo.cls('tractwriter:TractWriter')
    for m in tw.methods.values():
        for c in walk_local(m.node):
            if isinstance(c, ast.Call) and isinstance(c.func, ast.Attribute) and norm(c.func.value) == 'self.attributes' \
                    and c.func.attr in ('append', 'extend', 'insert', 'pop', 'remove'):
                ctx.violation('ESCAPE', f"{m.qualname}: {norm(c)[:40]}", "the writer's attribute list is mutated",
                              key=f"ESCAPE|{m.qualname}|attributes")
