"""
C19 -- bulk export is faithful, ordered and total over documented attributes.
"""

import ast

from .. import AnalysisError, flow
from ..fold import is_unknown
from ..srcmodel import walk_local, norm, dotted, guards, enclosing_stmt
from . import common, forward
from .c15 import alias_roots

META = {
    'explanation': (
        "Every name in Tract.ATTRIBUTES is a member of Tract; to_dict/to_list "
        "read each attribute with the 3-argument getattr whose default is the "
        "documented 'n/a' placeholder and pass the value through untouched, in "
        "argument order; both CSV scrubbers join list/tuple cells as "
        "str(element) over the *flattened* elements and treat dict/list/tuple "
        "alike (sibling rule); one writerow per tract in iteration order, "
        "header iff not (file exists and mode 'a') in both writers; header "
        "construction works on a fresh list. csv quoting is not decided."
        " Also: the header decision derives from `mode` and an existence test in both writers, both scrubbers hand a plain cell over unchanged, wrappers delegate to the method of their own name, 'ilots' cannot raise on lot divisions, joined elements are visibly str."
        ' Round 7: the collectors behind the writers keep every element (no identity / membership filter on insert); result caches on the description are keyed by value.'
        ' Round 8: list cells are written entry by entry (no dict.fromkeys de-duplication); no first-element fast path in _from_multiple.'
        ' Round 9: tracts_to_csv opens the file on every call; attribute names are not de-duplicated.'
        ' Round 10: the header decision of both writers is followed for the four combinations of (file exists, mode): header in all but append-to-existing.'
        ' Round 11: every name in Tract.ATTRIBUTES is a value (data attribute or property), not a plain method; ilots witnesses are tried divisions first.'
        " Round 12: helpers of the duplicate filter are exempt by stem ('duplicate')."),
    'families': ['TBL', 'EXC', 'SIB', 'ESCAPE', 'FORWARD', 'DEADPARAM', 'SIB-DEFAULTS'],
}


def check(ctx):
    ctx.consult('containers/containers.py', 'tractwriter/tractwriter.py', 'tract/tract.py', 'utils/__init__.py')
    tract = ctx.repo.cls('tract.tract:Tract')
    attrs = ctx.fold.get_attr('tract.tract', 'Tract', 'ATTRIBUTES')
    if not isinstance(attrs, dict) or len(attrs) < 20:
        raise AnalysisError("Tract.ATTRIBUTES does not fold")
    members = ctx.repo.class_members(tract)
    for a in attrs:
        ctx.check(a in members, 'TBL', f"Tract.ATTRIBUTES[{a!r}] is an attribute of Tract",
                  detail_bad=f"documented attribute {a!r} does not exist on Tract: export yields the n/a placeholder",
                  key=f"TBL|Tract.ATTRIBUTES|{a}")
    # ... and a VALUE: a plain method (no @property) exported by getattr() is a bound-method object
    plain = []
    props = {st.name for c_ in ctx.repo.mro(tract) for st in c_.node.body
             if isinstance(st, (ast.FunctionDef, ast.AsyncFunctionDef)) and any(
                 (dotted(d) or '').split('.')[-1] in ('property', 'cached_property', 'getter', 'setter', 'deleter') for d in st.decorator_list)}
    for c_ in ctx.repo.mro(tract):
        for st in c_.node.body:
            if isinstance(st, (ast.FunctionDef, ast.AsyncFunctionDef)) and st.name in attrs and st.name not in props \
                    and st.name not in plain \
                    and not any(isinstance(b, ast.Assign) and any(isinstance(t, ast.Name) and t.id == st.name for t in b.targets)
                                for b in c_.node.body):
                plain.append(st.name)
    ctx.check(not plain, 'TBL', 'every documented attribute is a value (data attribute or property), not a method',
              detail_bad=f"{sorted(plain)} in Tract.ATTRIBUTES are plain methods: to_dict / to_list / the csv writers call getattr() "
                         f"and export the bound-method object ('<bound method Tract.{plain[0] if plain else ''} of ...>') instead of a value",
              key=f"TBL|Tract.ATTRIBUTES|method|{','.join(sorted(plain))}")
    ctx.check(all(isinstance(v, str) and v for v in attrs.values()), 'TBL', 'every attribute has a header text',
              detail_bad="empty header", key="TBL|Tract.ATTRIBUTES|headers")

    for meth in ('to_dict', 'to_list'):
        fi = ctx.repo.func(f"Tract.{meth}")
        construct = f"Tract.{meth}: value = getattr(self, att, '<att>: n/a')"
        gets = [(c, fi) for c in ast.walk(fi.node) if isinstance(c, ast.Call) and dotted(c.func) == 'getattr']
        delegates = [c for c in ast.walk(fi.node) if isinstance(c, ast.Call)
                     and dotted(c.func) in ('self.to_list', 'self.to_dict')]
        if not gets and delegates:
            ctx.ok('TBL', construct, f"delegates to {dotted(delegates[0].func)}")
        elif not gets:
            ctx.undecided('TBL', construct, 'no getattr and no delegation recognised')
        for g, _fi in gets:
            if len(g.args) < 3 and not any(k.arg == 'default' for k in g.keywords):
                ctx.violation('TBL', construct,
                              f"`{norm(g)}`: the placeholder is no longer the getattr default, so an unknown "
                              f"attribute name raises / a documented attribute whose real value is None (or falsy) "
                              f"is exported as 'n/a'",
                              key=f"TBL|Tract.{meth}|getattr", where=common.loc(fi, g))
                continue
            d = g.args[2]
            if isinstance(d, ast.Constant) and not (isinstance(d.value, str) and 'n/a' in d.value):
                ctx.violation('TBL', construct,
                              f"`{norm(g)}`: a missing attribute is signalled by the ordinary value {d.value!r}, so a "
                              f"documented attribute whose real value is {d.value!r} cannot be told from a missing one "
                              f"(it is exported as the 'n/a' placeholder, or the placeholder is lost)",
                              key=f"TBL|Tract.{meth}|getattr", where=common.loc(fi, g))
                continue
            holder = d
            while holder is not None and not isinstance(holder, (ast.FunctionDef, ast.AsyncFunctionDef)):
                holder = holder._parent
            texts = [norm(d)]
            if isinstance(d, ast.Name) and holder is not None:
                texts += [norm(n.value) for n in ast.walk(holder) if isinstance(n, ast.Assign)
                          and norm(n.targets[0]) == d.id]
            ctx.shape(any('n/a' in t for t in texts), 'TBL', construct, f"`{norm(g)}`",
                      why=f"default `{norm(d)}` not recognised as the '<att>: n/a' placeholder")
        rets = [n for n in walk_local(fi.node) if isinstance(n, ast.Return)]
        if len(rets) != 1 or not isinstance(rets[0].value, (ast.DictComp, ast.ListComp)):
            ctx.undecided('TBL', f"Tract.{meth}: one entry per requested attribute, in order",
                          'not the single-comprehension form')
            continue
        comp = rets[0].value
        gen = comp.generators[0]
        ctx.shape(len(comp.generators) == 1 and norm(gen.iter) == 'attributes' and not gen.ifs, 'TBL',
                  f"Tract.{meth}: one entry per requested attribute, in order")
        if isinstance(comp, ast.DictComp):
            ctx.shape(norm(comp.key) == 'att', 'TBL', 'Tract.to_dict keys are the attribute names')
        t = [norm(s) for s in fi.node.body]
        ctx.shape('attributes = clean_attributes(attributes)' in t, 'TBL', f"Tract.{meth} flattens/validates the names")

    tl = ctx.repo.cls('containers:TractList')
    for meth, inner in (('tracts_to_dict', 't.to_dict(attributes)'), ('tracts_to_list', 't.to_list(attributes)')):
        fi = tl.methods[meth]
        r = norm(fi.node.body[-1])
        ctx.shape(r == f"return [{inner} for t in self]", 'TBL', f"TractList.{meth}: one record per tract, in order")
    for meth, inner in (('iter_to_dict', 'tract.to_dict(attributes)'), ('iter_to_list', 'tract.to_list(attributes)')):
        fi = tl.methods[meth]
        t = ' '.join(norm(s) for s in walk_local(fi.node) if isinstance(s, ast.stmt))
        ctx.shape(f"for tract in self: yield {inner}" in t.replace('\n', ' ') or (
            'for tract in self' in t and f"yield {inner}" in t), 'TBL',
            f"TractList.{meth}: yields one record per tract, in order")

    ctx.attempt(_scrubbers)
    ctx.attempt(_writers)
    ctx.attempt(_headers)
    from .c06 import ilots_after_l        # 'ilots' is a documented export attribute: it must not raise
    ctx.attempt(ilots_after_l)
    ctx.attempt(forward.check_all, module_suffixes=('containers.containers', 'tractwriter.tractwriter', 'plssdesc.plssdesc'))
    # cell fidelity: a list attribute is written entry by entry, repeated entries included
    ctx.attempt(common.dedup_idioms, [f for f in ctx.repo.funcs.values() if f.module.name.endswith(('containers.containers', 'tractwriter.tractwriter', 'pytrs.utils', 'tract.tract'))])
    ctx.attempt(_csv_always_written)
    # one row per tract: the collectors behind the writers keep every element
    ctx.attempt(common.first_element_speaks_for_all, [f for f in ctx.repo.funcs.values() if f.module.name.endswith('containers.containers')])
    ctx.attempt(common.no_dedup_on_insert, [f for f in ctx.repo.funcs.values() if f.module.name.endswith(('containers.containers', 'tractwriter.tractwriter'))])


def _join_sites(fi):
    for c in walk_local(fi.node):
        if isinstance(c, ast.Call) and isinstance(c.func, ast.Attribute) and c.func.attr == 'join' \
                and isinstance(c.func.value, ast.Constant) and isinstance(c.func.value.value, str):
            yield c


def _resolve_local(fi, e):
    """a local name with a single assignment stands for its value"""
    if isinstance(e, ast.Name):
        vals = [n.value for n in ast.walk(fi.node) if isinstance(n, ast.Assign) and len(n.targets) == 1
                and isinstance(n.targets[0], ast.Name) and n.targets[0].id == e.id]
        if len(vals) == 1:
            return vals[0]
    return e


def _strish_elt(e):
    if isinstance(e, ast.JoinedStr):
        return True
    if isinstance(e, ast.Constant) and isinstance(e.value, str):
        return True
    if isinstance(e, ast.Call):
        d = dotted(e.func) or ''
        if d in ('str', 'repr', 'format'):
            return True
        if isinstance(e.func, ast.Attribute) and e.func.attr in ('format', 'join') and (
                isinstance(e.func.value, ast.Constant) or _strish_elt(e.func.value)):
            return True
    if isinstance(e, ast.BinOp) and isinstance(e.op, (ast.Add, ast.Mod)) and (_strish_elt(e.left) or _strish_elt(e.right)):
        return True
    return False


def _joined_kind(fi, arg):
    """'str': every joined element is visibly converted to str; 'raw': the
    elements of the source are joined as they are; None: not recognised"""
    arg = _resolve_local(fi, arg)
    if isinstance(arg, (ast.ListComp, ast.GeneratorExp)):
        if _strish_elt(arg.elt):
            return 'str'
        if isinstance(arg.elt, (ast.Name, ast.Tuple, ast.Subscript)):
            return 'raw'
        return None
    if isinstance(arg, ast.Call) and dotted(arg.func) == 'map' and arg.args:
        f0 = arg.args[0]
        if norm(f0) in ('str', 'repr') or (isinstance(f0, ast.Attribute) and f0.attr == 'format'):
            return 'str'
        if isinstance(f0, ast.Lambda) and _strish_elt(f0.body):
            return 'str'
        return None
    if isinstance(arg, (ast.Name, ast.Attribute)) or (isinstance(arg, ast.Call) and (dotted(arg.func) or '').split('.')[-1] in (
            'flatten', 'items', 'keys', 'values', 'list', 'tuple')):
        return 'raw'
    return None


def _scrubbers(ctx):
    scrubs = [ctx.repo.func('TractList.tracts_to_csv.scrub_row'), ctx.repo.func('TractWriter._scrub_row')]
    shapes = []
    for fi in scrubs:
        joins = list(_join_sites(fi))
        if len(joins) < 2:
            ctx.undecided('EXC', f"{fi.qualname} join sites", 'joins not recognised')
        tests = sorted(norm(n.test) for n in walk_local(fi.node) if isinstance(n, ast.If))
        shapes.append(tests)
        for j in joins:
            arg = j.args[0]
            gs = [norm(t) for t, pol in guards(j) if pol]
            construct = f"{fi.qualname}: {norm(j)[:60]}"
            if any('dict' in g for g in gs):
                kind = _joined_kind(fi, arg)
                ctx.tri(kind == 'str', kind == 'raw', 'EXC', construct, 'dict cell: every item formatted to str',
                        "dict items are joined without being formatted to str (TypeError for non-str keys / values)",
                        key=f"EXC|{fi.qualname}|dict-join")
                continue
            # list / tuple cell
            kind = _joined_kind(fi, arg)
            ctx.tri(kind == 'str', kind == 'raw', 'EXC', construct, 'elements converted with str()',
                    f"`{norm(j)}` joins the elements as they are: TypeError for documented attributes whose "
                    f"elements are not str (ilots: int, *_flag_lines: tuple)",
                    key=f"EXC|{fi.qualname}|list-join|str", where=common.loc(fi, j))
            arg = _resolve_local(fi, arg)
            it = arg.generators[0].iter if isinstance(arg, (ast.ListComp, ast.GeneratorExp)) else (
                arg.args[1] if isinstance(arg, ast.Call) and len(arg.args) > 1 else arg)
            prov = flow.provenance(fi.node, it)
            ctx.check('flatten' in flow.prov_calls(prov), 'EXC', f"{construct} over flatten(elem)",
                      'nested tuples (flag lines) are flattened before joining',
                      f"the join iterates `{norm(it)}`, not the flattened elements: (flag, context) tuples are "
                      f"written as tuple reprs / the two writers disagree",
                      key=f"EXC|{fi.qualname}|list-join|flatten", where=common.loc(fi, j))
        t = ' '.join(norm(s) for s in walk_local(fi.node) if isinstance(s, ast.stmt))
        ctx.shape('scrubbed.append(elem)' in t and 'for elem in data' in t and 'return scrubbed' in t, 'SIB',
                  f"{fi.qualname}: every cell is kept (converted or as is)")
    # sibling agreement on the plain cell: what each scrubber appends for a
    # cell that is neither dict nor list/tuple (csv.writer renders None as '')
    plain = []
    for fi in scrubs:
        apps = [c for c in walk_local(fi.node) if isinstance(c, ast.Call) and isinstance(c.func, ast.Attribute)
                and c.func.attr == 'append' and len(c.args) == 1 and not any(pol and 'isinstance' in norm(t)
                                                                             for t, pol in guards(c))]
        plain.append((fi, apps[-1].args[0] if apps else None))
    if all(v is not None for _f, v in plain):
        kinds = []
        for fi, v in plain:
            wrapped = isinstance(v, ast.Call) and dotted(v.func) in ('str', 'repr', 'format') or isinstance(v, ast.JoinedStr)
            kinds.append('converted' if wrapped else 'as-is' if isinstance(v, ast.Name) else 'other')
        bad = set(kinds) == {'converted', 'as-is'}
        culprit = next((f for (f, v), k in zip(plain, kinds) if k == 'converted'), plain[0][0])
        ctx.tri(kinds[0] == kinds[1] == 'as-is', bad, 'SIB', 'both csv writers hand a plain cell to csv.writer unchanged',
                detail_bad=f"{culprit.qualname} converts every plain cell with str() while its sibling hands it over as is: a "
                           f"None value is written as 'None' by one writer and as an empty cell by the other",
                key=f"SIB|scrub_row|plain-cell|{culprit.qualname}", where=culprit.loc)
    else:
        ctx.undecided('SIB', 'both csv writers hand a plain cell to csv.writer unchanged', 'append site not recognised')
    ctx.shape(shapes[0] == shapes[1] and 'isinstance(elem, dict)' in shapes[0]
              and 'isinstance(elem, (list, tuple))' in shapes[0], 'SIB',
              'scrub_row / _scrub_row treat dict, list and tuple cells alike')
    fl0 = ctx.repo.func('utils:flatten')
    tests = []
    for c in walk_local(fl0.node):
        if isinstance(c, ast.Call) and dotted(c.func) == 'isinstance' and len(c.args) == 2:
            v = c.args[1]
            if isinstance(v, ast.Name):
                asg = [a for a in walk_local(fl0.node) if isinstance(a, ast.Assign) and norm(a.targets[0]) == v.id]
                if len(asg) == 1:
                    v = asg[0].value
            names = {norm(e) for e in (v.elts if isinstance(v, ast.Tuple) else [v])}
            tests.append((c, names))
    covers = [t for t in tests if {'list', 'tuple'} <= t[1]]
    partial = [t for t in tests if ({'list'} <= t[1]) != ({'tuple'} <= t[1]) or any('cast' in n or 'type(' in n for n in t[1])]
    ctx.tri(bool(tests) and not partial, bool(partial), 'SIB',
            'flatten treats nested lists and tuples alike (every isinstance test names both)',
            detail_bad=f"`{norm(partial[0][0]) if partial else ''}` unpacks only some container types: a list of "
                       f"(flag, context) tuples stays nested and is written as tuple reprs",
            key="SIB|flatten|types", where=common.loc(fl0, partial[0][0]) if partial else None)
    fl = ctx.repo.func('utils:flatten')
    t = ' '.join(norm(s) for s in walk_local(fl.node) if isinstance(s, ast.stmt))
    ctx.shape('while any((isinstance(e, (list, tuple)) for e in list_or_tuple))' in t
              and 'unpacked.extend(element)' in t and 'unpacked.append(element)' in t, 'SIB',
              'flatten unpacks nested lists/tuples until none is left, keeping every leaf')


def _writers(ctx):
    csvf = ctx.repo.func('TractList.tracts_to_csv')
    t = ' '.join(norm(s) for s in walk_local(csvf.node) if isinstance(s, ast.stmt))
    ctx.shape("headers = True" in t and "if fp.exists() and mode == 'a'" in t and 'headers = False' in t
              and 'if headers' in t and 'writer.writerow(header_row)' in t, 'SIB',
              "tracts_to_csv: header unless the file exists and mode is 'a'")
    for f_, label in ((csvf, 'tracts_to_csv'), (ctx.repo.func('TractWriter.__init__'), 'TractWriter')):
        hcalls = [c for c in walk_local(f_.node) if isinstance(c, ast.Call) and 'header' in norm(c).lower()
                  and (dotted(c.func) or '').split('.')[-1] in ('writerow', 'write_headers')]
        construct = f"{label}: whether a header row is written depends on the mode and on the file existing"
        if not hcalls:
            ctx.undecided('SIB', construct, 'header-writing call not recognised')
            continue
        pv = set()
        for tst, _pol in guards(hcalls[0]):
            for nm in [x for x in ast.walk(tst) if isinstance(x, (ast.Name, ast.Attribute, ast.Call))]:
                pv |= flow.provenance(f_.node, nm, control='sentinel')
        params, calls = flow.prov_params(pv), {c.split('.')[-1] for c in flow.prov_calls(pv)}
        has_mode = 'mode' in params or 'self.mode' in flow.prov_attrs(pv)
        has_ex = 'exists' in calls or 'is_file' in calls or 'isfile' in calls
        if not guards(hcalls[0]):
            ctx.undecided('SIB', construct, 'header written unconditionally')
            continue
        ctx.tri(has_mode and has_ex, (has_ex and not has_mode) or (has_mode and not has_ex), 'SIB', construct,
                'decision derives from `mode` and from an existence test',
                ("the header decision looks at whether the file exists but not at `mode`: overwriting an existing file "
                 "(mode 'w') produces a csv without header row" if has_ex else
                 "the header decision looks at `mode` but not at whether the file exists: appending to a new file "
                 "produces a csv without header row"),
                key=f"SIB|{label}|header-decision|{'nomode' if has_ex else 'noexists'}", where=common.loc(f_, hcalls[0]))
    for f_, label in ((csvf, 'tracts_to_csv'), (ctx.repo.func('TractWriter.__init__'), 'TractWriter')):
        ctx.attempt(_header_truth_table, f_, label)
    cfg_c, _ = flow.analyse(csvf.node)
    ex_c = [enclosing_stmt(n) for n in walk_local(csvf.node) if isinstance(n, ast.Call) and norm(n.func) == 'fp.exists']
    withs = [n for n in csvf.node.body if isinstance(n, ast.With)]
    if ex_c and withs:
        inside = any(w is p_ for w in withs for p_ in _anc19(ex_c[0]))
        ctx.tri(not inside, inside, 'SIB', "tracts_to_csv decides about the header before the file is opened (created)",
                detail_bad="the existence test runs inside `with open(...)`: in mode 'a' on a new file the header row is omitted",
                key="SIB|tracts_to_csv|header-before-open")
    loops = [n for n in walk_local(csvf.node) if isinstance(n, ast.For) and norm(n.iter) == 'self']
    ok = len(loops) == 1 and [norm(s) for s in loops[0].body] == [
        'row = tract.to_list(attributes)', 'row = scrub_row(row)', 'writer.writerow(row)']
    ctx.shape(ok, 'SIB', 'tracts_to_csv: exactly one scrubbed row per tract, in order')
    ctx.shape("open(fp, mode=mode, newline='')" in t, 'SIB', "tracts_to_csv opens the file with newline=''")
    init = ctx.repo.func('TractWriter.__init__')
    t = ' '.join(norm(s) for s in walk_local(init.node) if isinstance(s, ast.stmt))
    ctx.shape('write_headers = True' in t and "if self.fp.exists() and mode == 'a'" in t
              and 'write_headers = False' in t and 'if write_headers' in t and 'self.write_headers()' in t,
              'SIB', "TractWriter: header unless the file exists and mode is 'a'")
    # the existence test must precede open() (open creates the file)
    cfg, _ = flow.analyse(init.node)
    ex = [n for n in init.node.body if isinstance(n, ast.If) and 'self.fp.exists()' in norm(n.test)]
    op = [n for n in init.node.body if isinstance(n, ast.Expr) and norm(n) == 'self.open()']
    exs = [enclosing_stmt(n) for n in walk_local(init.node) if isinstance(n, ast.Call) and norm(n.func) == 'self.fp.exists']
    exs = [e for e in exs if e is not None]
    def top(st):
        while st is not None and st._parent is not init.node:
            st = st._parent
        return st
    if exs and op:
        a_, b_ = top(exs[0]), op[0]
        ctx.tri(cfg.precedes_always(a_, b_), cfg.precedes_always(b_, a_), 'SIB',
                'TractWriter decides about the header before opening (creating) the file',
                detail_bad="the existence test runs after open(): a new file never gets a header",
                key="SIB|TractWriter|header-before-open")
    else:
        ctx.undecided('SIB', 'TractWriter decides about the header before opening the file', 'anchors not recognised')
    # a re-opened writer appends: open() switches the stored mode to 'a'
    opn = ctx.repo.func('TractWriter.open')
    uses_attr = any(isinstance(c, ast.Call) and dotted(c.func) == 'open' and 'self.mode' in flow.prov_attrs(
        flow.provenance(opn.node, next((k.value for k in c.keywords if k.arg == 'mode'), c.args[1] if len(c.args) > 1 else c)))
        for c in walk_local(opn.node) if isinstance(c, ast.Call) and dotted(c.func) == 'open')
    tw_cls = ctx.repo.cls('tractwriter:TractWriter')
    mode_stores = [n for m_ in tw_cls.methods.values() if m_.node.name != '__init__' for n in walk_local(m_.node)
                   if isinstance(n, ast.Attribute) and isinstance(n.ctx, ast.Store) and norm(n) == 'self.mode']
    ctx.tri(bool(mode_stores), uses_attr and not mode_stores, 'SIB',
            "a TractWriter that is closed and re-opened appends (open() stores mode 'a')",
            detail_bad="open() opens the file with self.mode but never switches self.mode to 'a': re-opening a writer created "
                       "with 'w' truncates the file (header and earlier rows are lost)",
            key="SIB|TractWriter.open|append-after-open", where=opn.loc)
    w = ctx.repo.func('TractWriter.write')
    loops = [n for n in walk_local(w.node) if isinstance(n, ast.For) and norm(n.iter) == 'tl']
    ok = len(loops) == 1
    if ok:
        body = [norm(s) for s in loops[0].body]
        ok = body[0] == 'row = tract.to_list(self.attributes)' and 'row = TractWriter._scrub_row(row)' in body \
            and body.count('self.writer.writerow(row)') == 1 and 'written += 1' in body \
            and body.index('row = TractWriter._scrub_row(row)') < body.index('self.writer.writerow(row)')
    ctx.shape(ok, 'SIB', 'TractWriter.write: exactly one scrubbed row per tract, in order')
    t = ' '.join(norm(s) for s in walk_local(w.node) if isinstance(s, ast.stmt))
    ctx.shape('tl = TractList.from_multiple(to_write)' in t, 'SIB', 'TractWriter.write accepts anything TractList.from_multiple does')


def _anc19(n):
    from ..srcmodel import parent
    p = parent(n)
    while p is not None:
        yield p
        p = parent(p)


def _headers(ctx):
    gh = ctx.repo.func('Tract.get_headers')
    # whatever gets extended / returned must be a fresh list
    for c in walk_local(gh.node):
        if isinstance(c, ast.Call) and isinstance(c.func, ast.Attribute) and c.func.attr in ('extend', 'append') \
                and isinstance(c.func.value, ast.Name):
            roots = alias_roots(gh, c.func.value)
            ctx.check(all(k == 'fresh' for k, _ in roots), 'ESCAPE',
                      f"Tract.get_headers: `{norm(c)[:40]}` acts on a list built in this call",
                      f"roots {sorted(roots)}",
                      f"`{norm(c)}` mutates {sorted(roots)}: the caller's attribute list grows, so every later "
                      f"row has extra 'n/a' cells and is wider than the header",
                      key="ESCAPE|Tract.get_headers|extend", where=common.loc(gh, c))
    t = ' '.join(norm(s) for s in walk_local(gh.node) if isinstance(s, ast.stmt))
    ctx.shape('Tract.ATTRIBUTES.get(att, att)' in t and 'nice_headers.get(att, att)' in t, 'TBL',
              'get_headers falls back to the attribute name for unknown attributes')
    wh = ctx.repo.func('TractWriter.write_headers')
    t = ' '.join(norm(s) for s in walk_local(wh.node) if isinstance(s, ast.stmt))
    ctx.shape('Tract.get_headers(self.attributes, self.nice_headers, self.plus_cols)' in t
              and 'self.writer.writerow(header_row)' in t, 'TBL', 'TractWriter.write_headers writes one header row')
    # nobody mutates self.attributes of the writer
    tw = ctx.repo.cls('tractwriter:TractWriter')
    for m in tw.methods.values():
        for c in walk_local(m.node):
            if isinstance(c, ast.Call) and isinstance(c.func, ast.Attribute) and norm(c.func.value) == 'self.attributes' \
                    and c.func.attr in ('append', 'extend', 'insert', 'pop', 'remove'):
                ctx.violation('ESCAPE', f"{m.qualname}: {norm(c)[:40]}", "the writer's attribute list is mutated",
                              key=f"ESCAPE|{m.qualname}|attributes")


def _csv_always_written(ctx):
    """tracts_to_csv opens (creates / truncates / appends to) the file on
    every call: a `return` in front of the `open(...)` - "nothing to write" -
    leaves a new path without file and header, and under mode 'w' an existing
    file with its OLD rows, so the file no longer has one row per tract."""
    fi = ctx.repo.func('TractList.tracts_to_csv')
    opens = [c for c in walk_local(fi.node) if isinstance(c, ast.Call) and (dotted(c.func) or '').split('.')[-1] == 'open']
    if not opens:
        ctx.undecided('SIB', 'tracts_to_csv opens the file on every call', 'open() not found')
        return
    first = min(c.lineno for c in opens)
    early = [r for r in walk_local(fi.node) if isinstance(r, ast.Return) and r.lineno < first]
    ctx.check(not early, 'SIB', 'tracts_to_csv opens the file on every call',
              detail_bad=f"the `return` at line {early[0].lineno if early else 0} comes before the file is opened: for that input (an empty list) "
                         f"mode 'w' neither creates nor truncates the file - a new path gets no header, an existing file keeps the rows "
                         f"of an earlier export", key="SIB|tracts_to_csv|early-return", where=common.loc(fi, early[0]) if early else None)


def _header_truth_table(ctx, f_, label):
    """The header row is written unless the file already exists AND is opened
    for appending: follow the writer for the four combinations of (file
    exists, mode 'a' / 'w') - the existence test is replaced by a constant,
    `mode` is bound, everything that does not feed the decision is skipped -
    and compare with that table."""
    import copy
    from .. import ccp
    hcalls = [c for c in walk_local(f_.node) if isinstance(c, ast.Call) and 'header' in norm(c).lower()
              and (dotted(c.func) or '').split('.')[-1] in ('writerow', 'write_headers')]
    if len(hcalls) != 1 or not guards(hcalls[0]):
        raise AnalysisError(f"{label}: a single guarded header-writing call was not found")
    fn = ast.parse(ast.unparse(f_.node)).body[0]          # a private copy to rewrite (no links into the module tree)
    fn._parent = None
    for x in ast.walk(fn):
        for ch in ast.iter_child_nodes(x):
            ch._parent = x
    hc2 = [c for c in ast.walk(fn) if isinstance(c, ast.Call) and norm(c) == norm(hcalls[0])][0]

    class _R(ast.NodeTransformer):
        def visit_Call(self, n):
            if isinstance(n.func, ast.Attribute) and n.func.attr in ('exists', 'is_file') and not n.args:
                return ast.copy_location(ast.Name(id='__exists__', ctx=ast.Load()), n)
            if (dotted(n.func) or '') in ('os.path.exists', 'os.path.isfile', 'path.exists', 'path.isfile'):
                return ast.copy_location(ast.Name(id='__exists__', ctx=ast.Load()), n)
            return self.generic_visit(n)

        def visit_Attribute(self, n):
            if norm(n) == 'self.mode':
                return ast.copy_location(ast.Name(id='mode', ctx=ast.Load()), n)
            return self.generic_visit(n)
    gs = [(ast.fix_missing_locations(_R().visit(ast.parse(ast.unparse(t), mode='eval').body)), pol) for t, pol in guards(hc2)]
    st2 = hc2
    while not isinstance(st2, ast.stmt):
        st2 = st2._parent
    fn2 = _R().visit(fn)
    ast.fix_missing_locations(fn2)
    st2b = [x for x in ast.walk(fn2) if isinstance(x, ast.stmt) and getattr(x, 'lineno', None) == st2.lineno
            and type(x) is type(st2)]
    targets = {x.id for t, _ in gs for x in ast.walk(t) if isinstance(x, ast.Name)}
    table = {}
    for exists in (True, False):
        for mode in ('a', 'w'):
            env = {'__exists__': exists, 'mode': mode, 'True': True, 'False': False, 'None': None}
            try:
                env2 = ccp.run_slice(fn2, targets - {'__exists__', 'mode'}, env, stop_at=st2b[0] if st2b else None)
                table[(exists, mode)] = all(ccp.truth(ccp.ev(t, env2)) == pol for t, pol in gs)
            except ccp.Unsupported as e:
                raise AnalysisError(f"{label}: header decision not followed ({e})")
    want = {(e, m): not (e and m == 'a') for e in (True, False) for m in ('a', 'w')}
    wrong = sorted(k for k in want if table[k] != want[k])

    def say(k):
        e, m = k
        what = f"{'an existing' if e else 'a new'} file opened in mode '{m}'"
        return f"{what} gets {'a' if table[k] else 'NO'} header row"
    ctx.check(not wrong, 'SIB', f"{label}: header row for every combination of (file exists, mode) except append-to-existing",
              'followed for the four combinations',
              f"{'; '.join(say(k) for k in wrong)} - the csv {'has a header line in the middle of its rows' if any(table[k] for k in wrong) else 'comes out without its header'}",
              key=f"SIB|{label}|header-table|{','.join(f'{int(e)}{m}' for e, m in wrong)}", where=common.loc(f_, hcalls[0]))
