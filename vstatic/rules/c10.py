"""
C10 -- flags are well-typed, shared with tracts, and raised whenever
warranted.
"""

import ast

from .. import AnalysisError, flow
from ..fold import RegexVal, is_unknown
from ..srcmodel import walk_local, norm, dotted, guards, body_list_of, enclosing_stmt
from . import common, forward

from .c14 import seed_guard

META = {
    'explanation': (
        "PAIR rule over every flag site of the parser package (each "
        "`<x>flags.append(f)` is immediately paired with "
        "`<x>flag_lines.append((f, ctx))` on the same receiver, f a str, ctx a "
        "str; extend() hand-overs are paired the same way), agreement of the "
        "staged-attribute tables of ChunkParser, hand_down_flags covering all "
        "four lists after the last producer, desc_is_flawed == bool(e_flags), "
        "check_error_tracts asking about all three components, every warning "
        "regex wired into gen_flags_chunk, exact membership of the trigger "
        "phrases, and the context slice covering the match."
        " Also: the error check covers Twp, Rge and Sec (no constant False switch, wrapper/callee defaults agree), TractParser takes over its parent's flags whenever there is a parent, parallel clause / row shapes of TRS.is_error."
        " Round 7: TractParser starts from the tract's flags whenever Tract.parse replaces them; the description-level error check asks the tracts, not the staged components; TRS.is_error / is_undef decided for all 216 component-state x switch combinations; flag-prefix ambiguity."
        ' Round 8: gen_flags_chunk() dominates every return of its caller; the pp_twprge_pm wildcard also deletes warning wording (known finding).'
        ' Round 9: keyword pre-test tables are implied by the warning patterns (members enumerated).'
        " Round 10: `flags.append(pair[0]); flag_lines.append(pair)` is a pair by construction (shape read off the helper's returns)."
        ' Round 11: a `flags` property derived from `flag_lines` pairs by construction.'
        " Round 12: the parser's own staging lists may carry a common prefix; the unused-text step may be a method."),
    'families': ['PAIR', 'TBL', 'ORDER', 'RX-LANG', 'FORWARD', 'DEADPARAM', 'SIB-DEFAULTS'],
}

FLAG_ATTRS = ('flags', 'w_flags', 'e_flags')
LINE_OF = {'flags': 'flag_lines', 'w_flags': 'w_flag_lines', 'e_flags': 'e_flag_lines'}


def _strish(fi, expr, depth=0):
    """'str' / 'notstr' / 'unknown' for the value of expr in fi."""
    if isinstance(expr, ast.JoinedStr):
        return 'str'
    if isinstance(expr, ast.Constant):
        return 'str' if isinstance(expr.value, str) else 'notstr'
    if isinstance(expr, (ast.Tuple, ast.List, ast.Dict, ast.Set, ast.ListComp)):
        return 'notstr'
    if isinstance(expr, ast.Call):
        nm = dotted(expr.func) or ''
        if nm.split('.')[-1] in ('strip', 'replace', 'lower', 'upper', 'join', 'format',
                                 'quick_desc_short', 'quick_desc', 'str', 'group'):
            return 'str'
        return 'unknown'
    if isinstance(expr, ast.Subscript):
        if isinstance(expr.slice, ast.Slice):
            return _strish(fi, expr.value, depth + 1) if depth < 3 else 'unknown'
        return 'unknown'
    if isinstance(expr, ast.Name) and depth < 4:
        cfg, rd = flow.analyse(fi.node)
        try:
            node = flow.stmt_node(cfg, expr)
        except AnalysisError:
            return 'unknown'
        kinds = set()
        for d in rd.reaching(node, expr.id):
            val = rd.defs[d]
            if isinstance(val, tuple):
                if val[0] == 'param':
                    kinds.add('str' if expr.id in ('txt', 'text', 'chunk', 'unused_text', 'sec_txt') else 'unknown')
                else:
                    kinds.add('unknown')
            elif val is None:
                kinds.add('unknown')
            else:
                kinds.add(_strish(fi, val, depth + 1))
        if not rd.reaching(node, expr.id):
            # module-level constant
            return 'str' if expr.id.isupper() or expr.id.startswith('_E_FLAG') else 'unknown'
        if 'notstr' in kinds:
            return 'notstr'
        return 'str' if kinds == {'str'} else 'unknown'
    return 'unknown'


def _pair_maker(fi, name_node):
    """True when the local `name` is unpacked from a call to a package function whose
    returns put `None` or a 2-tuple in that position"""
    for st in walk_local(fi.node):
        if not (isinstance(st, ast.Assign) and len(st.targets) == 1 and isinstance(st.value, ast.Call)):
            continue
        t = st.targets[0]
        if isinstance(t, ast.Name) and t.id == name_node.id:
            pos = None
        elif isinstance(t, ast.Tuple) and any(isinstance(e, ast.Name) and e.id == name_node.id for e in t.elts):
            pos = [i for i, e in enumerate(t.elts) if isinstance(e, ast.Name) and e.id == name_node.id][0]
        else:
            continue
        nm = dotted(st.value.func) or ''
        node = flow.RESOLVER(nm, st.value, fi.node) if flow.RESOLVER and nm else None
        if node is None:
            return False
        rets = [r.value for r in ast.walk(node) if isinstance(r, ast.Return) and r.value is not None]
        if not rets:
            return False
        for r in rets:
            v = r
            if pos is not None:
                if not (isinstance(r, ast.Tuple) and pos < len(r.elts)):
                    return False
                v = r.elts[pos]
            if isinstance(v, ast.Constant) and v.value is None:
                continue
            if isinstance(v, ast.Tuple) and len(v.elts) == 2:
                continue
            return False
        return True
    return False


def pair_sites(ctx, funcs, rule='PAIR'):
    """Check every flag append/extend in the given functions; returns count."""
    n = 0
    for fi in funcs:
        for c in walk_local(fi.node):
            if not (isinstance(c, ast.Call) and isinstance(c.func, ast.Attribute)
                    and c.func.attr in ('append', 'extend')
                    and isinstance(c.func.value, ast.Attribute)
                    and c.func.value.attr in FLAG_ATTRS and len(c.args) == 1):
                continue
            n += 1
            recv = norm(c.func.value.value)
            fattr = c.func.value.attr
            lattr = LINE_OF[fattr]
            st = enclosing_stmt(c)
            lst, idx = body_list_of(st)
            nxt = lst[idx + 1] if lst is not None and idx + 1 < len(lst) else None
            construct = f"{fi.qualname}: {norm(st)[:60]}"
            key = f"{rule}|{fi.qualname}|{recv}.{fattr}.{c.func.attr}({norm(c.args[0])[:40]})"
            partner = None
            if isinstance(nxt, ast.Expr) and isinstance(nxt.value, ast.Call) \
                    and isinstance(nxt.value.func, ast.Attribute) \
                    and nxt.value.func.attr == c.func.attr \
                    and isinstance(nxt.value.func.value, ast.Attribute) \
                    and nxt.value.func.value.attr == lattr \
                    and norm(nxt.value.func.value.value) == recv and len(nxt.value.args) == 1:
                partner = nxt.value
            if partner is None:
                ctx.violation(rule, construct,
                              f"`{norm(st)}` is not immediately followed by the matching "
                              f"`{recv}.{lattr}.{c.func.attr}(...)`: flags and flag lines get out of step",
                              key=key + '|unpaired', where=common.loc(fi, st))
                continue
            if c.func.attr == 'extend':
                a, b = c.args[0], partner.args[0]
                ok = (isinstance(a, ast.Attribute) and isinstance(b, ast.Attribute)
                      and norm(a.value) == norm(b.value)
                      and a.attr in LINE_OF and LINE_OF[a.attr] == b.attr)
                if not ok and isinstance(a, ast.Attribute) and isinstance(b, ast.Attribute) and norm(a.value) == norm(b.value):
                    # the same pair under a common prefix (`self.staged_w_flags` / `self.staged_w_flag_lines`)
                    for fa, lb in LINE_OF.items():
                        if a.attr.endswith(fa) and b.attr.endswith(lb) and a.attr[:-len(fa)] == b.attr[:-len(lb)] \
                                and not a.attr[:-len(fa)].rstrip('_').endswith(('w', 'e')):
                            ok = True
                # extend(flags) + extend((flag, ctx) for flag in flags): lines derived from the very flags
                derived = isinstance(a, ast.Name) and isinstance(b, (ast.GeneratorExp, ast.ListComp)) \
                    and len(b.generators) == 1 and norm(b.generators[0].iter) == a.id and not b.generators[0].ifs \
                    and isinstance(b.elt, ast.Tuple) and len(b.elt.elts) == 2 and norm(b.elt.elts[0]) == norm(b.generators[0].target)
                mismatch = isinstance(a, ast.Attribute) and isinstance(b, ast.Attribute) and not ok
                ctx.tri(ok or derived, mismatch, rule, construct, 'extend pair from the same source',
                        f"extend({norm(a)}) is paired with extend({norm(b)})",
                        key=key + '|extendpair', where=common.loc(fi, st),
                        why=f"extend({norm(a)[:30]}) / extend({norm(b)[:40]}): pairing not decided")
                continue
            flag, line = c.args[0], partner.args[0]
            k = _strish(fi, flag)
            if k == 'notstr':
                ctx.violation(rule, construct, f"the flag `{norm(flag)}` is not a str",
                              key=key + '|flagtype', where=common.loc(fi, st))
                continue
            if isinstance(line, ast.Name) and isinstance(flag, ast.Subscript) and isinstance(flag.value, ast.Name) \
                    and flag.value.id == line.id and isinstance(flag.slice, ast.Constant) and flag.slice.value == 0:
                # `flags.append(pair[0]); flag_lines.append(pair)`: the flag is the first field of the very
                # line that is stored - in step by construction; what the pair is made of is read off the
                # helper that returned it
                made = _pair_maker(fi, line)
                ctx.shape(made, rule, construct, f"flag taken from the stored pair `{line.id}` (a 2-tuple built by the helper)",
                          why=f"`{line.id}` is stored as the flag line and its first field as the flag; where the pair is built "
                              f"was not resolved")
                continue
            if not (isinstance(line, ast.Tuple) and len(line.elts) == 2):
                ctx.violation(rule, construct,
                              f"flag line `{norm(line)}` is not a (flag, context) 2-tuple",
                              key=key + '|linetuple', where=common.loc(fi, nxt))
                continue
            if norm(line.elts[0]) != norm(flag):
                ctx.violation(rule, construct,
                              f"flag line carries `{norm(line.elts[0])}` but the flag is `{norm(flag)}`",
                              key=key + '|lineflag', where=common.loc(fi, nxt))
                continue
            kc = _strish(fi, line.elts[1])
            if kc == 'notstr':
                ctx.violation(rule, construct, f"context `{norm(line.elts[1])}` is not a str",
                              key=key + '|ctxtype', where=common.loc(fi, nxt))
                continue
            ctx.ok(rule, construct, f"paired with {recv}.{lattr}; flag {k}, context {kc}")
    return n


def check(ctx):
    ctx.consult('plssdesc/plss_parse.py', 'plssdesc/plssdesc.py', 'rgxlib/warnings.py',
                'tract/tract_parse.py', 'unpack/unpackers.py', 'tract/tract.py')
    funcs = [fi for fi in ctx.repo.funcs.values()
             if fi.module.name.startswith('pytrs.parser.')]
    n = pair_sites(ctx, funcs)
    ctx.floor('flag append/extend sites', n, 12)

    # also: nothing appends to a *_flag_lines list on its own
    for fi in funcs:
        for c in walk_local(fi.node):
            if isinstance(c, ast.Call) and isinstance(c.func, ast.Attribute) \
                    and c.func.attr in ('append', 'extend') \
                    and isinstance(c.func.value, ast.Attribute) \
                    and c.func.value.attr in LINE_OF.values():
                st = enclosing_stmt(c)
                lst, idx = body_list_of(st)
                prev = lst[idx - 1] if lst is not None and idx > 0 else None
                ok = isinstance(prev, ast.Expr) and isinstance(prev.value, ast.Call) \
                    and isinstance(prev.value.func, ast.Attribute) \
                    and isinstance(prev.value.func.value, ast.Attribute) \
                    and prev.value.func.value.attr in FLAG_ATTRS
                if not ok and norm(c.func.value.value) == 'self':
                    # the class derives its flags from the flag lines (`flags` is a property that reads
                    # `[flag for flag, _ in self.flag_lines]`): nothing can get out of step
                    top = fi
                    while top.outer is not None:
                        top = top.outer
                    fattr = {v: k for k, v in LINE_OF.items()}.get(c.func.value.attr)
                    if top.cls is not None and fattr:
                        prop = ctx.repo.find_method(top.cls, fattr)
                        if prop is not None and any((dotted(d) or '') == 'property' for d in prop.node.decorator_list) \
                                and any(isinstance(x, ast.Attribute) and x.attr == c.func.value.attr for x in ast.walk(prop.node)):
                            ok = True
                ctx.check(ok, 'PAIR', f"{fi.qualname}: {norm(st)[:60]}",
                          'preceded by its flag', "a flag line is added without its flag",
                          key=f"PAIR|{fi.qualname}|orphan-line|{norm(c.args[0])[:40] if c.args else ''}",
                          where=common.loc(fi, st))

    ctx.attempt(_staging_tables)
    ctx.attempt(_hand_down)
    ctx.attempt(_flawed)
    ctx.attempt(_warnings)
    ctx.attempt(_tract_sharing)
    ctx.attempt(forward.check_all, module_suffixes=('tract.tract', 'tract.tract_parse', 'plssdesc.plss_parse', 'plssdesc.plssdesc', 'trs.trs'))
    from .c12 import error_undef_tables      # error flags and desc_is_flawed rely on trs_is_error
    ctx.attempt(error_undef_tables)
    ctx.attempt(common.flag_prefix_tests)
    ctx.attempt(common.embedded_case_consistency, modules=('rgxlib.warnings',))
    ctx.attempt(common.clause_purity, [f for f in ctx.repo.funcs.values() if f.module.name.endswith(('trs.trs','tract.tract','plssdesc.plss_parse'))])
    ctx.attempt(common.parallel_shapes, [f for f in ctx.repo.funcs.values() if f.module.name.endswith(('trs.trs','tract.tract','plssdesc.plss_parse'))])
    ctx.attempt(common.error_check_covers_all, ctx.repo.func('PLSSParser.check_error_tracts'))
    ctx.attempt(_wording_flags_on_every_path)
    ctx.attempt(_keyword_prefilters)
    from .c04 import scrubber_wildcards     # wording deleted by the preprocessor can raise no warning
    ctx.attempt(scrubber_wildcards, why="the wording that the wildcard deletes after a Twp/Rge (up to that many characters before a "
                                        "P.M. designation) is gone before the warning patterns see it: 'less and except', 'wellbore', "
                                        "'insofar' there raise no flag and the description parses as clean")
    ctx.attempt(seed_guard)
    ctx.attempt(common.config_words, plss=('parse_qq',))


def _staging_tables(ctx):
    init = ctx.repo.func('ChunkParser.__init__')
    safe = ctx.repo.func('ChunkParser.parse_safe')
    chunk = ctx.repo.func('ChunkParser.parse_chunk')
    handed = set()
    handed_parent = set()
    for c in walk_local(safe.node):
        if isinstance(c, ast.Call) and isinstance(c.func, ast.Attribute) and c.func.attr == 'extend' \
                and isinstance(c.func.value, ast.Attribute) and norm(c.func.value.value) == 'parent' \
                and len(c.args) == 1 and isinstance(c.args[0], ast.Attribute) \
                and norm(c.args[0].value) == 'self':
            pa, ca = c.func.value.attr, c.args[0].attr
            # the parser's own list may carry a prefix (`self.staged_w_flags` -> parent.w_flags); what must not
            # happen is a hand-off into a DIFFERENT list
            same = ca == pa or (ca.endswith('_' + pa) and not any(
                ca.endswith('_' + other) and len(other) > len(pa) for other in ('w_flag_lines', 'e_flag_lines')))
            ctx.check(same, 'TBL',
                      f"parse_safe: parent.{pa}.extend(self.{ca})",
                      detail_bad="hand-off crosses two different attributes",
                      key=f"TBL|parse_safe|{pa}")
            handed.add(ca)
            handed_parent.add(pa)
    ctx.floor('parse_safe hand-offs', len(handed), 4)
    env = ctx.fold.func_env(chunk)
    repl = env.get('replacement_attributes')
    if is_unknown(repl) or repl is None:
        raise AnalysisError("parse_chunk: replacement_attributes does not fold")
    ctx.check(set(repl) == handed and len(repl) == len(set(repl)), 'TBL',
              'ChunkParser: attributes stolen from the fallback parser == attributes handed to the parent',
              f"both {sorted(handed)}",
              f"replacement_attributes = {list(repl)} but parse_safe hands off {sorted(handed)}",
              key="TBL|ChunkParser|replacement_attributes")
    need = {'w_flags', 'w_flag_lines', 'e_flags', 'e_flag_lines'}
    ctx.check(need <= handed_parent, 'TBL', 'parse_safe hands all four flag lists to the parent',
              detail_bad=f"missing {sorted(need - handed_parent)}", key="TBL|parse_safe|four")
    stored = {n.attr for n in ast.walk(init.node) if isinstance(n, ast.Attribute)
              and isinstance(n.ctx, ast.Store) and norm(n.value) == 'self'}
    ctx.shape(handed <= stored, 'TBL', 'every handed-off list is initialised in ChunkParser.__init__')
    # find_matches forwards both finders' flags (PAIR covers the pairing)
    fm = ctx.repo.func('ChunkParser.find_matches')
    t = ' '.join(norm(s) for s in fm.node.body)
    for src in ('twprge_finder', 'sec_finder'):
        ctx.shape(f"self.w_flags.extend({src}.flags)" in t, 'TBL',
                  f"find_matches forwards {src}.flags")


def _hand_down(ctx):
    hd = ctx.repo.func('PLSSParser.hand_down_flags')
    loops = [n for n in hd.node.body if isinstance(n, ast.For) and norm(n.iter) == 'self.tracts']
    if len(loops) != 1:
        raise AnalysisError("hand_down_flags: expected one loop over self.tracts")
    got = set()
    four = {'w_flags', 'w_flag_lines', 'e_flags', 'e_flag_lines'}
    generic = False
    for s in ast.walk(loops[0]):
        if isinstance(s, ast.Expr):
            t = norm(s)
            for a in four:
                if t == f"tract.{a}.extend(self.{a})":
                    got.add(a)
        if isinstance(s, ast.For) and s is not loops[0]:
            names = ctx.fold.eval(s.iter, ctx.fold.func_env(hd), hd.module.name)
            if isinstance(names, (tuple, list)) and all(isinstance(x, str) for x in names) \
                    and 'getattr(tract' in norm(s) and 'getattr(self' in norm(s) and '.extend(' in norm(s):
                got |= set(names) & four
                generic = True
    ctx.tri(got == four, bool(got) and got != four, 'TBL',
            'hand_down_flags extends all four lists of every tract',
            detail_bad=f"only {sorted(got)} are handed down: {sorted(four - got)} of the description never reach its tracts",
            key="TBL|hand_down_flags")
    ctx.shape(not any(isinstance(n, (ast.If, ast.Break, ast.Continue)) for n in ast.walk(loops[0])),
              'TBL', 'hand_down_flags is unconditional')
    # order in PLSSParser.parse: producers, then hand_down_flags, on every path
    p = ctx.repo.func('PLSSParser.parse')
    cfg, rd = flow.analyse(p.node)
    calls = {}
    for st in p.node.body:
        if isinstance(st, ast.Expr) and isinstance(st.value, ast.Call):
            nm = dotted(st.value.func) or ''
            calls[nm.split('.')[-1]] = st
    if 'examine_unused' not in calls:
        # the same step written without the nested helper: top-level statements that read
        # self.unused_components and add to the error flags
        steps = [st for st in p.node.body if not isinstance(st, (ast.FunctionDef, ast.If, ast.For, ast.While))
                 and any(norm(x) in ('self.e_flags', 'self.e_flag_lines', 'self.unused_components')
                         for x in ast.walk(st) if isinstance(x, ast.Attribute))
                 and not (isinstance(st, ast.Expr) and isinstance(st.value, ast.Call)
                          and (dotted(st.value.func) or '').startswith('self.unused_components.'))]
        reads = [st for st in steps if any(norm(x) == 'self.unused_components' for x in ast.walk(st))]
        writes = [st for st in steps if any(norm(x) in ('self.e_flags', 'self.e_flag_lines') for x in ast.walk(st))]
        if reads and writes:
            calls['examine_unused'] = writes[-1]
        else:
            # ... or a method of the parser doing it (`self._flag_unused_components()`)
            for nm_, st in list(calls.items()):
                node_ = flow.RESOLVER(dotted(st.value.func) or '', st.value, p.node) if flow.RESOLVER else None
                if node_ is not None and any(isinstance(x, ast.Attribute) and x.attr == 'unused_components' for x in ast.walk(node_)) \
                        and any('unused_desc' in norm(x) for x in ast.walk(node_) if isinstance(x, (ast.JoinedStr, ast.Constant))):
                    calls['examine_unused'] = st
    for need in ('construct_tracts', 'examine_unused', 'check_sec_within_tracts',
                 'check_error_tracts', 'hand_down_flags'):
        if need not in calls:
            ctx.violation('ORDER', f"PLSSParser.parse calls {need}",
                          f"{need}() is not called unconditionally at the top level of parse()",
                          key=f"ORDER|PLSSParser.parse|{need}|missing")
    if 'hand_down_flags' in calls:
        hd_st = calls['hand_down_flags']
        for prod in ('construct_tracts', 'examine_unused', 'check_sec_within_tracts', 'check_error_tracts'):
            if prod in calls:
                ctx.check(cfg.precedes_always(calls[prod], hd_st), 'ORDER',
                          f"PLSSParser.parse: {prod}() before hand_down_flags()",
                          detail_bad=f"flags raised by {prod}() after the hand-down never reach the tracts",
                          key=f"ORDER|PLSSParser.parse|{prod}<hand_down_flags")
        ctx.check(cfg.must_pass(cfg.entry, [cfg.node_of(hd_st)]), 'ORDER',
                  'PLSSParser.parse: every path hands the flags down',
                  detail_bad="a path through parse() skips hand_down_flags()",
                  key="ORDER|PLSSParser.parse|hand_down_flags|allpaths")
    # ChunkParser per chunk, gen_flags_chunk per chunk
    safe = ctx.repo.func('ChunkParser.parse_safe')
    names = [(dotted(s.value.func) or '') for s in safe.node.body
             if isinstance(s, ast.Expr) and isinstance(s.value, ast.Call)]
    ctx.shape('self.parse_chunk' in names and 'self.gen_flags_chunk' in names, 'ORDER',
              'parse_safe runs gen_flags_chunk for every chunk')


def _flawed(ctx):
    for cls in ('PLSSDesc', 'Tract'):
        fi = ctx.repo.func(f"{cls}.desc_is_flawed")
        t = norm(fi.node.body[-1])
        ctx.shape(t in ('return len(self.e_flags) > 0', 'return bool(self.e_flags)',
                        'return len(self.e_flags) != 0'), 'TBL',
                  f"{cls}.desc_is_flawed == (there is an error flag)")
    fi = ctx.repo.func('PLSSParser.check_error_tracts')
    calls = [c for c in ast.walk(fi.node) if isinstance(c, ast.Call)
             and isinstance(c.func, ast.Attribute) and c.func.attr == 'trs_is_error']
    if len(calls) != 1:
        ctx.undecided('TBL', 'check_error_tracts asks about Twp, Rge and Sec', 'trs_is_error call not recognised')
        return
    c = calls[0]
    restricted = [norm(a) for a in c.args] + [f"{k.arg}={norm(k.value)}" for k in c.keywords]
    ctx.check(not any(r.endswith('False') or r == 'False' for r in restricted), 'TBL',
              'check_error_tracts asks about Twp, Rge and Sec',
              detail_bad=f"trs_is_error({', '.join(restricted)}) ignores a component: a tract with an "
                         f"undecipherable component raises no error flag",
              key="TBL|check_error_tracts|components", where=common.loc(fi, c))
    t = ' '.join(norm(s) for s in fi.node.body)
    ctx.shape('any(' in t and 'for tract in self.tracts' in t, 'TBL',
              'check_error_tracts looks at every tract')
    ifs = [n for n in fi.node.body if isinstance(n, ast.If)]
    ok = any('self.e_flags.append(flag)' in ' '.join(norm(s) for s in n.body)
             and 'not' not in norm(n.test) for n in ifs)
    ctx.shape(ok, 'TBL', 'check_error_tracts raises an error flag when an error tract exists')
    # delegation chain Tract.trs_is_error -> TRS.is_error (three components)
    tf = ctx.repo.func('Tract.trs_is_error')
    ctx.shape(norm(tf.node.body[-1]) == 'return self.__trs.is_error(twp, rge, sec)', 'TBL',
              'Tract.trs_is_error delegates all three switches')
    ie = ctx.repo.func('TRS.is_error')
    t = norm(ie.node.body[-1])
    ok = all(f"{c} and self.{c}_num is None and (not self.{c}_undef)" in t for c in ('twp', 'rge', 'sec'))
    ctx.shape(ok, 'TBL', 'TRS.is_error: component is an error iff it has no number and is not undefined')


TRIGGERS = {
    'well_regex': ['wellbore', 'well', 'Wellbore'],
    # depth wording also counts inside compounds / plurals (the stems depth,
    # surf, form are deliberately not word-bounded on the pinned tree)
    'depth_regex': ['depth', 'depths', 'surface', 'base', 'formation', 'top', 'subsurface', 'formations', 'surfaces'],
    'including_regex': ['including', 'incl.', 'Including'],
    'less_except_regex': ['less and except', 'less', 'except', 'excepting', 'exception',
                          'limited to', 'limitation', 'LESS AND EXCEPT'],
    'isfa_regex': ['insofar', 'in so far', 'only insofar as', 'but only insofar as', 'INSOFAR'],
}
PHRASES = [
    ('less and except', 'less_except_regex'), ('except', 'less_except_regex'),
    ('insofar as', 'isfa_regex'), ('only insofar', 'isfa_regex'),
    ('including', 'including_regex'), ('surface to the base of', 'depth_regex'),
    ('depth', 'depth_regex'), ('wellbore', 'well_regex'), ('well', 'well_regex'),
]


def _warnings(ctx):
    mod = ctx.repo.module('rgxlib.warnings')
    env = ctx.fold.module_env(mod.name)
    defined = {k: v for k, v in env.items() if isinstance(v, RegexVal) and v.module == mod.name}
    ctx.floor('warning regexes', len(defined), 3)
    gf = ctx.repo.func('ChunkParser.gen_flags_chunk')
    fenv = ctx.fold.func_env(gf)
    table = fenv.get('rgx_and_how_to_handle')
    if is_unknown(table) or not isinstance(table, dict):
        raise AnalysisError("gen_flags_chunk: regex table does not fold")
    wired = {k.name for k in table if isinstance(k, RegexVal)}
    for name in sorted(defined):
        ctx.check(name in wired, 'TBL', f"warning regex {name} is wired into gen_flags_chunk",
                  detail_bad=f"{name} is defined in rgxlib/warnings.py but never applied",
                  key=f"TBL|gen_flags_chunk|{name}")
    for k, v in table.items():
        ok = isinstance(v, tuple) and len(v) == 2 and isinstance(v[0], str) and v[0] \
            and isinstance(v[1], tuple) and len(v[1]) == 2 \
            and all(isinstance(x, int) and x >= 0 for x in v[1])
        ctx.check(ok, 'TBL', f"gen_flags_chunk entry for {getattr(k, 'name', k)}: (flag, (left>=0, right>=0))",
                  detail_bad=f"entry is {v!r}", key=f"TBL|gen_flags_chunk|entry|{getattr(k, 'name', k)}")
    for name, words in TRIGGERS.items():
        if name not in defined:
            ctx.violation('RX-LANG', f"{name} exists", f"{name} is gone from rgxlib/warnings.py",
                          key=f"RX-LANG|{name}|missing")
            continue
        L = common.lang(ctx, defined[name])
        for w in words:
            for text in (f"NE/4, {w} the Johnston #1", f"{w} that part", f"NE/4 {w}"):
                hit = any(i <= text.index(w) + len(w) and j > text.index(w)
                          for i, j in L.search_spans(text) if j > i)
                if not hit:
                    ctx.violation('RX-LANG', f"{name} finds {w!r}",
                                  f"trigger wording {w!r} in {text!r} no longer raises the warning",
                                  key=f"RX-LANG|{name}|{w}")
                    break
            else:
                ctx.ok('RX-LANG', f"{name} finds {w!r}")
    # the scan cursor is reset for every warning regex
    outer = [n for n in walk_local(gf.node) if isinstance(n, ast.For) and 'rgx_and_how_to_handle' in norm(n.iter)]
    cursors = set()
    for c in walk_local(gf.node):
        if isinstance(c, ast.Call) and isinstance(c.func, ast.Attribute) and c.func.attr == 'search':
            for kw_ in c.keywords:
                if kw_.arg == 'pos' and isinstance(kw_.value, ast.Name):
                    cursors.add(kw_.value.id)
    if outer and cursors:
        for cur in sorted(cursors):
            resets = [n for n in walk_local(gf.node) if isinstance(n, ast.Assign) and norm(n.targets[0]) == cur
                      and isinstance(n.value, ast.Constant) and n.value.value == 0]
            moved = [n for n in walk_local(gf.node) if isinstance(n, ast.Assign) and norm(n.targets[0]) == cur
                     and not isinstance(n.value, ast.Constant)]
            if not resets or not moved:
                continue
            inside = [r for r in resets if any(p_ is outer[0] for p_ in _ancestors(r))]
            ctx.tri(bool(inside), not inside, 'ORDER', f"gen_flags_chunk: scan cursor `{cur}` restarts at 0 for every warning regex",
                    detail_bad=f"`{cur} = 0` is outside the per-regex loop: the next kind of warning is only searched to the "
                               f"right of the previous kind's last match, so wording further left raises no warning",
                    key=f"ORDER|gen_flags_chunk|reset|{cur}", where=common.loc(gf, resets[0]))
    # context slice covers the match
    body = {}
    for n in walk_local(gf.node):
        if isinstance(n, ast.Assign) and isinstance(n.targets[0], ast.Name):
            body.setdefault(n.targets[0].id, []).append(n)
    ctxs = [n for n in body.get('context', []) if isinstance(n.value, ast.Subscript)
            and isinstance(n.value.slice, ast.Slice)]
    if len(ctxs) != 1:
        ctx.undecided('SLICE', 'gen_flags_chunk: context slice', 'context = chunk[i:j] not recognised')
        return
    sl = ctxs[0].value.slice
    lo, hi = norm(sl.lower), norm(sl.upper)
    lo_def = body.get(lo, [None])[-1]
    hi_def = body.get(hi, [None])[-1]
    if lo_def is None or hi_def is None:
        ctx.undecided('SLICE', 'gen_flags_chunk: context slice', 'bounds are not local names')
        return
    tl, th = norm(lo_def.value), norm(hi_def.value)
    ok_lo = tl.replace(' ', '') in ('max((0,start_mo.start()-left_context))', 'max(0,start_mo.start()-left_context)')
    ok_hi = th.replace(' ', '') in ('min((final_end_mo.end()+right_context,max_end))',
                                    'min(final_end_mo.end()+right_context,max_end)',
                                    'min((max_end,final_end_mo.end()+right_context))')
    bad_lo = 'start_mo.start()+left_context' in tl.replace(' ', '') or 'start_mo.end()' in tl
    v_lo = lo_def.value
    unclamped = isinstance(v_lo, ast.BinOp) and isinstance(v_lo.op, ast.Sub) and any(
        isinstance(x, ast.Call) and dotted(x.func) == 'max' for x in ast.walk(v_lo.left))
    if not unclamped and isinstance(v_lo, ast.BinOp) and isinstance(v_lo.op, ast.Sub) and '.start()' in tl \
            and not any(isinstance(x, ast.Call) and dotted(x.func) == 'max' for x in ast.walk(v_lo)):
        unclamped = True           # no clamp at all
    if unclamped:
        ctx.violation('SLICE', 'gen_flags_chunk: the context start is clamped at 0',
                      f"`{lo} = {tl}` is not clamped at 0 after the left context is subtracted: for a trigger word near the start of the text the "
                      f"slice start is negative, Python counts it from the end and the context comes out empty / without the "
                      f"triggering words", key="SLICE|gen_flags_chunk|clamp", where=common.loc(gf, lo_def))
    ctx.tri(ok_lo, bad_lo, 'SLICE', 'gen_flags_chunk: context starts at or before the match',
            f"i = {tl}", f"lower bound `{tl}` can lie after the start of the triggering match",
            key="SLICE|gen_flags_chunk|lower")
    bad_hi = '.end()-right_context' in th.replace(' ', '') or '.start()' in th
    ctx.tri(ok_hi, bad_hi, 'SLICE', 'gen_flags_chunk: context ends at or after the last match',
            f"j = {th}", f"upper bound `{th}` can lie before the end of the triggering match",
            key="SLICE|gen_flags_chunk|upper")
    # the flag is raised for every first match (no guard besides `if not start_mo: break`)
    apps = [c for c in walk_local(gf.node) if isinstance(c, ast.Call)
            and norm(c.func) == 'self.parent.w_flags.append']
    ok = len(apps) == 1 and not [t for t, pol in guards(apps[0])
                                 if not (isinstance(t, ast.Constant) and t.value is True)]
    ctx.shape(ok, 'TBL', 'gen_flags_chunk raises the warning for every match found')


def _ancestors(n):
    from ..srcmodel import parent
    p = parent(n)
    while p is not None:
        yield p
        p = parent(p)


def _tract_sharing(ctx):
    tp = ctx.repo.func('TractParser.__init__')
    t = ' '.join(norm(s) for s in walk_local(tp.node) if isinstance(s, ast.stmt))
    seeded = set()
    for a in ('w_flags', 'e_flags', 'w_flag_lines', 'e_flag_lines'):
        if f"self.{a} = parent.{a}.copy()" in t:
            seeded.add(a)
    for n in walk_local(tp.node):
        if isinstance(n, ast.For):
            names = ctx.fold.eval(n.iter, ctx.fold.func_env(tp), tp.module.name)
            if isinstance(names, (tuple, list)) and all(isinstance(x, str) for x in names) \
                    and 'setattr(self' in norm(n) and 'getattr(parent' in norm(n):
                seeded |= set(names)
    four = {'w_flags', 'e_flags', 'w_flag_lines', 'e_flag_lines'}
    ctx.tri(four <= seeded, bool(seeded & four) and not four <= seeded, 'TBL',
            "TractParser starts from copies of all four flag lists of its Tract",
            detail_bad=f"only {sorted(seeded & four)} are taken over: on commit the tract's {sorted(four - seeded)} "
                       f"(handed down by the description) are wiped", key="TBL|TractParser.__init__|flags")
    unp = ctx.fold.get_attr('tract_parse', 'TractParser', 'UNPACKABLES')
    ctx.check({'w_flags', 'w_flag_lines', 'e_flags', 'e_flag_lines'} <= set(unp), 'TBL',
              'TractParser.UNPACKABLES carries the four flag lists back to the Tract',
              detail_bad=f"UNPACKABLES = {unp}", key="TBL|TractParser.UNPACKABLES|flags")
    unp = ctx.fold.get_attr('plss_parse', 'PLSSParser', 'UNPACKABLES')
    ctx.check({'w_flags', 'w_flag_lines', 'e_flags', 'e_flag_lines', 'tracts'} <= set(unp), 'TBL',
              'PLSSParser.UNPACKABLES carries tracts and the four flag lists back to the PLSSDesc',
              detail_bad=f"UNPACKABLES = {unp}", key="TBL|PLSSParser.UNPACKABLES|flags")


def _wording_flags_on_every_path(ctx):
    """The wording warnings (well / depth / including / less_except / insofar)
    come from ChunkParser.gen_flags_chunk().  In whichever method it is
    called, every `return` of that method must come after the call: an early
    return in front of it (the copy_all branch of parse_chunk) leaves a whole
    class of descriptions without these warnings."""
    from .forward import _dominates
    ci = ctx.repo.cls('plss_parse:ChunkParser')
    sites = []
    for m in ci.methods.values():
        for c in walk_local(m.node):
            if isinstance(c, ast.Call) and norm(c.func) == 'self.gen_flags_chunk':
                sites.append((m, c))
    construct = 'ChunkParser: gen_flags_chunk() runs for every chunk'
    if not sites:
        ctx.violation('SINK', construct, 'gen_flags_chunk() is never called: no wording warning can be raised',
                      key='SINK|ChunkParser|gen_flags_chunk|never')
        return
    for m, c in sites:
        early = [r for r in walk_local(m.node) if isinstance(r, ast.Return) and not _dominates(c, r, m.node)
                 and r.lineno < c.lineno]
        cond = bool(guards(c))
        ctx.check(not early and not cond, 'SINK', construct + f" (called in {m.qualname})",
                  detail_bad=(f"{m.qualname} returns at line {early[0].lineno} before it reaches `self.gen_flags_chunk()` "
                              f"(line {c.lineno}): chunks that leave through that return - the copy_all branch: a dictated "
                              f"copy_all layout, text with no section or no Twp/Rge - get none of the well / depth / "
                              f"including / less_except / insofar warnings") if early else
                             f"`self.gen_flags_chunk()` runs only under {[norm(t) for t, _ in guards(c)]}",
                  key=f"SINK|ChunkParser|gen_flags_chunk|{'early-return' if early else 'conditional'}",
                  where=common.loc(m, early[0] if early else c))


def _keyword_prefilters(ctx):
    """A table of keywords used to decide whether a warning pattern needs to
    run at all (`if not any(k in lowered for k in KEYWORDS[flag]): continue`)
    is sound only if every text the pattern can match contains one of its
    keywords.  Members of each pattern's language are enumerated from the
    pattern (lower-cased, as the chunk is) and looked for the keywords."""
    from .. import rx as _rx
    fi = ctx.repo.func('ChunkParser.gen_flags_chunk')
    env = ctx.fold.func_env(fi)
    table = env.get('rgx_and_how_to_handle')
    # candidate keyword tables: {flag: (words, ...)} folded from the function or the module
    kw_tables = {}
    for nm, v in list(env.items()):
        if isinstance(v, dict) and v and all(isinstance(k, str) for k in v) and all(
                isinstance(x, (tuple, list)) and x and all(isinstance(w, str) for w in x) for x in v.values()):
            kw_tables[nm] = v
    used = [nm for nm in kw_tables if any(isinstance(x, ast.Name) and x.id == nm for x in ast.walk(fi.node))]
    if not used:
        ctx.ok('TBL', 'gen_flags_chunk runs every warning pattern (no keyword pre-test)')
        return
    if not isinstance(table, dict):
        ctx.undecided('TBL', 'keyword pre-tests of the warning patterns are implied by the patterns', 'pattern table does not fold')
        return
    for nm in used:
        kws = kw_tables[nm]
        for rv, how in table.items():
            flag = how[0] if isinstance(how, (tuple, list)) else how
            if flag not in kws or not hasattr(rv, 'pattern'):
                continue
            try:
                words = _rx.enumerate_words(_rx.parse(rv.pattern, rv.flags), rv.flags, rep_extra=1)
            except AnalysisError as e:
                ctx.undecided('TBL', f"keyword pre-test for {flag!r}", f"language not enumerated ({e})")
                continue
            lacking = [w for w in words if not any(k.lower() in w.lower() for k in kws[flag])]
            ctx.check(not lacking, 'TBL', f"gen_flags_chunk: every text {rv.name} matches contains a keyword of {nm}[{flag!r}]",
                      f"{len(words)} members enumerated",
                      f"{rv.name} also matches {lacking[0]!r}, which contains none of {list(kws[flag])}: for such wording the pattern "
                      f"is never run and the {flag!r} warning is not raised" if lacking else '',
                      key=f"TBL|gen_flags_chunk|keyword-prefilter|{flag}", where=fi.loc)
