"""
C11 -- copy_all, forced or as fallback, keeps the whole text in exactly one
tract.
"""

import ast

from .. import AnalysisError, flow
from ..fold import is_unknown
from ..srcmodel import walk_local, norm, dotted, guards, enclosing_stmt, literals
from . import common, forward
from .layouts import layout_classes
from .c15 import alias_roots

from .c13 import lockdown

META = {
    'explanation': (
        "Hand-over of a dictated layout (init keyword and config both reach "
        ".layout, parse() falls back to it, PLSSParser forwards it to every "
        "ChunkParser whenever it is copy_all or mandated, chunk-level "
        "deduction never overrides copy_all, segmenting is switched off for "
        "the layout actually used); ONCE: the fallback replacement parser "
        "only stages and its lists are handed off exactly once; "
        "_parse_copyall stages exactly one tract with the unmodified chunk "
        "text and a single section; fallback placeholders are the error "
        "ones. Which inputs end in the fallback is not decided."
        ' Also: the clean-up default is decided after layout deduction, copy_all stages one section, `layout` is a PLSSDesc setting, lock-down of layout / segment.'
        ' Round 7: options that PLSSParser defaults by layout (clean_up) reach it as None when not given; the stage-only flag of a replacement ChunkParser is read off __init__ whatever it is called; result caches keyed by everything the skipped parse reads.'
        ' Round 8: segment() is followed for layout == copy_all with a Twp/Rge match (must keep the text in one block).'
        ' Round 9: the attribute fall-back of PLSSDesc.parse runs whenever the argument is not given (no further state condition).'
        ' Round 10: `if chunk_layout is None:` is an accepted form of the deduction lock; a loop-filled settings table is undecided, not a violation.'
        " Round 11: an empty unpacked section list / an undefined placeholder can never reach _parse_copyall (shared rules of C05 / C09); the 'layout was dictated' attribute is found by what is stored in it."),
    'families': ['LOCK', 'ONCE', 'TBL', 'DEFUSE', 'FORWARD', 'DEADPARAM', 'SIB-DEFAULTS'],
}


def check(ctx):
    ctx.consult('plssdesc/plss_parse.py', 'plssdesc/plssdesc.py', 'config/layouts.py')
    cl = layout_classes(ctx)
    ctx.attempt(_layout_lock, cl)
    ctx.attempt(_once)
    from .c10 import _staging_tables
    ctx.attempt(_staging_tables)
    ctx.attempt(_copyall)
    ctx.attempt(late_defaults)
    ctx.attempt(_fallback)
    ctx.attempt(forward.check_all, module_suffixes=('plssdesc.plss_parse', 'plssdesc.plssdesc'))
    ctx.attempt(lockdown, ctx.repo.func('PLSSDesc.parse'), only=('layout', 'segment'))
    ctx.attempt(common.error_check_covers_all, ctx.repo.func('PLSSParser.check_error_tracts'))
    ctx.attempt(common.config_words, plss=('layout', 'segment'))
    ctx.attempt(common.parallel_shapes, [f for f in ctx.repo.funcs.values() if f.module.name.endswith(('trs.trs',))])
    # copy_all stages `sec[0]`: the unpacked section list is never empty; and what it stages when nothing
    # is left is the ERROR placeholder (the fallback's error flag is raised from it), never the undefined one
    from .c05 import every_match_registers
    ctx.attempt(every_match_registers, rule='DEFUSE')
    from .c09 import _placeholders
    ctx.attempt(_placeholders)


def _layout_lock(ctx, cl):
    init = ctx.repo.func('PLSSDesc.__init__')
    stores = [n for n in walk_local(init.node) if isinstance(n, ast.Assign) and norm(n.targets[0]) == 'self.layout']
    cfg_idx = next(i for i, s in enumerate(init.node.body) if norm(s) == 'self.config = config')
    for s in stores:
        top = s
        while top._parent is not init.node:
            top = top._parent
        if init.node.body.index(top) > cfg_idx:
            gs = [(norm(t), pol) for t, pol in guards(s)]
            given = any(t == 'layout is not None' and pol for t, pol in gs)
            uses = {x.id for x in ast.walk(s.value) if isinstance(x, ast.Name)}
            # bad: the store is not conditional on the keyword being given, or stores something else
            ctx.tri(given and norm(s.value) == 'layout', not given or 'layout' not in uses, 'LOCK',
                    'PLSSDesc.__init__: the layout keyword overrides the config only when given',
                    detail_bad=f"`{norm(s)}` under {gs}: a layout given in the config string is lost",
                    key="LOCK|PLSSDesc.__init__|layout", where=common.loc(init, s),
                    why=f"`{norm(s)}`: the keyword is passed through a helper that is not decided here")
    ctx.shape('layout' in ctx.fold.get_attr('config.config', 'Config', '_PLSSDESC_ATTRIBUTES'), 'LOCK',
              'layout is a PLSSDesc config attribute')
    p = ctx.repo.func('PLSSDesc.parse')
    calls = [c for c in walk_local(p.node) if isinstance(c, ast.Call) and dotted(c.func) == 'PLSSParser']
    if len(calls) != 1:
        raise AnalysisError("PLSSDesc.parse: PLSSParser call not found")
    kw = {k.arg: k.value for k in calls[0].keywords if k.arg}
    prov = flow.provenance(p.node, kw['layout']) if 'layout' in kw else set()
    both = 'layout' in flow.prov_params(prov) and 'self.layout' in flow.prov_attrs(prov)
    # a table of settings filled by a loop (`locked[name] = getattr(self, name)`) is not followed per key
    table_driven = any(a[0] in ('getattr', 'iter', 'unpack', 'opaque') for a in prov) \
        or any(c.split('.')[-1] in ('pop', 'get') for c in flow.prov_calls(prov))
    ctx.tri(both, not both and not table_driven, 'LOCK',
            'PLSSDesc.parse: layout = keyword if given, else the .layout attribute',
            detail_bad="the layout handed to PLSSParser does not derive from both the keyword and self.layout",
            key="LOCK|PLSSDesc.parse|layout",
            why="the layout handed to PLSSParser comes out of a table of settings that a loop fills; not followed per key")
    # the attribute is consulted only when no layout argument was given
    fbs = [n for n in walk_local(p.node) if isinstance(n, ast.Assign) and norm(n) == 'layout = self.layout']
    for n in fbs:
        gs = [(t, pol) for _e, t, pol in literals(guards(n))]
        ok_g = ('layout is None', True) in gs or ('layout', False) in gs
        bad_g = not gs or not any('layout' in t.replace('self.layout', '') for t, pol in gs)
        ctx.tri(ok_g, bad_g and not ok_g, 'LOCK', 'PLSSDesc.parse: `.layout` is the fallback only when no layout argument is given',
                detail_bad=f"`layout = self.layout` runs under {gs or 'no condition'}: a layout passed to parse() is "
                           f"overridden by the attribute", key="LOCK|PLSSDesc.parse|layout-fallback-guard",
                where=common.loc(p, n))
    # segment is switched off for the layout that is actually used
    offs = [n for n in walk_local(p.node) if isinstance(n, ast.Assign) and norm(n) == 'segment = False']
    ok = False
    for n in offs:
        for t, _txt, pol in literals(guards(n)):
            if pol and isinstance(t, ast.Compare) and norm(t.comparators[0]) == 'COPY_ALL' and isinstance(t.ops[0], ast.Eq):
                pv = flow.provenance(p.node, t.left)
                ok = 'layout' in flow.prov_params(pv) and 'self.layout' in flow.prov_attrs(pv)
                if not ok:
                    ctx.violation('LOCK', 'PLSSDesc.parse: no segmenting for copy_all',
                                  f"`if {norm(t)}` does not test the layout this parse uses (keyword, else attribute): "
                                  f"parse(layout='copy_all') with segmenting on is cut into chunks",
                                  key="LOCK|PLSSDesc.parse|segment-copyall", where=common.loc(p, n))
                    return
    if offs:
        ctx.check(ok, 'LOCK', 'PLSSDesc.parse: no segmenting for copy_all',
                  detail_bad="`segment = False` is not conditioned on the layout being COPY_ALL",
                  key="LOCK|PLSSDesc.parse|segment-copyall")
    else:
        ctx.undecided('LOCK', 'PLSSDesc.parse: no segmenting for copy_all',
                      "no `segment = False` statement found; the switch-off may be written another way")
    # the fallback precedes the test
    fb = [n for n in walk_local(p.node) if isinstance(n, ast.Assign) and norm(n) == 'layout = self.layout']
    if fb and offs:
        cfg, _ = flow.analyse(p.node)
        ctx.shape(cfg.precedes_always(enclosing_stmt(fb[0])._parent if isinstance(enclosing_stmt(fb[0])._parent, ast.If) else fb[0],
                                      offs[0]._parent), 'LOCK',
                  'PLSSDesc.parse resolves the layout before deciding about segmenting')
    # PLSSParser
    pi = ctx.repo.func('PLSSParser.__init__')
    t = [norm(s) for s in walk_local(pi.node) if isinstance(s, ast.stmt)]
    ctx.shape('self.mandate_layout = not segment and layout is not None' in t, 'LOCK',
              'PLSSParser: a given layout is mandatory unless segmenting')
    # the clean-up default is decided by the layout that is actually used,
    # i.e. after deduction (a deduced copy_all must not be cleaned up either)
    stores = [n for n in walk_local(pi.node) if isinstance(n, ast.Assign) and norm(n.targets[0]) == 'self.clean_up']
    if stores:
        pv = flow.provenance(pi.node, stores[-1].value, control='sentinel')
        dep_layout = 'layout' in flow.prov_params(pv)
        dep_deduced = any(c.split('.')[-1] == 'deduce_layout' for c in flow.prov_calls(pv))
        ctx.tri(dep_layout and dep_deduced, dep_layout and not dep_deduced, 'ORDER',
                'PLSSParser: the clean-up default looks at the layout after deduction',
                'derives from deduce_layout()',
                "the default for clean_up is taken from the `layout` argument before deduce_layout() ran: a copy_all "
                "layout that was deduced (no Twp/Rge or no section found) gets its text cleaned up",
                key="ORDER|PLSSParser.__init__|clean_up-after-deduction", where=common.loc(pi, stores[-1]))
    else:
        ctx.undecided('ORDER', 'PLSSParser: the clean-up default looks at the layout after deduction', 'no self.clean_up store')
    ok = any(isinstance(n, ast.If) and norm(n.test) == 'clean_up is None' and
             'clean_up = True' in [norm(s) for s in n.body] and any(
                 isinstance(s, ast.If) and norm(s.test) == 'layout == COPY_ALL'
                 and 'clean_up = False' in [norm(x) for x in s.body] for s in n.body)
             for n in pi.node.body)
    ctx.shape(ok, 'LOCK', 'PLSSParser: copy_all text is not cleaned up by default')
    pp = ctx.repo.func('PLSSParser.parse')
    conds = chunk_layout_conditions(pp)
    def disjuncts(tst):
        return [norm(v) for v in tst.values] if isinstance(tst, ast.BoolOp) and isinstance(tst.op, ast.Or) else [norm(tst)]
    def mentions_copyall(c):
        return mentions(pp, c, 'COPY_ALL')
    ok = any('self.layout == COPY_ALL' in disjuncts(c) or 'COPY_ALL == self.layout' in disjuncts(c) for c in conds) \
        or any(mentions_copyall(c) for c in conds)
    bad = bool(conds) and not any(mentions_copyall(c) for c in conds)
    ctx.tri(ok, bad, 'LOCK', 'PLSSParser.parse: copy_all reaches every ChunkParser (also when segmenting)',
            detail_bad="chunk_layout is only set under a condition that does not mention COPY_ALL: with segmenting on "
                       "(no mandate), a copy_all layout is not handed to the chunk parsers",
            key="LOCK|PLSSParser.parse|chunk_layout")
    cc = [c for c in walk_local(pp.node) if isinstance(c, ast.Call) and dotted(c.func) == 'ChunkParser']
    ctx.shape(len(cc) == 1 and any(k.arg == 'layout' and norm(k.value) == 'chunk_layout' for k in cc[0].keywords)
              and any(k.arg == 'parent' and norm(k.value) == 'self' for k in cc[0].keywords), 'LOCK',
              'PLSSParser.parse builds one ChunkParser per chunk with that layout')
    pc = ctx.repo.func('ChunkParser.parse_chunk')
    ded = [n for n in walk_local(pc.node) if isinstance(n, ast.Assign) and norm(n) == 'chunk_layout = deduce_layout(chunk)']
    ok = bool(ded) and any(pol and 'chunk_layout != COPY_ALL' in norm(t) and 'not self.parent.mandate_layout' in norm(t)
                           and isinstance(t, ast.BoolOp) and isinstance(t.op, ast.And) for t, pol in guards(ded[0]))
    gts = [t for t, pol in guards(ded[0])] if ded else []
    m_copy = any(mentions(pc, t, 'COPY_ALL') for t in gts)
    m_mand = any(mentions(pc, t, mandate_attr(ctx)) for t in gts)
    ok = ok or (m_copy and m_mand)
    # `if chunk_layout is None: chunk_layout = deduce_layout(chunk)`: deduction only fills in a layout
    # that was not handed down (PLSSParser.parse hands down copy_all / a mandated layout, checked above)
    only_missing = bool(ded) and any(txt == 'chunk_layout is None' and pol for _t, txt, pol in literals(guards(ded[0])))
    ok = ok or only_missing
    ctx.tri(ok, bool(ded) and not m_copy and not m_mand and not ok, 'LOCK',
            'parse_chunk: deduction never overrides copy_all or a mandated layout',
            detail_bad="chunk-level deduce_layout runs unguarded: a forced layout is re-deduced per chunk",
            key="LOCK|parse_chunk|deduce")
    cp = [n for n in walk_local(pc.node) if isinstance(n, ast.If) and norm(n.test) == 'chunk_layout == COPY_ALL']
    ok = bool(cp) and [norm(s) for s in cp[0].body] == ['self._parse_copyall(chunk)', 'return None']
    ctx.shape(ok, 'LOCK', 'parse_chunk: copy_all -> _parse_copyall(chunk) and nothing else')
    seg = ctx.repo.func('PLSSChunker.segment')
    ok = any(isinstance(n, ast.If) and 'layout == COPY_ALL' in norm(n.test) and isinstance(n.test, ast.BoolOp)
             and isinstance(n.test.op, ast.Or)
             and [norm(s) for s in n.body][:1] == ['self.blocks.append(text)']
             and any(isinstance(s, ast.Return) for s in n.body) for n in seg.node.body)
    seg_txt = ' '.join(norm(x) for x in walk_local(seg.node) if isinstance(x, ast.stmt))
    # decided by following segment() for layout == COPY_ALL with at least one Twp/Rge match: the walk
    # must reach `self.blocks.append(text)` and return without calling a _segment_* method
    verdict = follow_segment(ctx, seg, 'COPY_ALL', ('m',))
    if verdict is None:
        ctx.tri(ok, 'COPY_ALL' not in seg_txt, 'LOCK', 'PLSSChunker.segment keeps copy_all text in one block',
                detail_bad="segment() no longer treats copy_all specially: a copy_all text that contains Twp/Rges is cut into chunks",
                key="LOCK|segment|copyall")
    else:
        ctx.check(verdict == 'kept', 'LOCK', 'PLSSChunker.segment keeps copy_all text in one block',
                  'followed for layout == copy_all with a Twp/Rge match',
                  f"for layout copy_all and a text that contains a Twp/Rge, segment() {verdict}: a description that is deduced (or "
                  f"dictated) as copy_all is cut at each Twp/Rge into several partial tracts, and text before the first one is lost",
                  key="LOCK|segment|copyall")


def follow_segment(ctx, seg, layout_name, matches):
    """Follow PLSSChunker.segment() for a given layout constant and a given
    (symbolic) list of Twp/Rge matches: 'kept' when every path of the walk
    reaches `self.<chunks>.append(text)`, otherwise what some path did
    instead; None when the body has a shape the walk does not cover.  A test
    that does not fold and does not look at the match list (a raw
    `twprge_regex.search(text)`) is independent of the assumption made about
    the finder's result: both outcomes are followed."""
    from .. import ccp
    names = layout_classes(ctx)['names']
    env0 = dict(names)
    env0.update({'layout': names.get(layout_name, layout_name.lower()), 'matches': matches, 'text': 'text'})
    budget = [200]

    def go(stmts, env):
        stmts = list(stmts)
        while stmts:
            budget[0] -= 1
            if budget[0] < 0:
                raise ccp.Unsupported('budget')
            st = stmts.pop(0)
            if isinstance(st, ast.Expr) and isinstance(st.value, ast.Constant):
                continue
            if isinstance(st, ast.If):
                try:
                    taken = ccp.truth(ccp.ev(st.test, env))
                except ccp.Unsupported:
                    if any(isinstance(x, ast.Name) and x.id == 'matches' for x in ast.walk(st.test)):
                        raise
                    a = go(list(st.body) + stmts, dict(env))
                    b = go(list(st.orelse) + stmts, dict(env))
                    if a == b:
                        return a
                    bad = a if a != 'kept' else b
                    return f"{bad} (when `{norm(st.test)[:50]}` is {'true' if a != 'kept' else 'false'})"
                stmts = list(st.body if taken else st.orelse) + stmts
            elif isinstance(st, ast.Return):
                return 'returned without keeping the text'
            elif isinstance(st, ast.Expr) and isinstance(st.value, ast.Call):
                nm_ = norm(st.value.func)
                if nm_.startswith('self._segment'):
                    return f"calls {nm_}()"
                if nm_.startswith('self.') and nm_.endswith('.append') and 'unused' not in nm_ \
                        and [norm(a) for a in st.value.args] == ['text']:
                    return 'kept'            # self.blocks.append(text) (whatever the list of chunks is called)
            elif isinstance(st, ast.Assign) and isinstance(st.targets[0], ast.Name):
                if st.targets[0].id in ('matches', 'text'):
                    continue            # the finder's result / the text: kept symbolic
                env[st.targets[0].id] = ccp.ev(st.value, env)
            else:
                raise ccp.Unsupported(type(st).__name__)
        return 'fell off the end without keeping the text'
    try:
        return go(seg.node.body, env0)
    except ccp.Unsupported:
        return None


def mandate_attr(ctx):
    """name of the PLSSParser attribute that records 'a layout was dictated'
    (`self.mandate_layout = not segment and layout is not None`): found by what
    is stored, so a rename of the attribute does not lose it"""
    try:
        pi = ctx.repo.func('PLSSParser.__init__')
    except AnalysisError:
        return 'mandate_layout'
    for n in walk_local(pi.node):
        if isinstance(n, ast.Assign) and len(n.targets) == 1 and isinstance(n.targets[0], ast.Attribute) \
                and norm(n.targets[0].value) == 'self' and n.targets[0].attr != 'layout' \
                and ('layout is not None' in norm(n.value) or 'layout is None' in norm(n.value)):
            return n.targets[0].attr
    return 'mandate_layout'


def chunk_layout_conditions(pp):
    """conditions under which PLSSParser.parse gives its chunk parsers a layout"""
    conds = []
    for n in walk_local(pp.node):
        if isinstance(n, ast.Assign) and norm(n.targets[0]) == 'chunk_layout':
            if norm(n.value) in ('self.layout', 'COPY_ALL'):
                conds += [tst for tst, pol in guards(n) if pol]
            elif isinstance(n.value, ast.IfExp) and norm(n.value.body) in ('self.layout', 'COPY_ALL'):
                conds.append(n.value.test)
    return conds


def mentions(fi, test, what):
    """the condition refers to `what` (a global / attribute name), directly or
    through local variables"""
    if what in norm(test):
        return True
    for nm_ in [x for x in ast.walk(test) if isinstance(x, ast.Name)]:
        pv_ = flow.provenance(fi.node, nm_)
        for a in pv_:
            if a[0] in ('global', 'attr') and what in str(a[1]):
                return True
    return False


def _once(ctx):
    init = ctx.repo.func('ChunkParser.__init__')
    # which value of which parameter makes __init__ stage only (parse_chunk)
    # instead of staging and handing off (parse_safe)
    flag = stage_value = None
    for n_ in init.node.body:
        if not isinstance(n_, ast.If):
            continue
        test, neg = n_.test, False
        if isinstance(test, ast.UnaryOp) and isinstance(test.op, ast.Not):
            test, neg = test.operand, True
        if not (isinstance(test, ast.Name) and test.id in init.params()):
            continue
        body, orelse = [norm(x) for x in n_.body], [norm(x) for x in n_.orelse]
        if body == ['self.parse_safe()'] and orelse == ['self.parse_chunk()']:
            flag, stage_value = test.id, neg
        elif body == ['self.parse_chunk()'] and orelse == ['self.parse_safe()']:
            flag, stage_value = test.id, not neg
    ctx.shape(flag is not None, 'ONCE', 'ChunkParser: hands off (parse_safe) unless told to stage only')
    # every ChunkParser built inside ChunkParser is a stage-only replacement
    ci = ctx.repo.cls('plss_parse:ChunkParser')
    n = 0
    pos = [a.arg for a in init.node.args.args][1:]
    dflt = dict(zip(reversed(pos), reversed([norm(d) for d in init.node.args.defaults])))
    for m in ci.methods.values():
        for c in walk_local(m.node):
            if isinstance(c, ast.Call) and dotted(c.func) == 'ChunkParser':
                n += 1
                if flag is None:
                    continue
                bound = dict(dflt)
                bound.update({pos[i]: norm(a) for i, a in enumerate(c.args) if i < len(pos)})
                bound.update({k.arg: norm(k.value) for k in c.keywords if k.arg})
                got = bound.get(flag)
                ctx.tri(got == str(stage_value), got == str(not stage_value), 'ONCE',
                        f"{m.qualname}: replacement ChunkParser only stages ({flag}={stage_value})",
                        'its lists are copied and handed off once by the ChunkParser it replaces',
                        "the replacement hands its results to the parent itself and they are handed off again "
                        "by the original: the fallback tract (and its flags) appear twice",
                        key=f"ONCE|{m.qualname}|replacement", where=common.loc(m, c))
                args = [norm(a) for a in c.args]
                ctx.shape(args[:2] == ['self.text', 'COPY_ALL'], 'ONCE',
                          f"{m.qualname}: the replacement re-parses the whole chunk text as copy_all")
    ctx.floor('replacement ChunkParser sites', n, 1)
    safe = ctx.repo.func('ChunkParser.parse_safe')
    ext = [norm(c) for c in walk_local(safe.node) if isinstance(c, ast.Call) and isinstance(c.func, ast.Attribute)
           and c.func.attr == 'extend']
    dup = len(ext) != len(set(ext))
    ctx.tri(not dup and 'parent.tract_components.extend(self.tract_components)' in ext, dup, 'ONCE',
            'parse_safe hands each staged list to the parent exactly once',
            detail_bad=f"hand-offs: {ext}", key="ONCE|parse_safe|once")
    # nobody else extends the parent's tract_components (helpers that only
    # parse_safe calls are part of parse_safe)
    part_of_safe = {'ChunkParser.parse_safe'}
    for c in walk_local(safe.node):
        if isinstance(c, ast.Call) and (dotted(c.func) or '').startswith('self.'):
            nm_ = dotted(c.func).split('.')[-1]
            callers = {f.qualname for f in ctx.repo.funcs.values() for x in ast.walk(f.node)
                       if isinstance(x, ast.Call) and (dotted(x.func) or '').split('.')[-1] == nm_}
            if callers <= {'ChunkParser.parse_safe'}:
                part_of_safe.add(f"ChunkParser.{nm_}")
    for fi in ctx.repo.funcs.values():
        if fi.module.name.endswith('plss_parse') and fi.qualname not in part_of_safe:
            for c in walk_local(fi.node):
                if isinstance(c, ast.Call) and isinstance(c.func, ast.Attribute) and c.func.attr in ('extend', 'append') \
                        and norm(c.func.value) in ('parent.tract_components', 'self.parent.tract_components'):
                    ctx.violation('ONCE', f"{fi.qualname}: {norm(c)[:60]}", "second hand-off path to the parent",
                                  key=f"ONCE|{fi.qualname}|handoff")


def late_defaults(ctx, rule='LOCK'):
    """PLSSParser decides some defaults only when it knows the layout
    (`if clean_up is None: clean_up = True; if layout == COPY_ALL: clean_up =
    False`).  PLSSDesc.parse must therefore hand such an option down as None
    when the caller did not give it: resolving None to an attribute of the
    description first means the layout-dependent default never applies (a
    copy_all description is cleaned up although nothing asked for it)."""
    from ..srcmodel import facts_at
    init = ctx.repo.func('PLSSParser.__init__')
    late = {}
    for n in walk_local(init.node):
        if isinstance(n, ast.If):
            for _e, txt, pol in literals([(n.test, True)]):
                if txt.endswith(' is None') and pol and txt.split(' ')[0] in init.params():
                    inner = [x for b in n.body for x in ast.walk(b) if isinstance(x, ast.If)]
                    if inner:
                        late[txt.split(' ')[0]] = norm(inner[0].test)
    pp = ctx.repo.func('PLSSDesc.parse')
    n_ = 0
    for p_, cond in sorted(late.items()):
        if p_ not in pp.params():
            continue
        n_ += 1
        early = [a for a in walk_local(pp.node) if isinstance(a, ast.Assign) and norm(a.targets[0]) == p_
                 and not (isinstance(a.value, ast.Constant) and a.value.value is None)
                 and any(txt == f"{p_} is None" and pol for _e, txt, pol in facts_at(a))]
        ctx.check(not early, rule, f"PLSSDesc.parse hands `{p_}` down as None when it was not given",
                  f"PLSSParser decides it under `{cond}`",
                  f"`{norm(early[0])[:60]}` replaces the missing `{p_}` before the parser sees it: PLSSParser's own default "
                  f"(which depends on `{cond}`) never applies - with copy_all the description is cleaned although the "
                  f"layout promises the text as it is" if early else '',
                  key=f"{rule}|PLSSDesc.parse|late-default|{p_}", where=common.loc(pp, early[0]) if early else None)
    if n_ == 0:
        ctx.undecided(rule, 'PLSSDesc.parse hands late-defaulted options down as None', 'no layout-dependent default found in PLSSParser')


def _copyall(ctx):
    fi = ctx.repo.func('ChunkParser._parse_copyall')
    calls = [c for c in walk_local(fi.node) if isinstance(c, ast.Call) and dotted(c.func) == 'self._stage_new_tract']
    ctx.check(len(calls) == 1 and not guards(calls[0]) and not any(
        isinstance(n, (ast.For, ast.While)) for n in walk_local(fi.node)), 'TBL',
        '_parse_copyall stages exactly one tract', detail_bad=f"{len(calls)} staging calls / loop present",
        key="TBL|_parse_copyall|once")
    if len(calls) != 1:
        return
    stp = ctx.repo.func('ChunkParser._stage_new_tract').params()[1:]
    amap = {}
    for nm_, av in zip(stp, calls[0].args):
        amap[nm_] = av
    for k_ in calls[0].keywords:
        if k_.arg:
            amap[k_.arg] = k_.value
    if not {'desc', 'sec'} <= set(amap):
        ctx.undecided('DEFUSE', '_parse_copyall staging arguments', 'arguments not recognised')
        return
    a = [amap['desc'], amap['sec']]
    txtparam = fi.params()[1]
    roots = alias_roots(fi, a[0]) if isinstance(a[0], ast.Name) else {('expr', norm(a[0]))}
    ctx.tri(roots == {('param', txtparam)}, any(k_ == 'fresh' for k_, _ in roots), 'DEFUSE',
            '_parse_copyall stages the unmodified chunk text',
            detail_bad=f"the staged description is {sorted(roots)}, not the chunk text as given (cleaned / cut)",
            key="DEFUSE|_parse_copyall|text")
    # a single section
    cfg, rd = flow.analyse(fi.node)
    node = flow.stmt_node(cfg, a[1])
    defs = [rd.defs[d] for d in rd.reaching(node, a[1].id)] if isinstance(a[1], ast.Name) else []
    def one_elem(v):
        return (isinstance(v, ast.List) and len(v.elts) == 1) or (
            isinstance(v, ast.Subscript) and isinstance(v.slice, ast.Slice) and norm(v.slice) in (':1', '0:1'))
    single = bool(defs) and all(isinstance(v, ast.AST) and one_elem(v) for v in defs)
    if not defs and isinstance(a[1], ast.AST) and one_elem(a[1]):
        single = True
    whole = bool(defs) and all(isinstance(v, ast.Call) and (dotted(v.func) or '').endswith('get_next_sec') for v in defs)
    # a slice that keeps more than one element ([:2]) still stages several sections
    wide = [v for v in defs if isinstance(v, ast.Subscript) and isinstance(v.slice, ast.Slice)
            and norm(v.slice) not in (':1', '0:1')]
    if wide:
        whole = True
    if isinstance(a[1], ast.Attribute) and norm(a[1].value) == 'self':
        gns = ctx.repo.func('ChunkParser.get_next_sec')
        lists = {n.attr for n in ast.walk(gns.node) if isinstance(n, ast.Attribute) and isinstance(n.ctx, ast.Store)
                 and norm(n.value) == 'self'}
        whole = a[1].attr in lists      # the working section *list* itself
    ctx.tri(single, whole, 'DEFUSE', '_parse_copyall stages a single section (the first of a multi-section)',
            'one-element list',
            "the whole section list from get_next_sec() is staged: construct_tracts creates one full-text tract per section",
            key="DEFUSE|_parse_copyall|single-sec", where=common.loc(fi, calls[0]))
    t = [norm(s) for s in fi.node.body]
    ctx.shape('sec = self.get_next_sec()' in t and 'twprge = self.get_next_twprge()' in t, 'DEFUSE',
              '_parse_copyall takes the first found section / Twp/Rge or the error placeholders')
    st = ctx.repo.func('ChunkParser._stage_new_tract')
    t = ' '.join(norm(s) for s in walk_local(st.node) if isinstance(s, ast.stmt))
    ctx.shape("'desc': desc" in t and "'sec': sec" in t and "'twprge': twprge" in t and 'self.tract_components.append(new)' in t,
              'DEFUSE', '_stage_new_tract stores desc/sec/twprge as given')


def _fallback(ctx):
    pc = ctx.repo.func('ChunkParser.parse_chunk')
    fb = [n for n in walk_local(pc.node) if isinstance(n, ast.If) and norm(n.test) == 'not self.tract_components']
    ctx.shape(len(fb) == 1, 'TBL', 'parse_chunk falls back to copy_all when no tract was formed')
    # must be the last thing before returning on the meaningful path
    if fb:
        cfg, _ = flow.analyse(pc.node)
        mean = [enclosing_stmt(c) for c in walk_local(pc.node) if isinstance(c, ast.Call)
                and dotted(c.func) == 'self._parse_meaningful']
        if mean:
            ctx.check(cfg.must_pass(cfg.node_of(mean[0]), [cfg.node_of(fb[0])]), 'TBL',
                      'every path after _parse_meaningful reaches the empty-result fallback test',
                      detail_bad="a path returns from parse_chunk without the fallback test: zero tracts possible",
                      key="TBL|parse_chunk|fallback-allpaths")
