"""
C13 -- configuration round-trips through text and has a single precedence
order.
"""

import ast

from .. import AnalysisError, flow
from ..fold import is_unknown
from ..srcmodel import walk_local, norm, dotted, guards, enclosing_stmt, literals
from . import common, forward

META = {
    'explanation': (
        "Codec tables (every setting belongs to exactly one value category; "
        "writer and reader handle every category; None is tested by identity, "
        "unknown names raise ValueError on every path), LOCK rule on every "
        "parse() keyword of PLSSDesc and Tract (the value that reaches the "
        "parser derives from the keyword AND from the same-named attribute, "
        "i.e. keyword if given else attribute), forwarding of keywords through "
        "parse_tracts, the config hand-down to subordinate tracts, config "
        "setters covering their attribute tables with defaults assigned "
        "before the config is applied, and dead parser parameters. Not "
        "decided: that two channels give observably equal results."
        ' Also: generic option forwarding (DEADPARAM / FORWARD / SIB-DEFAULTS / delegate names), construct_tracts hands parse_qq to every Tract, parse_tracts forwards its arguments as given (provenance), the reader applies a parsed setting unless it is None (three-valued str_to_value), keyword-wins by constant propagation, MasterConfig is the last fallback.'
        ' Round 7: the .config setters are not gated on .config_text; Config.decompile_to_text writes typed settings only; the word dispatch of _text_to_attributes is evaluated on layout names, directions, boolean settings and non-settings.'
        ' Round 8: a setting sets only itself (_set_str_to_values); parse_tracts() is not gated on parse_complete.'
        ' Round 9: decompile_to_text walks the complete table of settings; no de-duplication in TractParser.parse.'
        " Round 11: a setting the class keeps is in the table its config setter walks; a keyword of a setting's name is applied after the config; the layout value keeps its case on the way to the layout table; verify_default_ns / _ew use their own member's constants; loop-initialised settings count."
        " Round 12: the integer test of str_to_value accepts every int the writer emits ('0'); the handed-down config keyword is found by what is handed over."
        " Also (round 12): TractParser takes its settings from its arguments only (no second fall-back to the parent's setting)."),
    'families': ['TBL', 'LOCK', 'DEADPARAM', 'SIB', 'FORWARD', 'DEADPARAM', 'SIB-DEFAULTS'],
}


def check(ctx):
    ctx.consult('config/config.py', 'plssdesc/plssdesc.py', 'plssdesc/plss_parse.py',
                'tract/tract.py', 'containers/containers.py')
    ctx.attempt(_codec)
    ctx.attempt(_setters)
    ctx.attempt(_lock_plssdesc)
    ctx.attempt(_lock_tract)
    ctx.attempt(_forwarding)
    ctx.attempt(_deadparam)
    ctx.attempt(_sibling_verifiers)
    ctx.attempt(config_separators)
    ctx.attempt(decompiled_text_is_typed)
    ctx.attempt(one_setting_sets_itself)
    # the keyword and the config channel of a setting give the same lots / QQs (no de-duplication on one of them)
    ctx.attempt(common.dedup_idioms, [f for f in ctx.repo.funcs.values() if f.module.name.endswith(('tract.tract_parse', 'tract.tract'))])
    ctx.attempt(word_dispatch)
    from .c14 import parse_not_gated          # config_tracts() / a new .config must take effect on the next parse_tracts()
    ctx.attempt(parse_not_gated, rule='LOCK')
    ctx.attempt(_direction_writer)
    ctx.attempt(config_setters_keep_false)
    from .layouts import layout_classes      # the config reader validates `layout.<name>` against this table
    ctx.attempt(layout_classes)
    ctx.attempt(_init_override_order)
    from .c08 import calltime_defaults     # keyword > config string > MasterConfig: the last link
    ctx.attempt(calltime_defaults, rule='LOCK')
    ctx.attempt(_tract_creation)
    ctx.attempt(forward.check_all, module_suffixes=('config.config', 'plssdesc.plssdesc', 'plssdesc.plss_parse', 'tract.tract', 'tract.tract_parse', 'containers.containers'))
    ctx.attempt(common.none_vs_false, [f for f in ctx.repo.funcs.values() if f.module.name.endswith('config.config')])
    ctx.attempt(lockdown, ctx.repo.func('Tract.from_twprgesec'), only=('default_ns', 'default_ew'), source='config')
    ctx.attempt(_layout_value_keeps_its_case)
    ctx.attempt(_int_values_round_trip)
    ctx.attempt(_parser_takes_settings_from_arguments)
    ctx.attempt(common.name_tag_purity, [f for f in ctx.repo.funcs.values() if f.module.name.endswith(('config.config', 'config.master_config'))],
                pairs=(('ns', 'ew'),))


def _cfg(ctx, a):
    return ctx.fold.get_attr('config.config', 'Config', a)


def _codec(ctx):
    allattrs = _cfg(ctx, '_CONFIG_ATTRIBUTES')
    bools, ints = _cfg(ctx, '_BOOL_TYPE_ATTRIBUTES'), _cfg(ctx, '_INT_TYPE_ATTRIBUTES')
    pl, tr = _cfg(ctx, '_PLSSDESC_ATTRIBUTES'), _cfg(ctx, '_TRACT_ATTRIBUTES')
    cats = [set(bools), set(ints), {'default_ns', 'default_ew'}, {'layout'}]
    union = set().union(*cats)
    ctx.check(union == set(allattrs) and sum(len(c) for c in cats) == len(set(allattrs)) == len(allattrs),
              'TBL', 'every setting is in exactly one value category (bool/int/direction/layout)',
              detail_bad=f"uncategorised: {sorted(set(allattrs) - union)}; unknown: {sorted(union - set(allattrs))}",
              key="TBL|Config|categories")
    ctx.check(set(pl) <= set(allattrs) and set(tr) <= set(allattrs), 'TBL',
              '_PLSSDESC_ATTRIBUTES and _TRACT_ATTRIBUTES are settings',
              detail_bad="attribute tables name unknown settings", key="TBL|Config|subsets")
    ctx.notes['settings'] = list(allattrs)
    init = ctx.repo.func('Config.__init__')
    none_inits = {norm(s.targets[0])[5:] for s in walk_local(init.node)
                  if isinstance(s, ast.Assign) and norm(s.targets[0]).startswith('self.')
                  and isinstance(s.value, ast.Constant) and s.value.value is None}
    # ... or in a loop over a table of names: `for a in self._CONFIG_ATTRIBUTES: setattr(self, a, None)`
    for lp in walk_local(init.node):
        if isinstance(lp, ast.For) and isinstance(lp.target, ast.Name):
            sets = [c for c in ast.walk(lp) if isinstance(c, ast.Call) and dotted(c.func) == 'setattr' and len(c.args) == 3
                    and norm(c.args[0]) == 'self' and norm(c.args[1]) == lp.target.id
                    and isinstance(c.args[2], ast.Constant) and c.args[2].value is None]
            if sets:
                tbl = common.fold_in_func(ctx, init, lp.iter)
                if isinstance(tbl, (list, tuple, set, frozenset)):
                    none_inits |= {x for x in tbl if isinstance(x, str)}
    ctx.check(set(allattrs) <= none_inits, 'TBL', 'Config.__init__ initialises every setting to None',
              detail_bad=f"not initialised: {sorted(set(allattrs) - none_inits)}", key="TBL|Config.__init__")
    # writer
    w = ctx.repo.func('config.config:attrib_and_val_to_str')
    first = next((s for s in w.node.body if isinstance(s, ast.If)), None)
    if first is None:
        raise AnalysisError("attrib_and_val_to_str: no leading None test")
    t = norm(first.test)
    if t == 'value is None':
        ctx.ok('TBL', 'writer omits a setting only when it is None (identity test)')
    elif isinstance(first.test, ast.UnaryOp) and isinstance(first.test.op, ast.Not):
        ctx.violation('TBL', 'writer omits a setting only when it is None',
                      f"`if {t}` also drops explicit False / 0 values from the text form",
                      key="TBL|attrib_and_val_to_str|none-test", where=common.loc(w, first))
    else:
        raise AnalysisError(f"attrib_and_val_to_str: unrecognised first test `{t}`")
    wt = ' '.join(norm(s) for s in walk_local(w.node) if isinstance(s, ast.stmt))
    ctx.shape('attribute in Config._BOOL_TYPE_ATTRIBUTES' in wt and 'return attribute' in wt
              and "return f'{attribute}.{value}'" in wt.replace('"', "'")
              and "attribute in ['default_ns', 'default_ew']" in wt and 'return value[0]' in wt, 'TBL',
              'writer: True -> name, False/int/layout -> name.value, direction -> first letter')
    d = ctx.repo.func('Config.decompile_to_text')
    dt = ' '.join(norm(s) for s in walk_local(d.node) if isinstance(s, ast.stmt))
    ctx.shape('for att in Config._CONFIG_ATTRIBUTES' in dt and 'attrib_and_val_to_str(att, getattr(self, att))' in dt
              and "','.join(write_vals)" in dt, 'TBL', 'decompile_to_text writes every setting, comma separated')
    # reader
    r = ctx.repo.func('Config._text_to_attributes')
    rt = ' '.join(norm(s) for s in walk_local(r.node) if isinstance(s, ast.stmt))
    ctx.shape("in Config._BOOL_TYPE_ATTRIBUTES" in rt and 'default_bool=True' in rt
              and 'line in MasterConfig._LEGAL_NS' in rt and 'line in MasterConfig._LEGAL_EW' in rt
              and 'line in _IMPLEMENTED_LAYOUTS' in rt and 'self._set_str_to_values(line)' in rt, 'TBL',
              'reader handles bare bools, bare directions, bare layouts and name.value pairs')
    from .. import rx as _rx

    def split_langs(fi_):
        out = []
        for c in walk_local(fi_.node):
            if isinstance(c, ast.Call) and dotted(c.func) == 're.split' and c.args:
                v = ctx.fold.eval(c.args[0], ctx.fold.func_env(fi_), fi_.module.name)
                if isinstance(v, str):
                    out.append((v, _rx.Lang(v, 0)))
        return out
    seps = split_langs(r)
    full = [p_ for p_, L_ in seps if L_.fullmatch(',') and L_.fullmatch(';')]
    part = [p_ for p_, L_ in seps if L_.fullmatch(',') != L_.fullmatch(';')]
    ctx.tri(bool(full), bool(part) and not full, 'TBL', "reader splits settings on ',' and ';'",
            detail_bad=f"split pattern {part} accepts only one of the documented separators", key="TBL|_text_to_attributes|split")
    s = ctx.repo.func('Config._set_str_to_values')
    cfg, _ = flow.analyse(s.node)
    raises = [n for n in walk_local(s.node) if isinstance(n, ast.Raise) and 'ValueError' in norm(n)
              and any('not in self._CONFIG_ATTRIBUTES' in norm(t) and pol for t, pol in guards(n))]
    sets = [enclosing_stmt(c) for c in walk_local(s.node) if isinstance(c, ast.Call) and dotted(c.func) == 'setattr']
    ok = bool(raises) and bool(sets)
    if ok:
        chk = enclosing_stmt(raises[0])._parent   # the `if attribute not in ...`
        ok = all(cfg.precedes_always(chk, st) for st in sets)
    ctx.check(ok, 'TBL', 'unknown setting name -> ValueError before anything is stored',
              detail_bad="the unknown-name check no longer dominates setattr", key="TBL|_set_str_to_values|unknown")
    st = ' '.join(norm(x) for x in walk_local(s.node) if isinstance(x, ast.stmt))
    seps2 = split_langs(s)
    full2 = [p_ for p_, L_ in seps2 if all(L_.fullmatch(ch) for ch in '.=:')]
    part2 = [p_ for p_, L_ in seps2 if any(L_.fullmatch(ch) for ch in '.=:') and not all(L_.fullmatch(ch) for ch in '.=:')]
    ctx.tri(bool(full2), bool(part2) and not full2, 'TBL', "reader splits name/value on '.', '=' or ':'",
            detail_bad=f"split pattern {part2} no longer accepts all of '.', '=', ':'", key="TBL|_set_str_to_values|split")
    for cat, needle in (('bool', 'Config._BOOL_TYPE_ATTRIBUTES'), ('int', 'Config._INT_TYPE_ATTRIBUTES'),
                        ('layout', "attribute == 'layout'"), ('default_ns', 'verify_default_ns(value)'),
                        ('default_ew', 'verify_default_ew(value)')):
        ctx.shape(needle in st, 'SIB', f"_set_str_to_values validates {cat} values")
    fd = ctx.repo.func('Config.from_dict')
    ft = ' '.join(norm(x) for x in walk_local(fd.node) if isinstance(x, ast.stmt))
    for needle in ('cls._BOOL_TYPE_ATTRIBUTES', 'cls._INT_TYPE_ATTRIBUTES', 'verify_default_ns(val)', 'verify_default_ew(val)'):
        ctx.shape(needle in ft, 'SIB', f"from_dict validates ({needle})")
    sv = ctx.repo.func('config.config:str_to_value')
    vt = ' '.join(norm(x) for x in walk_local(sv.node) if isinstance(x, ast.stmt))
    ctx.shape("text == 'None'" in vt and "text == 'True'" in vt and "text == 'False'" in vt and 'int(text)' in vt,
              'TBL', "str_to_value decodes None/True/False/int")


def _setters(ctx):
    for cls, table in (('PLSSDesc', '_PLSSDESC_ATTRIBUTES'), ('Tract', '_TRACT_ATTRIBUTES')):
        ci = ctx.repo.cls(cls)
        setters = [st for st in ci.node.body if isinstance(st, ast.FunctionDef) and st.name == 'config'
                   and any('setter' in norm(d) for d in st.decorator_list)]
        if len(setters) != 1:
            raise AnalysisError(f"{cls}.config setter not found")
        t = ' '.join(norm(s) for s in ast.walk(setters[0]) if isinstance(s, ast.stmt))
        ctx.shape(f"for attrib in Config.{table}" in t and 'value = getattr(new_config, attrib)' in t
                  and 'if value is not None' in t and 'setattr(self, attrib, value)' in t, 'SIB',
                  f"{cls}.config setter applies every non-None setting of Config.{table}")
        ctx.shape('raise ConfigError(new_config)' in t and 'Config(new_config)' in t, 'SIB',
                  f"{cls}.config setter: str/None -> Config, other types -> ConfigError")
        # defaults assigned before `self.config = config`, no unguarded store after
        init = ctx.repo.func(f"{cls}.__init__")
        names = set(_cfg(ctx, table))
        stmts = [s for s in init.node.body]
        cfg_idx = next((i for i, s in enumerate(stmts) if norm(s) == 'self.config = config'), None)
        if cfg_idx is None:
            raise AnalysisError(f"{cls}.__init__: `self.config = config` not found")
        before = {norm(s.targets[0])[5:] for s in stmts[:cfg_idx] if isinstance(s, ast.Assign)
                  and norm(s.targets[0]).startswith('self.')}
        ctx.check(names <= before, 'LOCK', f"{cls}.__init__ gives every setting a default before applying config",
                  detail_bad=f"no default before the config is applied: {sorted(names - before)}",
                  key=f"LOCK|{cls}.__init__|defaults")
        # the converse: a setting of the Config vocabulary that this class keeps as an attribute is in the
        # table its config setter walks - otherwise naming it in a config string has no effect on the object
        allnames = set(_cfg(ctx, '_CONFIG_ATTRIBUTES'))
        kept = {norm(s.targets[0])[5:] for s in stmts[:cfg_idx] if isinstance(s, ast.Assign)
                and norm(s.targets[0]).startswith('self.')} & allnames
        ctx.check(kept <= names, 'TBL', f"every setting {cls} keeps as an attribute is in Config.{table}",
                  detail_bad=f"{cls}.__init__ gives {sorted(kept - names)} a default, and {cls} reads it later, but Config.{table} "
                             f"does not list it: `{sorted(kept - names)[0] if kept - names else ''}` in a config string (or handed "
                             f"down from the description) is silently ignored by the {cls}",
                  key=f"TBL|Config.{table}|kept-setting-missing")
        # a keyword of the same name as a setting is applied AFTER the config (keyword wins); using it for
        # the default in front of `self.config = config` lets the config text override the keyword
        for s in stmts[:cfg_idx]:
            if isinstance(s, ast.Assign) and norm(s.targets[0]).startswith('self.') and norm(s.targets[0])[5:] in names:
                nm = norm(s.targets[0])[5:]
                if nm in init.params() and any(isinstance(x, ast.Name) and x.id == nm for x in ast.walk(s.value)):
                    later = any(isinstance(x, ast.Assign) and norm(x.targets[0]) == f"self.{nm}"
                                for s2 in stmts[cfg_idx + 1:] for x in ast.walk(s2))
                    ctx.check(later, 'LOCK', f"{cls}.__init__: keyword {nm} is applied after the config",
                              detail_bad=f"`{norm(s)[:70]}` uses the `{nm}` keyword for the default, in front of `self.config = config`, "
                                         f"and nothing re-applies it afterwards: a config string that names {nm} overrides the keyword "
                                         f"({cls}(..., config='{nm}', {nm}=False) comes out with {nm} on)",
                              key=f"LOCK|{cls}.__init__|kw-before-config|{nm}", where=common.loc(init, s))
        for s in stmts[cfg_idx + 1:]:
            if isinstance(s, ast.Assign) and norm(s.targets[0]).startswith('self.') \
                    and norm(s.targets[0])[5:] in names:
                ctx.violation('LOCK', f"{cls}.__init__: `{norm(s)}` after the config was applied",
                              "an unconditional store overwrites the value given in the config",
                              key=f"LOCK|{cls}.__init__|overwrite|{norm(s.targets[0])[5:]}",
                              where=common.loc(init, s))
        for s in stmts[cfg_idx + 1:]:
            if isinstance(s, ast.If):
                for a in s.body:
                    if isinstance(a, ast.Assign) and norm(a.targets[0]).startswith('self.') \
                            and norm(a.targets[0])[5:] in names:
                        nm = norm(a.targets[0])[5:]
                        given = norm(s.test) == f"{nm} is not None"
                        uses = {x.id for x in ast.walk(a.value) if isinstance(x, ast.Name)}
                        ctx.tri(given and norm(a.value) == nm, not given or nm not in uses,
                                'LOCK', f"{cls}.__init__: keyword {nm} overrides config only when given",
                                detail_bad=f"`if {norm(s.test)}: {norm(a)}`",
                                key=f"LOCK|{cls}.__init__|kw|{nm}",
                                why=f"`{norm(a)}`: the keyword is passed through a helper that is not decided here")


def _consumer_kwargs(ctx, fi, callee):
    """keyword -> value expr reaching callee(...) in fi, expanding **dict
    literals assigned to a local name."""
    calls = [c for c in walk_local(fi.node) if isinstance(c, ast.Call) and dotted(c.func) == callee]
    if len(calls) != 1:
        raise AnalysisError(f"{fi.qualname}: expected one {callee}(...) call")
    call = calls[0]
    out = {}
    for k in call.keywords:
        if k.arg is not None:
            out[k.arg] = k.value
        else:
            if not isinstance(k.value, ast.Name):
                raise AnalysisError(f"{fi.qualname}: **{norm(k.value)} not a local dict")
            dicts = [s.value for s in walk_local(fi.node) if isinstance(s, ast.Assign)
                     and norm(s.targets[0]) == k.value.id and isinstance(s.value, ast.Dict)]
            if len(dicts) != 1:
                raise AnalysisError(f"{fi.qualname}: **{k.value.id} is not a single dict literal")
            for kk, vv in zip(dicts[0].keys, dicts[0].values):
                if not isinstance(kk, ast.Constant):
                    raise AnalysisError("non-constant key in **kwargs dict")
                out[kk.value] = vv
            # entries added afterwards: d['k'] = v (possibly under a condition; the
            # value node keeps its place in the tree, so guards(v) sees it)
            for s in walk_local(fi.node):
                if isinstance(s, ast.Assign) and len(s.targets) == 1 and isinstance(s.targets[0], ast.Subscript) \
                        and norm(s.targets[0].value) == k.value.id and isinstance(s.targets[0].slice, ast.Constant) \
                        and s.lineno < call.lineno:
                    out[s.targets[0].slice.value] = s.value
                # the dict re-built through a filter: {k: v for k, v in d.items() if v}
                if isinstance(s, ast.Assign) and len(s.targets) == 1 and norm(s.targets[0]) == k.value.id \
                        and isinstance(s.value, ast.DictComp) and s.lineno < call.lineno and s.value.generators \
                        and s.value.generators[0].ifs and k.value.id in norm(s.value.generators[0].iter):
                    out['__filter__'] = s.value
    return call, out


def _lock(ctx, fi, kwargs, mapping, cls):
    """mapping: parser keyword -> list of parse() parameters that must reach it
    (each together with its same-named attribute, if the class has one)."""
    members = ctx.repo.class_members(ctx.repo.cls(cls))
    for kw, params in mapping.items():
        if kw not in kwargs:
            ctx.violation('LOCK', f"{fi.qualname}: parser receives {kw}",
                          f"`{kw}` is no longer handed to the parser", key=f"LOCK|{fi.qualname}|{kw}|missing")
            continue
        prov = flow.provenance(fi.node, kwargs[kw], control='sentinel')
        pset, aset = flow.prov_params(prov), flow.prov_attrs(prov)
        for p in params:
            ctx.check(p in pset, 'LOCK', f"{fi.qualname}: keyword {p} reaches the parser's {kw}",
                      'derives from the argument',
                      f"the value handed to the parser as `{kw}` does not derive from the `{p}` "
                      f"argument: parse({p}=...) has no effect",
                      key=f"LOCK|{fi.qualname}|{kw}|param|{p}")
            if p in members:
                ctx.check(f"self.{p}" in aset or any(a.startswith('self.') and p in a for a in aset), 'LOCK',
                          f"{fi.qualname}: {kw} falls back to self.{p}",
                          'derives from the attribute when the argument is None',
                          f"`{kw}` never falls back to the configured attribute self.{p}",
                          key=f"LOCK|{fi.qualname}|{kw}|attr|{p}")
    lockdown(ctx, fi)


def lockdown(ctx, fi, only=None, rule='LOCK', source='self'):
    """Argument-over-attribute discipline of a parse()/preprocess() method:
    (a) `P = self.P` runs only when the argument P was not given (its guard
    tests P itself); (b) once P is locked down, self.P is not read again."""
    n = 0
    locked = {}
    for x in walk_local(fi.node):
        if isinstance(x, ast.Assign) and isinstance(x.targets[0], ast.Name) \
                and x.targets[0].id in fi.params() and (only is None or x.targets[0].id in only) and any(
                    isinstance(y, ast.Attribute) and norm(y) == f"{source}.{x.targets[0].id}" for y in ast.walk(x.value)):
            locked.setdefault(x.targets[0].id, []).append(x)
    for p_, assigns in locked.items():
        allowed = {id(x) for a in assigns for x in ast.walk(a.value)}
        for a in assigns:
            for t_, _pol in guards(a):
                allowed |= {id(x) for x in ast.walk(t_)}
        stray = [x for x in walk_local(fi.node) if isinstance(x, ast.Attribute) and isinstance(x.ctx, ast.Load)
                 and norm(x) == f"{source}.{p_}" and id(x) not in allowed]
        n += 1
        ctx.check(not stray, rule, f"{fi.qualname}: after the lock-down only the local `{p_}` is used",
                  detail_bad=f"`{norm(enclosing_stmt(stray[0]))[:70] if stray else ''}` reads {source}.{p_} again after `{p_}` was "
                             f"locked down: a given `{p_}` argument is bypassed there",
                  key=f"{rule}|{fi.qualname}|stray-attr|{p_}", where=common.loc(fi, stray[0]) if stray else None)
    # every fallback is of the form `if P is None: P = self.P` (argument wins)
    for x in walk_local(fi.node):
        if isinstance(x, ast.Assign) and isinstance(x.targets[0], ast.Name) \
                and norm(x.value) == f"{source}.{x.targets[0].id}" and x.targets[0].id in fi.params() \
                and (only is None or x.targets[0].id in only):
            p = x.targets[0].id
            gs = [(t, pol) for _e, t, pol in literals(guards(x))]
            ok = (f"{p} is None", True) in gs or (p, False) in gs
            given = (f"{p} is None", False) in gs or (p, True) in gs
            # a switch / number setting has meaningful falsy values (False, 0):
            # only an identity test with None tells "not given"
            try:
                falsy_ok = set(ctx.fold.get_attr('config.config', 'Config', '_BOOL_TYPE_ATTRIBUTES')) | \
                    set(ctx.fold.get_attr('config.config', 'Config', '_INT_TYPE_ATTRIBUTES'))
            except Exception:
                falsy_ok = set()
            if p in falsy_ok and (p, False) in gs and (f"{p} is None", True) not in gs:
                n += 1
                ctx.violation(rule, f"{fi.qualname}: `{p} = {source}.{p}` only when the argument is not given",
                              f"`if not {p}: {norm(x)}`: `{p}` is a switch / number setting, so an explicit {p}=False "
                              f"(or 0) passed by the caller is taken for 'not given' and overridden by the configured value",
                              key=f"{rule}|{fi.qualname}|fallback-guard|{p}", where=common.loc(fi, x))
                continue
            import re as _re
            mentions_p = any(_re.search(rf"(?<![\w.]){_re.escape(p)}\b", t) for t, pol in gs)
            bad = not gs or given or not mentions_p
            n += 1
            # ... and ALWAYS when it is not given: a further condition on the object's state means the
            # attribute (set by config / assignment after creation) is ignored in the other state
            extra = [t for t, pol in gs if not _re.search(rf"(?<![\w.]){_re.escape(p)}\b", t) and f"{source}." in t]
            if ok and extra:
                n += 1
                ctx.violation(rule, f"{fi.qualname}: `{p} = {source}.{p}` whenever the argument is not given",
                              f"the fall-back `{norm(x)}` additionally requires `{extra[0]}`: when that does not hold, the value held "
                              f"in {source}.{p} (set through .config, a Config object or by assignment after creation) is silently "
                              f"ignored although no argument overrides it", key=f"{rule}|{fi.qualname}|fallback-extra|{p}",
                              where=common.loc(fi, x))
                continue
            ctx.tri(ok, bad and not ok, rule, f"{fi.qualname}: `{p} = {source}.{p}` only when the argument is not given",
                    detail_bad=f"`{norm(x)}` runs under {gs or 'no condition'}, which does not ask whether `{p}` was given: "
                               f"the attribute overrides a given argument",
                    key=f"{rule}|{fi.qualname}|fallback-guard|{p}", where=common.loc(fi, x))
    return n


def precedence(ctx, fi, only=None, rule='LOCK'):
    """Fallback expressions give the ARGUMENT precedence over the attribute:
    `P = P or self.P` / `P if P is not None else self.P` are fine,
    `P = self.P or P` lets the configured attribute override the keyword."""
    n = 0
    for a in walk_local(fi.node):
        if not (isinstance(a, ast.Assign) and isinstance(a.targets[0], ast.Name) and a.targets[0].id in fi.params()):
            continue
        p = a.targets[0].id
        if only and p not in only:
            continue
        v = a.value
        if isinstance(v, ast.BoolOp) and isinstance(v.op, ast.Or):
            ops = [norm(x) for x in v.values]
            if p in ops and f"self.{p}" in ops:
                n += 1
                try:
                    falsy_ok = set(ctx.fold.get_attr('config.config', 'Config', '_BOOL_TYPE_ATTRIBUTES')) | \
                        set(ctx.fold.get_attr('config.config', 'Config', '_INT_TYPE_ATTRIBUTES'))
                except Exception:
                    falsy_ok = set()
                if p in falsy_ok and ops.index(p) < ops.index(f"self.{p}"):
                    ctx.violation(rule, f"{fi.qualname}: `{norm(a)}` tells 'not given' from an explicit False / 0",
                                  f"`{norm(a)}`: `{p}` is a switch / number setting, so an explicit {p}=False (or 0) passed by the "
                                  f"caller is taken for 'not given' and overridden by the configured self.{p}",
                                  key=f"{rule}|{fi.qualname}|or-fallback|{p}", where=common.loc(fi, a))
                    continue
                ctx.check(ops.index(p) < ops.index(f"self.{p}"), rule,
                          f"{fi.qualname}: `{norm(a)}` lets the argument win",
                          detail_bad=f"`{norm(a)}`: the configured attribute overrides a given `{p}` argument "
                                     f"(the keyword must win over the config)",
                          key=f"{rule}|{fi.qualname}|precedence|{p}", where=common.loc(fi, a))
        elif isinstance(v, ast.IfExp):
            body, orelse, test = norm(v.body), norm(v.orelse), norm(v.test)
            if {body, orelse} == {p, f"self.{p}"}:
                n += 1
                arg_when_given = (body == p and ('is not None' in test or test == p)) or \
                                 (orelse == p and ('is None' in test and 'is not None' not in test or test == f"not {p}"))
                ctx.check(arg_when_given, rule, f"{fi.qualname}: `{norm(a)}` lets the argument win",
                          detail_bad=f"`{norm(a)}`: the attribute is used although `{p}` was given",
                          key=f"{rule}|{fi.qualname}|precedence|{p}", where=common.loc(fi, a))
    return n


def _lock_plssdesc(ctx):
    fi = ctx.repo.func('PLSSDesc.parse')
    call, kw = _consumer_kwargs(ctx, fi, 'PLSSParser')
    mapping = {
        'layout': ['layout'], 'default_ns': ['default_ns'], 'default_ew': ['default_ew'],
        'ocr_scrub': ['ocr_scrub'], 'sec_within': ['sec_within'], 'clean_up': ['clean_up'],
        'parse_qq': ['parse_qq'], 'clean_qq': ['clean_qq'],
        'require_colon': ['sec_colon_required', 'sec_colon_cautious'],
        'segment': ['segment'], 'qq_depth_min': ['qq_depth_min'], 'qq_depth_max': ['qq_depth_max'],
        'qq_depth': ['qq_depth'], 'break_halves': ['break_halves'],
    }
    covered = {p for ps in mapping.values() for p in ps} | {'self', 'commit'}
    extra = set(fi.params()) - covered
    ctx.shape(not extra, 'LOCK', 'PLSSDesc.parse: every keyword is covered by the LOCK table', why=f"new parse() keywords without a rule: {sorted(extra)}")
    ctx.attempt(_lock, fi, kw, mapping, 'PLSSDesc')
    precedence(ctx, fi)
    ctx.floor('PLSSDesc.parse keywords', len(fi.params()), 10)
    # parser keywords exist
    pp = ctx.repo.func('PLSSParser.__init__')
    unknown = set(kw) - set(pp.params())
    ctx.check(not unknown, 'LOCK', 'every keyword handed to PLSSParser is one of its parameters',
              detail_bad=f"unknown PLSSParser keywords {sorted(unknown)} (TypeError at parse time)",
              key="LOCK|PLSSDesc.parse|kwargs-exist")
    # handed-down config comes from the live Config object
    # (the keyword is found by what is handed over - the decompiled Config - if it was renamed)
    hd_kw = 'handed_down_config' if 'handed_down_config' in kw else next(
        (k for k, v in kw.items() if any('decompile_to_text' in c_ for c_ in flow.prov_calls(flow.provenance(fi.node, v)))), None)
    if hd_kw is None and 'handed_down_config' not in pp.params():
        ctx.undecided('LOCK', 'tract settings are handed down as self.config.decompile_to_text()',
                      'no keyword of PLSSParser receives a decompiled Config; how tract settings travel was not recognised')
        hd_kw = '__none__'
    prov = flow.provenance(fi.node, kw[hd_kw]) if hd_kw in kw else set()
    ctx.check('self.config.decompile_to_text' in flow.prov_calls(prov) or hd_kw == '__none__', 'LOCK',
              'tract settings are handed down as self.config.decompile_to_text()',
              detail_bad="the config handed to subordinate tracts is not decompiled from the current "
                         "Config object (settings given as a Config instance / dict are lost)",
              key="LOCK|PLSSDesc.parse|handed_down_config")
    # require_colon lattice
    t = ' '.join(norm(s) for s in walk_local(fi.node) if isinstance(s, ast.stmt))
    ctx.shape('require_colon = sec_colon_required' in t
              and 'if sec_colon_cautious and (not sec_colon_required)' in t
              and 'require_colon = SecFinder.SEC_COLON_CAUTIOUS' in t, 'LOCK',
              'require_colon = required, else cautious, else False')
    prop = ctx.repo.func('PLSSDesc.require_colon')
    t2 = ' '.join(norm(s) for s in walk_local(prop.node) if isinstance(s, ast.stmt))
    ctx.shape('required = self.sec_colon_required' in t2
              and 'if self.sec_colon_cautious and (not self.sec_colon_required)' in t2, 'SIB',
              'PLSSDesc.require_colon property combines the two attributes the same way')


def _lock_tract(ctx):
    fi = ctx.repo.func('Tract.parse')
    call, kw = _consumer_kwargs(ctx, fi, 'TractParser')
    mapping = {'clean_qq': ['clean_qq'], 'suppress_lot_divs': ['suppress_lot_divs'],
               'qq_depth_min': ['qq_depth_min'], 'qq_depth_max': ['qq_depth_max'],
               'qq_depth': ['qq_depth'], 'break_halves': ['break_halves']}
    extra = set(fi.params()) - {p for ps in mapping.values() for p in ps} - {'self', 'commit'}
    ctx.shape(not extra, 'LOCK', 'Tract.parse: every keyword is covered by the LOCK table', why=f"new parse() keywords without a rule: {sorted(extra)}")
    # qq_depth is special: the parser receives the keyword itself; the attribute
    # fallback is folded into min/max
    ctx.attempt(_lock, fi, kw, {k: v for k, v in mapping.items() if k != 'qq_depth'}, 'Tract')
    precedence(ctx, fi)
    prov = flow.provenance(fi.node, kw['qq_depth']) if 'qq_depth' in kw else set()
    ctx.check('qq_depth' in flow.prov_params(prov), 'LOCK', 'Tract.parse: keyword qq_depth reaches the parser',
              detail_bad="qq_depth keyword dropped", key="LOCK|Tract.parse|qq_depth")
    for p in ('qq_depth_min', 'qq_depth_max'):
        prov = flow.provenance(fi.node, kw[p])
        ctx.check('qq_depth' in flow.prov_params(prov) and 'self.qq_depth' in flow.prov_attrs(prov), 'LOCK',
                  f"Tract.parse: {p} is overridden by qq_depth (keyword, else attribute)",
                  detail_bad=f"{p} no longer takes qq_depth into account", key=f"LOCK|Tract.parse|{p}|qq_depth")
    qq_depth_precedence(ctx, fi)
    ctx.attempt(keyword_wins_depth, fi)
    t = ' '.join(norm(s) for s in walk_local(fi.node) if isinstance(s, ast.stmt))
    ctx.shape('elif not use_min_max and self.qq_depth is not None' in t.replace('(', '').replace(')', ''),
              'LOCK', 'Tract.parse: self.qq_depth applies only when no depth keyword was given')
    unknown = set(kw) - set(ctx.repo.func('TractParser.__init__').params())
    ctx.check(not unknown, 'LOCK', 'every keyword handed to TractParser is one of its parameters',
              detail_bad=f"unknown TractParser keywords {sorted(unknown)}", key="LOCK|Tract.parse|kwargs-exist")
    ctx.shape(norm(kw.get('text')) == 'self.desc' and norm(kw.get('parent')) == 'self', 'LOCK',
              'Tract.parse parses self.desc with itself as parent')


def qq_depth_precedence(ctx, fi):
    # a given min OR max keyword disables the attribute fallback self.qq_depth
    # the switch that lets the attribute self.qq_depth override min/max must
    # depend on BOTH depth keywords (either one given disables the override)
    sw = [n for n in walk_local(fi.node) if isinstance(n, (ast.If, ast.IfExp)) and 'self.qq_depth is not None' in norm(n.test)
          .replace('None is not self.qq_depth', 'self.qq_depth is not None')]
    if sw:
        pv = set()
        for nm in [x for x in ast.walk(sw[0].test) if isinstance(x, ast.Name)]:
            pv |= flow.provenance(fi.node, nm, control='sentinel')
        # conditions that dominate the switch (e.g. an enclosing `if qq_depth is None`) count too
        for tst, pol in guards(sw[0]):
            for nm in [x for x in ast.walk(tst) if isinstance(x, ast.Name)]:
                pv |= flow.provenance(fi.node, nm, control='sentinel')
        params = flow.prov_params(pv)
        for p in ('qq_depth_min', 'qq_depth_max'):
            ctx.check(p in params, 'LOCK', f"Tract.parse: a given {p} keyword wins over the configured qq_depth",
                      'the attribute fallback is switched off when the keyword is given',
                      f"whether self.qq_depth overrides min/max does not depend on the `{p}` argument: "
                      f"parse({p}=...) alone is overridden by a configured qq_depth",
                      key=f"LOCK|Tract.parse|use_min_max|{p}", where=common.loc(fi, sw[0]))
    else:
        ctx.undecided('LOCK', 'Tract.parse: depth keywords win over the configured qq_depth', 'fallback switch not recognised')


def keyword_wins_depth(ctx, fi=None):
    """Conditional constant propagation through the lock-down of the depth
    settings in Tract.parse, for every combination of given / omitted
    keywords and configured / unconfigured attributes: a depth keyword that
    was given reaches TractParser unchanged (qq_depth overrides min and max)."""
    from .. import ccp
    fi = fi or ctx.repo.func('Tract.parse')
    calls = [c for c in walk_local(fi.node) if isinstance(c, ast.Call) and dotted(c.func) == 'TractParser']
    construct = 'Tract.parse: a given depth keyword reaches the parser whatever is configured'
    if len(calls) != 1:
        ctx.undecided('LOCK', construct, 'TractParser(...) call not recognised')
        return
    kw = {k.arg: k.value for k in calls[0].keywords if k.arg}
    names = ('qq_depth_min', 'qq_depth_max', 'qq_depth')
    if not all(n in kw for n in names):
        ctx.undecided('LOCK', construct, 'depth keywords are not handed over by name')
        return
    stop = calls[0]
    while stop is not None and not isinstance(stop, ast.stmt):
        stop = stop._parent
    n_cases = 0
    S = ccp.Sym
    import itertools
    for gmin, gmax, gdep, cfgdep in itertools.product((False, True), repeat=4):
        env = {p: None for p in fi.params()}
        env['self'] = ccp.Obj(qq_depth_min=S('self.qq_depth_min'), qq_depth_max=S('self.qq_depth_max'),
                              qq_depth=S('self.qq_depth') if cfgdep else None)
        env['qq_depth_min'] = S('kw:qq_depth_min') if gmin else None
        env['qq_depth_max'] = S('kw:qq_depth_max') if gmax else None
        env['qq_depth'] = S('kw:qq_depth') if gdep else None
        case = f"min {'given' if gmin else '-'}, max {'given' if gmax else '-'}, qq_depth {'given' if gdep else '-'}, " \
               f"configured qq_depth {'set' if cfgdep else 'None'}"
        try:
            out = ccp.run_slice(fi.node, [norm(kw[n]) for n in names if isinstance(kw[n], ast.Name)], env, stop_at=stop)
            got = {n: ccp.ev(kw[n], out) for n in names}
        except ccp.Unsupported as e:
            ctx.undecided('LOCK', f"{construct} [{case}]", f"not propagated ({e})")
            continue
        n_cases += 1
        bad = []
        if gdep:
            for n in ('qq_depth_min', 'qq_depth_max'):
                if got[n] != S('kw:qq_depth') and got['qq_depth'] != S('kw:qq_depth'):
                    bad.append((n, got[n], 'kw:qq_depth'))
        else:
            if gmin and got['qq_depth_min'] != S('kw:qq_depth_min'):
                bad.append(('qq_depth_min', got['qq_depth_min'], 'kw:qq_depth_min'))
            if gmax and got['qq_depth_max'] != S('kw:qq_depth_max'):
                bad.append(('qq_depth_max', got['qq_depth_max'], 'kw:qq_depth_max'))
        if bad:
            n_, g_, w_ = bad[0]
            ctx.violation('LOCK', f"{construct} [{case}]",
                          f"with {case}, TractParser receives {n_} = {g_} instead of the keyword ({w_}): the configured value "
                          f"beats the keyword", key=f"LOCK|Tract.parse|keyword-wins|{n_}|{int(gmin)}{int(gmax)}{int(gdep)}{int(cfgdep)}",
                          where=common.loc(fi, calls[0]))
        else:
            ctx.ok('LOCK', f"{construct} [{case}]", f"min={got['qq_depth_min']}, max={got['qq_depth_max']}")
    ctx.floor('depth keyword cases propagated', n_cases, 8)


def _sibling_verifiers(ctx):
    """verify_default_ns / verify_default_ew are the same function up to the
    direction (ns/ew): they accept a word by its first letter."""
    a = ctx.repo.func('config.config:verify_default_ns')
    b = ctx.repo.func('config.config:verify_default_ew')

    def shape(fi):
        t = ' ; '.join(norm(s) for s in fi.node.body if not (isinstance(s, ast.Expr) and isinstance(s.value, ast.Constant)))
        import re as _re
        return _re.sub(r"(?i)(?<![a-z])(ns|ew)(?![a-z])|(?<=_)(ns|ew)\b|(NS|EW)(?=Error)", 'D', t)
    sa, sb = shape(a), shape(b)
    ctx.tri(sa == sb, sa != sb, 'SIB', 'verify_default_ns and verify_default_ew are the same check up to the direction',
            detail_bad=f"the two verifiers differ:\n    ns: {sa[:200]}\n    ew: {sb[:200]}\n(one of them reads another character of "
                       f"the word, or another legal set: 'east' / 'west' are treated differently from 'north' / 'south')",
            key="SIB|verify_default|ns-ew", where=b.loc)


def _init_override_order(ctx):
    """In Tract.__init__ / PLSSDesc.__init__ a keyword that overrides the
    config string (`if P is not None: self.P = P`) is applied AFTER
    `self.config = config` (whose setter writes the config's own value)."""
    for spec in ('Tract.__init__', 'PLSSDesc.__init__'):
        fi = ctx.repo.func(spec)
        cfg_st = [i for i, st in enumerate(fi.node.body) if isinstance(st, ast.Assign)
                  and any(norm(t) == 'self.config' for t in st.targets)]
        if not cfg_st:
            ctx.undecided('ORDER', f"{spec}: keyword overrides come after the config is applied", 'no `self.config = ...` statement')
            continue
        pos = cfg_st[-1]
        n = 0
        for i, st in enumerate(fi.node.body):
            for x in ast.walk(st):
                if isinstance(x, ast.Assign) and len(x.targets) == 1 and isinstance(x.targets[0], ast.Attribute) \
                        and norm(x.targets[0].value) == 'self' and isinstance(x.value, ast.Name) \
                        and x.value.id == x.targets[0].attr and x.value.id in fi.params():
                    p = x.value.id
                    lits = [(t, pol) for _e, t, pol in literals(guards(x))]
                    if (f"{p} is None", False) not in lits and (p, True) not in lits:
                        continue            # a plain initial store, not an override
                    try:
                        settings = set(ctx.fold.get_attr('config.config', 'Config', '_CONFIG_ATTRIBUTES'))
                    except Exception:
                        settings = set()
                    if p not in settings:
                        continue
                    n += 1
                    ctx.check(i > pos, 'ORDER', f"{spec}: the `{p}` keyword is applied after the config string",
                              'override follows `self.config = config`',
                              f"`{norm(x)}` runs before `self.config = config`: the config setter then writes its own `{p}` over "
                              f"the keyword, so the config string beats the keyword",
                              key=f"ORDER|{spec}|override-before-config|{p}", where=common.loc(fi, x))
        if n == 0:
            ctx.undecided('ORDER', f"{spec}: keyword overrides come after the config is applied", 'no `if P is not None: self.P = P` override found')


def config_separators(ctx, rule='TBL'):
    """The reader of one `name<sep>value` setting splits on every separator
    the config text format allows ('.', '=' and ':'): a valid
    'qq_depth_min:3' must not be taken for one unknown setting name."""
    fi = ctx.repo.func('Config._set_str_to_values')
    splits = [c for c in walk_local(fi.node) if isinstance(c, ast.Call) and dotted(c.func) in ('re.split',) and c.args]
    construct = "Config._set_str_to_values splits name and value at '.', '=' or ':'"
    if not splits:
        ctx.undecided(rule, construct, 're.split(...) not found')
        return
    pat = ctx.fold.eval(splits[0].args[0], ctx.fold.func_env(fi), fi.module.name)
    if not isinstance(pat, str):
        ctx.undecided(rule, construct, 'split pattern does not fold')
        return
    from .. import rx as _rx
    L = _rx.Lang(pat, 0)
    missing = [ch for ch in '.=:' if not L.fullmatch(ch)]
    ctx.check(not missing, rule, construct, f"pattern {pat!r}",
              f"the split pattern {pat!r} no longer matches {missing}: a setting written `name{missing[0] if missing else ''}value` is "
              f"taken for a single unknown name and rejected with ValueError although it is valid config text",
              key=f"{rule}|Config._set_str_to_values|separators|{''.join(missing)}", where=common.loc(fi, splits[0]))


def word_dispatch(ctx, rule='TBL'):
    """Config._text_to_attributes sends each word of a config string down one
    branch of an if/elif chain.  The chain is evaluated here (tests in order,
    on constant words, tables folded from the source) for every kind of word:
    the five layout names must reach the branch that stores .layout, n/s the
    one that stores .default_ns, e/w .default_ew, every boolean setting the
    typed reader, and words that are no setting at all ('nonsense', 'scrub',
    'strict', 'nw', 'exact') must fall through to the typed reader, which
    rejects them with ValueError."""
    from ..streval import StrEval, Unsupported
    fi = ctx.repo.func('Config._text_to_attributes')
    construct = 'Config._text_to_attributes: every kind of word reaches its own branch'
    loops = [l for l in walk_local(fi.node) if isinstance(l, ast.For) and isinstance(l.target, ast.Name)]
    chain = None
    for lp in loops:
        for st in lp.body:
            if isinstance(st, ast.If) and st.orelse and any(
                    isinstance(a, ast.Assign) and norm(a.targets[0]) in ('self.layout', 'self.default_ns') for a in ast.walk(st)):
                chain, var = st, lp.target.id
    if chain is None:
        ctx.undecided(rule, construct, 'dispatch chain not recognised')
        return
    branches = []       # (test or None, label)
    node = chain
    while True:
        body = node.body
        stores = sorted({norm(a.targets[0])[5:] for b in body for a in ast.walk(b) if isinstance(a, ast.Assign)
                         and norm(a.targets[0]).startswith('self.')})
        typed = any(isinstance(c, ast.Call) and norm(c.func) == 'self._set_str_to_values' for b in body for c in ast.walk(b))
        label = 'typed' if typed and not stores else ','.join(stores) if stores else 'other'
        branches.append((node.test, label))
        if len(node.orelse) == 1 and isinstance(node.orelse[0], ast.If):
            node = node.orelse[0]
            continue
        if node.orelse:
            typed = any(isinstance(c, ast.Call) and norm(c.func) == 'self._set_str_to_values' for b in node.orelse for c in ast.walk(b))
            branches.append((None, 'typed' if typed else 'other'))
        break
    layouts_ = ctx.fold.get('config.layouts', '_IMPLEMENTED_LAYOUTS')
    bools = ctx.fold.get_attr('config.config', 'Config', '_BOOL_TYPE_ATTRIBUTES')
    want = {w: 'layout' for w in layouts_}
    want.update({'n': 'default_ns', 's': 'default_ns', 'e': 'default_ew', 'w': 'default_ew'})
    want.update({b: 'typed' for b in bools})
    want.update({f"{b}.False": 'typed' for b in list(bools)[:3]})
    want.update({w: 'typed' for w in ('nonsense', 'scrub', 'strict', 'exact', 'nw', 'sw', 'wait', 'ns', 'qq_depth.2',
                                      'default_ns.s', 'layout.TRS_desc', 'sections', 'east_half')})
    n, wrong = 0, []
    for word, target in sorted(want.items()):
        got = None
        try:
            for test, label in branches:
                if test is None or StrEval(ctx, fi, env={var: word}).ev(test):
                    got = label
                    break
        except Unsupported as e:
            ctx.undecided(rule, construct, f"test not evaluated for {word!r} ({e})")
            return
        n += 1
        if got != target:
            if target == 'typed' and got not in ('layout', 'default_ns', 'default_ew'):
                # a word of its own that some new branch understands: an extension, not a misrouting
                ctx.undecided(rule, construct, f"{word!r} is handled by a branch that stores `{got}`")
                continue
            wrong.append((word, got, target))
    ex = wrong[0] if wrong else None
    ctx.check(not wrong, rule, construct, f"{n} words classified",
              (f"the word {ex[0]!r} goes down the `{ex[1]}` branch instead of `{ex[2]}`"
               + (": a layout name given as a bare word silently sets a default direction and the layout is not set"
                  if ex[2] == 'layout' else
                  ": a word that is no setting is silently accepted (as a direction) instead of being rejected with ValueError"
                  if ex[2] == 'typed' else '')
               + f" ({len(wrong)} of {n} words misrouted)") if ex else '',
              key=f"{rule}|Config._text_to_attributes|dispatch|{ex[2] if ex else ''}", where=common.loc(fi, chain))


def one_setting_sets_itself(ctx, rule='TBL'):
    """Config._set_str_to_values stores the one attribute it was asked to set
    (`setattr(self, attribute, value)`).  A store to some OTHER attribute from
    there makes the meaning of a config string depend on the order of its
    words, and since decompile_to_text writes the settings in a fixed order,
    a Config no longer survives its own text form."""
    fi = ctx.repo.func('Config._set_str_to_values')
    stores = [a for a in walk_local(fi.node) if isinstance(a, ast.Assign) and any(
        isinstance(t, ast.Attribute) and norm(t.value) == 'self' for tt in a.targets for t in ([tt] if not isinstance(tt, ast.Tuple) else tt.elts))]
    ctx.check(not stores, rule, 'Config._set_str_to_values writes only the attribute it was given',
              detail_bad=f"`{norm(stores[0])[:60] if stores else ''}` changes another setting as a side effect: 'qq_depth.3,qq_depth_min.1' and "
                         f"the reversed string no longer mean the same, and a Config that holds both loses one of them when it is "
                         f"decompiled (fixed order) and read back - the object and its text differ in effect",
              key=f"{rule}|Config._set_str_to_values|side-effect", where=common.loc(fi, stores[0]) if stores else None)


def decompiled_text_is_typed(ctx, rule='TBL'):
    """Config.decompile_to_text joins its pieces with ',' and the reader splits
    on ',' / ';' (and name from value on '.', '=', ':').  Every piece must
    therefore come from the typed writer (attrib_and_val_to_str: booleans,
    integers, n/s/e/w, layout names); free text interpolated into a piece
    (a name, a source tag) can contain the separators and is cut up when the
    text is read back - ValueError in the middle of PLSSDesc(...) / Tract(...)
    for the config that is handed down."""
    fi = ctx.repo.func('Config.decompile_to_text')
    construct = 'Config.decompile_to_text writes typed settings only'
    typed = set(ctx.fold.get_attr('config.config', 'Config', '_CONFIG_ATTRIBUTES'))
    n = 0
    for c in walk_local(fi.node):
        if isinstance(c, ast.Call) and isinstance(c.func, ast.Attribute) and c.func.attr in ('append', 'extend', 'insert') and c.args:
            n += 1
            v = c.args[-1]
            free = [x for x in ast.walk(v) if isinstance(x, ast.Attribute) and norm(x.value) == 'self' and x.attr not in typed]
            ctx.check(not free, rule, construct,
                      detail_bad=f"`{norm(c)[:70]}` writes self.{free[0].attr if free else ''} as free text: a value that contains ',' "
                                 f"';' or '.' (\"Williams Co., ND\") is split into bogus settings when the text is read back "
                                 f"(Config(cfg), the config handed to every Tract), which raises ValueError mid-parse",
                      key=f"{rule}|Config.decompile_to_text|free-text|{free[0].attr if free else ''}", where=common.loc(fi, c))
    if n == 0:
        ctx.undecided(rule, construct, 'no piece is appended')
    # ... and it walks the COMPLETE table of settings: what the loop leaves out is lost by str(cfg),
    # Config(cfg) and the text round trip
    g = lambda a: set(ctx.fold.get_attr('config.config', 'Config', a))
    want = g('_PLSSDESC_ATTRIBUTES') | g('_TRACT_ATTRIBUTES')
    loops = [l for l in walk_local(fi.node) if isinstance(l, ast.For)]
    covered = set()
    for lp in loops:
        v = common.fold_in_func(ctx, fi, lp.iter)
        if isinstance(v, (tuple, list)) and all(isinstance(x, str) for x in v):
            covered |= set(v)
    if loops and covered:
        missing = sorted(want - covered)
        ctx.check(not missing, rule, 'Config.decompile_to_text writes every setting',
                  detail_bad=f"the loop of decompile_to_text covers {len(covered)} settings and leaves out {missing}: a Config that holds one of "
                             f"them loses it in its own text form (str(cfg), Config(cfg), the config handed on as text)",
                  key=f"{rule}|Config.decompile_to_text|incomplete|{','.join(missing)}", where=common.loc(fi, loops[0]))


def _direction_writer(ctx):
    """the text form of a default direction is its first letter (what the
    reader understands as a bare 'n' / 's' / 'e' / 'w')"""
    w = ctx.repo.func('config.config:attrib_and_val_to_str')
    rets = [r for r in walk_local(w.node) if isinstance(r, ast.Return) and isinstance(r.value, ast.Subscript)
            and norm(r.value.value) == 'value']
    construct = 'attrib_and_val_to_str writes a default direction as its first letter'
    if not rets:
        ctx.undecided('TBL', construct, 'no `return value[...]` found')
        return
    for r in rets:
        sl = r.value.slice
        first = (isinstance(sl, ast.Constant) and sl.value == 0) or (isinstance(sl, ast.Slice) and norm(sl) in (':1', '0:1'))
        drops_first = (isinstance(sl, ast.Slice) and sl.lower is not None and norm(sl.lower) not in ('0',)) or \
            (isinstance(sl, ast.Constant) and sl.value not in (0,))
        ctx.tri(first, drops_first, 'TBL', construct, f"`{norm(r)}`",
                f"`{norm(r)}` does not return the first letter: 'n' is written as '' and 'north' as 'orth', so Config -> text -> "
                f"Config (and the config a PLSSDesc hands to its tracts) loses the default direction",
                key="TBL|attrib_and_val_to_str|direction", where=common.loc(w, r))


def config_setters_keep_false(ctx, rule='TBL'):
    """The .config setters copy every setting the new Config actually carries:
    the test that decides "carried" is `is not None`.  A bare truthiness test
    skips an explicit False / 0, so 'clean_qq.False' cannot switch a setting
    off again."""
    n = 0
    for cname, mod in (('Tract', 'tract.tract'), ('PLSSDesc', 'plssdesc.plssdesc')):
        ci = ctx.repo.cls(f"{mod}:{cname}")
        setters = [st for st in ci.node.body if isinstance(st, ast.FunctionDef) and st.name == 'config'
                   and any('setter' in norm(d) for d in st.decorator_list)]
        for fn in setters:
            for lp in ast.walk(fn):
                if not isinstance(lp, ast.For):
                    continue
                vals = {a_.targets[0].id for a_ in ast.walk(lp) if isinstance(a_, ast.Assign) and isinstance(a_.targets[0], ast.Name)
                        and isinstance(a_.value, ast.Call) and dotted(a_.value.func) == 'getattr'}
                if any(isinstance(c, ast.Call) and dotted(c.func) == 'setattr' for c in ast.walk(lp)):
                    from ..srcmodel import facts_at
                    outer = [txt for _e, txt, _pol in facts_at(lp) if 'isinstance(' not in txt]
                    by_text = [txt for txt in outer if 'config_text' in txt]
                    ctx.tri(not outer, bool(by_text), rule,
                            f"{cname}.config setter looks at the settings of the new Config, whatever it was built from",
                            detail_bad=f"the settings are applied only if `{by_text[0] if by_text else ''}`: .config_text is filled by the "
                                       f"text constructor only, so a Config made by from_dict() / from_kwargs() (or changed "
                                       f"after creation) has no effect although its own text form has",
                            key=f"{rule}|{cname}.config.setter|gated", where=f"{ci.module.relpath}:{lp.lineno}",
                            why=f"the loop that applies the settings runs under {outer}")
                for t in ast.walk(lp):
                    if isinstance(t, ast.If) and any(isinstance(c, ast.Call) and dotted(c.func) == 'setattr' for c in ast.walk(t)):
                        lits = [(txt, pol) for _e, txt, pol in literals([(t.test, True)])]
                        by_identity = any(txt.endswith(' is None') and not pol and txt.split(' ')[0] in vals for txt, pol in lits)
                        by_truth = any(txt in vals and pol for txt, pol in lits)
                        n += 1
                        ctx.tri(by_identity, by_truth and not by_identity, rule,
                                f"{cname}.config setter applies every setting that is not None",
                                f"`if {norm(t.test)}`",
                                f"`if {norm(t.test)}:` skips falsy values: a config that says '<setting>.False' (or a depth of 0) "
                                f"leaves the old value in place, so re-configuring cannot switch a setting off",
                                key=f"{rule}|{cname}.config.setter|truthiness", where=f"{ci.module.relpath}:{t.lineno}")
    if n == 0:
        ctx.undecided(rule, '.config setters apply every setting that is not None', 'setter loops not recognised')


def _forwarding(ctx):
    for spec, callee in (('TractList.parse_tracts', 't.parse'), ('PLSSDesc.parse_tracts', 'self.tracts.parse_tracts')):
        fi = ctx.repo.func(spec)
        calls = [c for c in walk_local(fi.node) if isinstance(c, ast.Call) and dotted(c.func) == callee]
        if len(calls) != 1:
            raise AnalysisError(f"{spec}: expected one {callee}(...) call")
        kw = {k.arg: k.value for k in calls[0].keywords}
        for p in fi.params():
            if p in ('self', 'config') and callee == 't.parse':
                continue
            if p == 'self':
                continue
            if p not in kw:
                ctx.violation('LOCK', f"{spec} forwards {p} as given", f"`{p}` is not handed to {callee}()",
                              key=f"LOCK|{spec}|{p}", where=common.loc(fi, calls[0]))
                continue
            prov = flow.provenance(fi.node, kw[p])
            attrs = sorted(a for a in flow.prov_attrs(prov) if a.startswith('self.'))
            given = p in flow.prov_params(prov)
            ctx.tri(given and not attrs and norm(kw[p]) == p, bool(attrs) or not given, 'LOCK',
                    f"{spec} forwards {p} as given",
                    detail_bad=(f"the `{p}` handed to {callee}() falls back to {attrs}: a plain {spec.split('.')[-1]}() "
                                f"re-applies the parent's setting to every tract and overrides what the tracts were "
                                f"configured with" if attrs else f"{p} is forwarded as `{norm(kw[p])}`"),
                    key=f"LOCK|{spec}|{p}", where=common.loc(fi, calls[0]))
    fi = ctx.repo.func('TractList.parse_tracts')
    t = ' '.join(norm(s) for s in walk_local(fi.node) if isinstance(s, ast.stmt))
    ctx.shape('if config:' in t and 'self.config_tracts(config)' in t and 'for t in self:' in t, 'LOCK',
              'parse_tracts applies a given config to every tract, then parses every tract')


def _tract_creation(ctx):
    """PLSSParser.construct_tracts hands the keyword-level parse_qq to every
    Tract: the config string it also hands down can only switch parsing on,
    so without the keyword a parse_qq=False given to parse() loses against a
    'parse_qq' in the config string."""
    fi = ctx.repo.func('PLSSParser.construct_tracts')
    calls = [c for c in walk_local(fi.node) if isinstance(c, ast.Call) and dotted(c.func) == 'Tract']
    construct = 'construct_tracts: Tract(...) receives parse_qq from the parser keyword'
    if len(calls) != 1:
        ctx.undecided('LOCK', construct, 'Tract(...) call not recognised')
        return
    kw = {k.arg: k.value for k in calls[0].keywords if k.arg}
    if any(k.arg is None for k in calls[0].keywords):
        ctx.undecided('LOCK', construct, '**kwargs in the Tract(...) call')
        return
    if 'parse_qq' not in kw:
        ctx.violation('LOCK', construct,
                      "Tract(...) is created without `parse_qq=`: the tract decides from the handed-down config string "
                      "alone, so the config string beats a parse_qq keyword given to PLSSDesc.parse()",
                      key="LOCK|construct_tracts|parse_qq", where=common.loc(fi, calls[0]))
        return
    attrs = flow.prov_attrs(flow.provenance(fi.node, kw['parse_qq']))
    ctx.check('self.parse_qq' in attrs, 'LOCK', construct, detail_bad=f"parse_qq={norm(kw['parse_qq'])}",
              key="LOCK|construct_tracts|parse_qq", where=common.loc(fi, calls[0]))


def _deadparam(ctx):
    fi = ctx.repo.func('PLSSParser.__init__')
    mod = fi.module
    loads = {}
    for n in ast.walk(mod.tree):
        if isinstance(n, ast.Attribute) and isinstance(n.ctx, ast.Load):
            loads.setdefault(n.attr, []).append(n)
    for p in fi.params()[1:]:
        uses = [n for n in walk_local(fi.node) if isinstance(n, ast.Name) and n.id == p and isinstance(n.ctx, ast.Load)]
        stored_as = []
        other = False
        for u in uses:
            st = enclosing_stmt(u)
            if isinstance(st, ast.Assign) and st.value is u and norm(st.targets[0]).startswith('self.'):
                stored_as.append(norm(st.targets[0])[5:])
            else:
                other = True
        if other or not uses:
            ctx.ok('DEADPARAM', f"PLSSParser.__init__({p})", 'used directly')
            continue
        live = any(a in loads for a in stored_as)
        if live:
            ctx.ok('DEADPARAM', f"PLSSParser.__init__({p})", f"stored as {stored_as} and read back")
        else:
            ctx.violation('DEADPARAM', f"PLSSParser.__init__({p})",
                          f"`{p}` is only stored to self.{stored_as[0]}, which nothing in plss_parse.py reads: "
                          f"the keyword never reaches the subordinate tracts",
                          key=f"DEADPARAM|PLSSParser.__init__|{p}", where=fi.loc)


def _layout_value_keeps_its_case(ctx):
    """Layout names are mixed-case ('TRS_desc').  The value a config string
    gives for `layout` is compared with that table as it stands: a
    `.lower()` / `.upper()` anywhere on its way (also inside str_to_value)
    makes every canonical layout name illegal in config text, so a Config
    that names a layout no longer survives its own text form."""
    layouts = None
    for modsuf in ('config.config', 'config.layouts', 'parser.config.layouts'):
        try:
            layouts = ctx.fold.get(modsuf, '_IMPLEMENTED_LAYOUTS')
            break
        except AnalysisError:
            continue
    if not isinstance(layouts, (list, tuple, set, frozenset)) or not any(isinstance(x, str) and x != x.lower() for x in layouts):
        ctx.undecided('TBL', 'a layout named in config text keeps its case', 'layout table not folded / all lower-case')
        return
    n = 0
    for fi in ctx.repo.funcs.values():
        if not fi.module.name.endswith('config.config'):
            continue
        for c in walk_local(fi.node):
            if isinstance(c, ast.Compare) and len(c.ops) == 1 and isinstance(c.ops[0], (ast.In, ast.NotIn)) \
                    and '_IMPLEMENTED_LAYOUTS' in norm(c.comparators[0]):
                pv = flow.provenance(fi.node, c.left)
                folded = []
                for at in pv:
                    if at[0] == 'call' and at[1].split('.')[-1] in ('lower', 'upper', 'casefold', 'title', 'swapcase', 'capitalize'):
                        # case-folding inside a function that knows the layout names (a normaliser that maps
                        # any spelling back to the canonical one) is not a loss of the case
                        node_ = at[2] if len(at) > 2 else None
                        fn_ = node_
                        while fn_ is not None and not isinstance(fn_, (ast.FunctionDef, ast.AsyncFunctionDef)):
                            fn_ = getattr(fn_, '_parent', None)
                        aware = fn_ is not None and any(
                            (isinstance(x, ast.Name) and ('LAYOUT' in x.id.upper())) or (isinstance(x, ast.Attribute) and 'LAYOUT' in x.attr.upper())
                            for x in ast.walk(fn_))
                        if not aware:
                            folded.append(at[1])
                folded = sorted(set(folded))
                n += 1
                ctx.check(not folded, 'TBL', f"{fi.qualname}: the layout value reaches `{norm(c)[:40]}` in the case it was written",
                          detail_bad=f"the value compared with the (mixed-case) layout names went through {folded}: 'layout.TRS_desc' is read "
                                     f"as 'trs_desc' and rejected - the text that decompile_to_text() writes for a layout is no longer "
                                     f"accepted by the reader (config round trip broken; PLSSDesc(config='TRS_desc') raises on hand-down)",
                          key=f"TBL|{fi.qualname}|layout-case-folded", where=common.loc(fi, c))
    if n == 0:
        ctx.undecided('TBL', 'a layout named in config text keeps its case', 'no comparison with _IMPLEMENTED_LAYOUTS found in the config reader')


def _int_values_round_trip(ctx):
    """attrib_and_val_to_str writes an int setting as `name.<int>`; a regex in
    str_to_value that decides what counts as an int must therefore accept
    every int the writer can emit - '0' (qq_depth_min.0: do not subdivide) in
    particular."""
    from ..fold import RegexVal
    fi = ctx.repo.func('config.config:str_to_value')
    n = 0
    for c in walk_local(fi.node):
        if not (isinstance(c, ast.Call) and isinstance(c.func, ast.Attribute) and c.func.attr in ('fullmatch', 'match', 'search')):
            continue
        recv = c.func.value
        if isinstance(recv, ast.Name) and recv.id == 're':
            if not c.args:
                continue
            recv = c.args[0]
        try:
            rv = common.fold_in_func(ctx, fi, recv)
        except AnalysisError:
            continue
        if isinstance(rv, str):
            rv = RegexVal(rv, 0)
        if not isinstance(rv, RegexVal):
            continue
        from .. import rx as _rx
        L = _rx.Lang(rv.pattern, rv.flags)
        if not (L.fullmatch('12') or L.fullmatch('3')):
            continue            # not the integer test
        n += 1
        missing = [w for w in ('0', '10', '100') if not L.fullmatch(w)]
        ctx.check(not missing, 'TBL', f"str_to_value: the integer test `{rv.pattern[:30]}` accepts every int the writer emits",
                  detail_bad=f"`{rv.pattern[:40]}` does not match {missing}: Config.from_dict({{'qq_depth_min': 0}}) decompiles to "
                             f"'qq_depth_min.0', which the reader now takes for the STRING '0' and rejects (ValueError) - the round trip "
                             f"through config text breaks for a legal setting", key=f"TBL|str_to_value|int-test|{','.join(missing)}",
                  where=common.loc(fi, c))
    if n == 0:
        ctx.ok('TBL', 'str_to_value decides int-ness by int() itself', 'no regex pre-test')


def _parser_takes_settings_from_arguments(ctx):
    """Tract.parse() locks every setting down (keyword, else attribute) and
    hands the result to TractParser - including a deliberate None (`qq_depth`
    is passed as None when qq_depth_min / qq_depth_max were given).  A second
    fall-back inside TractParser.__init__ (`if qq_depth is None: ... =
    parent.qq_depth`) lets the configured attribute override that decision:
    the config string beats the keyword."""
    try:
        settings = set(_cfg(ctx, '_CONFIG_ATTRIBUTES'))
    except AnalysisError:
        settings = set()
    n = 0
    for spec, parent_names in (('TractParser.__init__', ('parent',)), ('ChunkParser.__init__', ())):
        try:
            fi = ctx.repo.func(spec)
        except AnalysisError:
            continue
        own = set(fi.params()) & settings
        for x in walk_local(fi.node):
            if isinstance(x, ast.Attribute) and isinstance(x.ctx, ast.Load) and isinstance(x.value, ast.Name) \
                    and x.value.id in parent_names and x.attr in own:
                n += 1
                ctx.violation('LOCK', f"{spec}: settings come from the arguments only",
                              f"`{norm(enclosing_stmt(x))[:70]}` falls back to the parent's `{x.attr}` although `{x.attr}` is an argument "
                              f"that Tract.parse() has already locked down (it passes None on purpose when a more specific keyword "
                              f"was given): the configured {x.attr} overrides the keyword of this call",
                              key=f"LOCK|{spec}|second-fallback|{x.attr}", where=common.loc(fi, x))
    if n == 0:
        ctx.ok('LOCK', 'TractParser takes its settings from its arguments only', 'no read of parent.<setting> for a setting that is a parameter')
