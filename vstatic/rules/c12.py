"""
C12 -- the Twp/Rge/Sec standard form is canonical, round-trips, and is strict.
"""

import ast
import re

from .. import AnalysisError, rx, flow
from ..fold import RegexVal, is_unknown
from ..srcmodel import walk_local, norm, dotted, guards
from . import common, families as F
from .c08 import _inc

from . import forward

META = {
    'explanation': (
        "Whole-string application of every validating regex in TRS "
        "(RX-ANCHOR), exact membership of the canonical language, of every "
        "placeholder combination (after the lower-casing the code applies) "
        "and exact non-membership of near-miss strings, canonicalisation "
        "def-use in construct_trs (int, lower, rjust(2,'0'), emptiness tested "
        "by membership not truthiness), sibling agreement of the Twp and Rge "
        "blocks, and __eq__/__hash__ on .trs only."
        " Also: __eq__ is value equality on what __hash__ hashes and never converts its operand, the direction letter is split off before the OCR scrub, the OCR table leaves placeholder characters alone, '' / None map to undefined on every entry route, component regexes are case-closed w.r.t. the unpacker that embeds them."
        ' Round 7: emptiness is tested on the value that is used (no strip after the test); is_error / is_undef tables; __eq__ answers True only to a TRS; the string is lower-cased before the case-insensitive unpacker captures its parts.'
        " Round 8: a default direction is lower-cased before it is appended; str() is not applied before the '' / None test."
        " Round 9: no comparison across components (`group('rge') == _UNDEF_TWP`); validation is not an elif of the building branch; public functions never return the cached dict."
        ' Round 11: derived placeholders are rebuilt from parts of their own kind (shared with C15); witnesses are lower-cased as trs_to_dict does.'
        " Round 12: the function that applies the unpacker is found by what it does; length pre-tests are compared with the shortest member of the pattern's language; the cache-purity rule of C15 is armed here too."
        ' Also: a number refined from the raw component (direction letter split off) is not re-derived from the raw component afterwards.'),
    'families': ['RX-ANCHOR', 'RX-LANG', 'RX-DEADALT', 'DEFUSE', 'SIB', 'FORWARD', 'DEADPARAM', 'SIB-DEFAULTS'],
}

WHOLE = ('fullmatch',)


def unpacker(ctx):
    rv = ctx.fold.get_attr('trs.trs', 'TRS', '_TRS_UNPACKER_REGEX')
    if not isinstance(rv, RegexVal):
        raise AnalysisError("TRS._TRS_UNPACKER_REGEX does not fold")
    return rv


def anchored_calls(ctx, fi, rule='RX-ANCHOR', min_calls=1):
    """Every regex application in fi that decides validity is whole-string."""
    n = 0
    for c in walk_local(fi.node):
        if not isinstance(c, ast.Call) or not isinstance(c.func, ast.Attribute):
            continue
        if c.func.attr not in ('search', 'match', 'fullmatch'):
            continue
        recv = dotted(c.func.value) or norm(c.func.value)
        if not (recv == 're' or 'RGX' in recv.upper() or 'REGEX' in recv.upper()):
            continue
        n += 1
        construct = f"{fi.qualname}: {norm(c)[:70]}"
        if c.func.attr in WHOLE:
            ctx.ok(rule, construct, 'whole-string match')
            continue
        # search/match: accept only if the pattern itself is anchored \A..\Z
        pat = c.args[0] if recv == 're' and c.args else None
        anchored = False
        if pat is not None:
            v = ctx.fold.eval(pat, ctx.fold.func_env(fi), fi.module.name)
            if isinstance(v, str) and (v.startswith(r'\A') or v.startswith('^')) \
                    and (v.endswith(r'\Z') or v.endswith('$')):
                anchored = c.func.attr == 'match' or v.startswith(r'\A') or v.startswith('^')
        if anchored:
            ctx.ok(rule, construct, 'pattern anchored at both ends')
        else:
            ctx.violation(rule, construct,
                          f"`.{c.func.attr}` accepts a string that merely contains / starts with a "
                          f"valid form: near-miss input is read as a different valid value",
                          key=f"{rule}|{fi.qualname}|{c.func.attr}|{norm(c.args[0])[:40] if c.args else ''}",
                          where=common.loc(fi, c))
    ctx.floor(f"regex applications in {fi.qualname}", n, min_calls)


def check(ctx):
    ctx.consult('trs/trs.py', 'config/master_config.py')
    rv = unpacker(ctx)
    mc = lambda a: ctx.fold.get_attr('master_config', 'MasterConfig', a)
    ERR_TWP, ERR_RGE, ERR_SEC = mc('_ERR_TWP'), mc('_ERR_RGE'), mc('_ERR_SEC')
    UND_TWP, UND_RGE, UND_SEC = mc('_UNDEF_TWP'), mc('_UNDEF_RGE'), mc('_UNDEF_SEC')
    ERR_TRS, UND_TRS = mc('_ERR_TRS'), mc('_UNDEF_TRS')
    ctx.check(ERR_TRS == ERR_TWP + ERR_RGE + ERR_SEC and UND_TRS == UND_TWP + UND_RGE + UND_SEC,
              'TBL', 'MasterConfig: _ERR_TRS/_UNDEF_TRS are the concatenation of their parts',
              detail_bad="placeholder constants disagree", key="TBL|MasterConfig|placeholders")
    ctx.check(len({ERR_TWP, UND_TWP}) == 2 and len({ERR_SEC, UND_SEC}) == 2
              and not re.fullmatch(r"\d{1,3}[nsew]", ERR_TWP.lower()),
              'TBL', 'error and undefined placeholders are distinct and not valid components',
              detail_bad="placeholders collide", key="TBL|MasterConfig|distinct")

    trs_to_dict = unpack_func(ctx)
    construct = ctx.repo.func('TRS.construct_trs')
    ctx.attempt(anchored_calls, trs_to_dict, min_calls=1)
    ctx.attempt(anchored_calls, construct, min_calls=3)

    # language facts on the unpacker
    ctx.attempt(_inc, 'RX-LANG', 'TRS._TRS_UNPACKER_REGEX', F.TRS_CANON, rv, 'canonical ###n###w##')
    L = common.lang(ctx, rv)
    lowered = any(c_.split('.')[-1] == 'lower' for c_ in flow.prov_calls(_subject_prov(ctx, trs_to_dict)))
    ctx.notes['trs_to_dict_lowercases_input'] = lowered
    conv = (lambda s: s.lower()) if lowered else (lambda s: s)
    members = [
        '154n97w14', '1n1e01', '154n97w', ERR_TRS, UND_TRS,
        '154n' + ERR_RGE + '14', ERR_TWP + '97w14', '154n97w' + ERR_SEC,
        UND_TWP + '97w01', '154n' + UND_RGE + '01', '154n97w' + UND_SEC,
        UND_TWP + ERR_RGE + '07',
    ]
    for s in members:
        ctx.check(L.fullmatch(conv(s)), 'RX-DEADALT' if s != conv(s) else 'RX-LANG',
                  f"{s!r} decomposes (as {conv(s)!r})",
                  detail_bad=f"{s!r} reaches the unpacker as {conv(s)!r} and is not matched: "
                             f"the placeholders/alternatives are dead for that input",
                  key=f"RX-LANG|unpacker|member|{s}")
    near = ['1154n97w14', '154n97w100', '154n97w1', '154n97w114', ' 154n97w14',
            '154n97w14 ', 'x154n97w14', '154n 97w14', '154n97w14x', '154nn97w14',
            '154n97', '154x97w14']
    for s in near:
        ctx.check(not L.fullmatch(conv(s)), 'RX-LANG-NEG', f"{s!r} is not in the standard form",
                  detail_bad=f"near-miss {s!r} is accepted by the unpacker regex as a whole",
                  key=f"RX-LANG-NEG|unpacker|{s}")
    gf = common.group_facts(ctx, rv)
    for g, opt in (('twp', False), ('rge', False), ('sec', True)):
        ctx.check(g in gf and gf[g].optional == opt, 'RX-GROUPS',
                  f"unpacker group {g} {'optional' if opt else 'mandatory'}",
                  detail_bad=f"group {g!r}: {gf.get(g)}", key=f"RX-GROUPS|unpacker|{g}")
    for g in ('twp_num', 'rge_num'):
        ctx.check(g in gf and gf[g].digit_only and gf[g].max_len <= 3, 'RX-GROUPS',
                  f"unpacker group {g}: 1-3 digits",
                  detail_bad=f"group {g!r}: {gf.get(g)}", key=f"RX-GROUPS|unpacker|{g}")
    # component regexes
    for attr, yes, no in (('_TWP_RGX', ['154n', '1S', '23N'], ['1154n', '154', '154x', 'n154', '154n ']),
                          ('_RGE_RGX', ['97w', '9E'], ['1197w', '97', '97w x', '97n']),
                          ('_SEC_RGX', ['14', '01', '00'], ['1', '114', '1a', ' 14'])):
        pat = ctx.fold.get_attr('trs.trs', 'TRS', attr)
        Lc = rx.Lang(pat, 0)
        for s in yes:
            ctx.check(Lc.fullmatch(s), 'RX-LANG', f"TRS.{attr} accepts {s!r}",
                      detail_bad=f"valid component {s!r} rejected", key=f"RX-LANG|{attr}|{s}")
        for s in no:
            ctx.check(not Lc.fullmatch(s), 'RX-LANG-NEG', f"TRS.{attr} rejects {s!r}",
                      detail_bad=f"malformed component {s!r} accepted as a whole",
                      key=f"RX-LANG-NEG|{attr}|{s}")

    ctx.attempt(_construct_defuse, construct)
    ctx.attempt(_siblings, trs_to_dict, construct)
    ctx.attempt(_eq_hash)
    ctx.attempt(_scrub_order)
    ctx.attempt(_sec_padding)
    ctx.attempt(_empty_means_undefined)
    ctx.attempt(_ocr_table)
    ctx.attempt(forward.check_all, module_suffixes=('trs.trs', 'tract.tract'))
    ctx.attempt(error_undef_tables)
    from .c15 import placeholder_kinds       # the undefined TRS stays undefined after _recompile()
    ctx.attempt(placeholder_kinds)
    ctx.attempt(lowered_before_unpack)
    ctx.attempt(canonical_case_and_none)
    from .c15 import _escape                 # the decomposition handed out is the caller's own copy
    ctx.attempt(_escape)
    ctx.attempt(common.cross_component_compare, [f for f in ctx.repo.funcs.values() if f.module.name.endswith(('trs.trs', 'tract.tract'))])
    ctx.attempt(validation_on_every_path)
    ctx.attempt(length_pretests)
    ctx.attempt(common.refinement_discarded, [f for f in ctx.repo.funcs.values() if f.module.name.endswith(('trs.trs', 'unpack.unpackers'))])
    from .c15 import _cache_purity        # strictness: a near-miss string must not be served a cached valid break-down
    ctx.attempt(_cache_purity)
    ctx.attempt(common.test_then_shrink, [f for f in ctx.repo.funcs.values() if f.module.name.endswith(('trs.trs', 'unpack.unpackers', 'config.config'))])
    ctx.attempt(common.embedded_case_consistency, modules=('trs.trs',))
    ctx.attempt(common.clause_purity, [f for f in ctx.repo.funcs.values() if f.module.name.endswith(('trs.trs',))])
    ctx.attempt(common.parallel_shapes, [f for f in ctx.repo.funcs.values() if f.module.name.endswith(('trs.trs',))])
    from .c13 import lockdown as _lockdown
    ctx.attempt(_lockdown, ctx.repo.func('Tract.from_twprgesec'), only=('default_ns', 'default_ew'), source='config')


def _subject_prov(ctx, fi):
    for c in walk_local(fi.node):
        if isinstance(c, ast.Call) and isinstance(c.func, ast.Attribute) \
                and c.func.attr in ('search', 'match', 'fullmatch') and c.args \
                and 'UNPACKER' in norm(c.func.value).upper():
            return flow.provenance(fi.node, c.args[0])
    raise AnalysisError("trs_to_dict: unpacker application not found")


def _construct_defuse(ctx, fi):
    rets = [n for n in walk_local(fi.node) if isinstance(n, ast.Return)
            and isinstance(n.value, ast.JoinedStr)]
    if len(rets) != 1:
        raise AnalysisError("construct_trs: expected one f-string return")
    parts = [v.value for v in rets[0].value.values if isinstance(v, ast.FormattedValue)]
    names = [norm(p) for p in parts]
    if len(names) != 3 or any(isinstance(v, ast.Constant) and v.value for v in rets[0].value.values):
        ctx.tri(False, len(names) == 3, 'DEFUSE', 'construct_trs returns twp+rge+sec',
                detail_bad=f"canonical template is `{norm(rets[0].value)}` (extra literal text)",
                key="DEFUSE|construct_trs|template", why='template not recognised')
        return
    if names[:2] != ['twp', 'rge']:
        ctx.tri(False, sorted(names[:2]) == ['rge', 'twp'], 'DEFUSE', 'construct_trs returns twp+rge+sec',
                detail_bad=f"template order is {names}", key="DEFUSE|construct_trs|template", why='names not recognised')
        return
    ctx.ok('DEFUSE', 'construct_trs returns f"{twp}{rge}{sec}"')
    twp, rge, sec = parts
    for use, label in ((twp, 'twp'), (rge, 'rge')):
        prov = flow.provenance(fi.node, use)
        calls = flow.prov_calls(prov)
        ctx.check('int' in calls, 'DEFUSE', f"construct_trs: {label} number through int()",
                  detail_bad=f"{label} no longer passes through int(): leading zeros survive",
                  key=f"DEFUSE|construct_trs|{label}|int")
        ctx.check(any(c.endswith('.lower') for c in calls), 'DEFUSE',
                  f"construct_trs: {label} direction lower-cased",
                  detail_bad=f"{label} direction is no longer lower-cased",
                  key=f"DEFUSE|construct_trs|{label}|lower")
    prov = flow.provenance(fi.node, sec)
    rj = [p[2] for p in prov if p[0] == 'call' and p[1].endswith('.rjust')]
    ok = any(len(c.args) == 2 and norm(c.args[0]) == '2' and norm(c.args[1]) in ("'0'",) for c in rj)
    zf = [p[2] for p in prov if p[0] == 'call' and p[1].endswith('.zfill')]
    ok = ok or any(len(c.args) == 1 and norm(c.args[0]) == '2' for c in zf)
    pads = rj + zf
    bad_pad = bool(pads) and not ok
    ctx.tri(ok, bad_pad or (not pads and not flow.prov_opaque(prov) and 'str' in flow.prov_calls(prov)), 'DEFUSE',
            "construct_trs: section zero-padded to two digits",
            detail_bad="the section number is not zero-padded to two digits (e.g. 1 -> '1', not '01')",
            key="DEFUSE|construct_trs|sec|rjust")
    # emptiness by membership, not truthiness
    mcnames = {'twp': '_UNDEF_TWP', 'rge': '_UNDEF_RGE', 'sec': '_UNDEF_SEC'}
    for var, const in mcnames.items():
        found = None
        for n in walk_local(fi.node):
            if isinstance(n, ast.If) and any(
                    isinstance(s, ast.Assign) and norm(s.targets[0]) == var and const in norm(s.value)
                    for s in n.body):
                found = n
        if found is None:
            ctx.undecided('DEFUSE', f"construct_trs: empty {var} -> {const}", 'branch not recognised')
            continue
        t = found.test
        if isinstance(t, ast.Compare) and len(t.ops) == 1 and isinstance(t.ops[0], ast.In) \
                and norm(t.left) == var:
            coll = ctx.fold.eval(t.comparators[0], {}, fi.module.name)
            ok = not is_unknown(coll) and set(coll) == {'', None}
            ctx.check(ok, 'DEFUSE', f"construct_trs: {var} empty iff in ('', None)",
                      detail_bad=f"emptiness test is `{norm(t)}`",
                      key=f"DEFUSE|construct_trs|{var}|emptytest")
        elif isinstance(t, ast.UnaryOp) and isinstance(t.op, ast.Not) and norm(t.operand) == var:
            ctx.violation('DEFUSE', f"construct_trs: {var} empty iff in ('', None)",
                          f"`if not {var}` also treats the integer 0 (a legal number) as empty",
                          key=f"DEFUSE|construct_trs|{var}|emptytest", where=common.loc(fi, found))
        else:
            ctx.undecided('DEFUSE', f"construct_trs: {var} empty iff in ('', None)", f"test `{norm(t)}` not recognised")
    # defaults validated
    for exc in ('DefaultNSError', 'DefaultEWError'):
        ok = any(isinstance(n, ast.Raise) and exc in norm(n) and any(
            'not in' in norm(t) and pol for t, pol in guards(n)) for n in walk_local(fi.node))
        ctx.shape(ok, 'DEFUSE', f"construct_trs raises {exc} for an illegal default")
    # invalid component -> error placeholder
    for var, const in (('twp', '_ERR_TWP'), ('rge', '_ERR_RGE'), ('sec', '_ERR_SEC')):
        ok = False
        for n in walk_local(fi.node):
            if isinstance(n, ast.If) and 'is None' in norm(n.test) and f"!= MC._UNDEF" in norm(n.test).replace('MasterConfig', 'MC') \
                    and any(norm(s) in (f"{var} = MC.{const}", f"{var} = MasterConfig.{const}") for s in n.body):
                ok = True
        ctx.shape(ok, 'DEFUSE', f"construct_trs: invalid {var} -> {const}")


def _rename(txt):
    for a, b in (('twp_ns', 'rge_ew'), ("'ns'", "'ew'"), ('default_ns', 'default_ew'),
                 ('_LEGAL_NS', '_LEGAL_EW'), ('twp', 'rge'), ('TWP', 'RGE'), ('Twp', 'Rge'),
                 ('ns.lower', 'ew.lower'), ('{ns', '{ew')):
        txt = txt.replace(a, b)
    return txt


def _siblings(ctx, trs_to_dict, construct):
    # trs_to_dict: the Twp block and the Rge block
    ifs = [n for n in trs_to_dict.node.body if isinstance(n, ast.If)]
    twp = [n for n in ifs if "mo.group('twp_num')" in norm(n.test)]
    rge = [n for n in ifs if "mo.group('rge_num')" in norm(n.test)]
    if len(twp) != 1 or len(rge) != 1:
        raise AnalysisError("trs_to_dict: Twp/Rge decomposition blocks not found")
    a, b = _rename(norm(twp[0])), norm(rge[0])
    ctx.check(a == b, 'SIB', 'trs_to_dict: Rge block is the Twp block under twp->rge, ns->ew',
              detail_bad=f"blocks differ:\n    twp(renamed): {a}\n    rge:          {b}",
              key="SIB|trs_to_dict|twp-rge", where=common.loc(trs_to_dict, rge[0]))
    # the Twp block itself: number+direction present -> valid; else undefined iff placeholder
    t = norm(twp[0])
    ok = ("dct['twp'] = mo.group('twp')" in t and "dct['twp_num'] = int(mo.group('twp_num'))" in t
          and "dct['twp_ns'] = mo.group('ns')" in t
          and "elif mo.group('twp') == MC._UNDEF_TWP" in t.replace('MasterConfig', 'MC')
          and "dct['twp_undef'] = True" in t)
    ctx.shape(ok, 'SIB', 'trs_to_dict: Twp block stores twp/twp_num/twp_ns, undefined only for the placeholder')
    # 'trs' rebuilt from the parts, last
    last_store = None
    for st in trs_to_dict.node.body:
        if isinstance(st, ast.Assign) and norm(st.targets[0]).startswith("dct["):
            last_store = st
    # positive evidence of a defect: the input string itself is stored as 'trs'
    for st_ in walk_local(trs_to_dict.node):
        if isinstance(st_, ast.Assign) and norm(st_.targets[0]) == "dct['trs']" and not isinstance(st_.value, ast.JoinedStr):
            pv_ = flow.provenance(trs_to_dict.node, st_.value)
            if 'trs' in flow.prov_params(pv_):
                ctx.violation('SIB', "trs_to_dict: 'trs' is rebuilt from twp+rge+sec",
                              f"`{norm(st_)}` keeps the (lower-cased) input as the TRS string: it can disagree with its "
                              f"decomposition (e.g. '154n97wxx' while sec is 'XX')",
                              key="SIB|trs_to_dict|trs-from-input", where=common.loc(trs_to_dict, st_))
    ctx.shape(last_store is not None and norm(last_store.targets[0]) == "dct['trs']"
              and isinstance(last_store.value, ast.JoinedStr)
              and [norm(v.value) for v in last_store.value.values
                   if isinstance(v, ast.FormattedValue)] == ["dct['twp']", "dct['rge']", "dct['sec']"]
              and not any(isinstance(v, ast.Constant) and v.value for v in last_store.value.values),
              'SIB', "trs_to_dict: 'trs' is rebuilt from twp+rge+sec after all parts are set")
    # section: int() or placeholder
    t = ' '.join(norm(s) for s in trs_to_dict.node.body if isinstance(s, ast.Try))
    ok = ("dct['sec_num'] = int(sec)" in t and 'sec == MC._UNDEF_SEC' in t.replace('MasterConfig', 'MC')
          and "dct['sec_undef'] = True" in t and "sec = MC._ERR_SEC" in t.replace('MasterConfig', 'MC')
          and "dct['sec'] = sec" in t)
    ctx.shape(ok, 'SIB', 'trs_to_dict: section is a number, the undefined placeholder, or the error placeholder')
    # construct_trs: twp / rge blocks
    def block(var):
        out = []
        on = False
        for st in construct.node.body:
            tx = norm(st)
            if tx.startswith(f"if {var} in"):
                on = True
            elif on and any(tx.startswith(f"if {o} in") for o in ('twp', 'rge', 'sec') if o != var):
                break               # the next component's block starts
            if on:
                out.append(tx)
                if tx.startswith('if ') and f"{var} != " in tx.split(':')[0]:
                    break
        return ' ; '.join(out)
    def shape(txt):
        # component-neutral shape: twp/rge -> C, ns/ew -> D (word parts of identifiers)
        txt = re.sub(r"(?i)twp|rge", 'C', txt)
        txt = re.sub(r"'[nsewNSEW]'", "'L'", txt)        # the direction letters of the component
        return re.sub(r"(?<![A-Za-z])(ns|ew|NS|EW)(?![A-Za-z])|(?<=_)(ns|ew|NS|EW)\b|\b(ns|ew)(?=[._])", 'D', txt)
    a, b = shape(block('twp')), shape(block('rge'))
    ctx.tri(bool(b) and a == b, bool(a) and bool(b) and a != b, 'SIB', 'construct_trs: Rge block is the Twp block under renaming',
            detail_bad=f"blocks differ:\n    twp(renamed): {a}\n    rge:          {b}",
            key="SIB|construct_trs|twp-rge")


def _ocr_table(ctx):
    """The OCR look-alike table never rewrites a character of the undefined /
    error placeholders: construct_trs hands '___z' / 'XXXz' through the same
    scrub as digits, and a scrubbed placeholder is no longer recognised."""
    fi = ctx.repo.func('unpackers:ocr_scrub_alpha_to_num')
    src = set()
    for c in walk_local(fi.node):
        if isinstance(c, ast.Call) and isinstance(c.func, ast.Attribute) and c.func.attr == 'replace' and len(c.args) == 2 \
                and isinstance(c.args[0], ast.Constant) and isinstance(c.args[0].value, str):
            src |= set(c.args[0].value)
        if isinstance(c, ast.Call) and (dotted(c.func) or '').endswith('maketrans') and c.args \
                and isinstance(c.args[0], ast.Constant) and isinstance(c.args[0].value, str):
            src |= set(c.args[0].value)
    src |= {k for k in common.char_table(ctx, fi) if isinstance(k, str) and len(k) == 1}
    construct = 'ocr_scrub_alpha_to_num leaves the undefined / error placeholders alone'
    if not src:
        ctx.undecided('TBL', construct, 'look-alike table not recognised')
        return
    mc = lambda a: ctx.fold.get_attr('master_config', 'MasterConfig', a)
    protected = set(''.join(mc(a) for a in ('_UNDEF_TWP', '_UNDEF_RGE', '_UNDEF_SEC', '_ERR_TWP', '_ERR_RGE', '_ERR_SEC')))
    hit = sorted(src & protected)
    ctx.check(not hit, 'TBL', construct, f"rewrites {sorted(src)}",
              f"the table rewrites {hit}, which occur in the placeholders {sorted(protected)}: with ocr_scrub an undefined "
              f"Twp/Rge ('___z') passed to construct_trs comes back as the error placeholder, so TRS -> components -> TRS "
              f"does not round-trip", key=f"TBL|ocr_scrub_alpha_to_num|{''.join(hit)}", where=fi.loc)


def _empty_means_undefined(ctx):
    """every way a raw string enters (TRS(...), t.trs = ..., trs_to_dict(...))
    maps '' / None to the undefined TRS before the string is matched"""
    def maps_empty(node):
        for n in ast.walk(node):
            if isinstance(n, ast.If) and any('_UNDEF_TRS' in norm(x) for x in n.body):
                t = n.test
                if isinstance(t, ast.Compare) and isinstance(t.ops[0], ast.In):
                    v = ctx.fold.eval(t.comparators[0], {}, 'pytrs.parser.trs.trs')
                    try:
                        if set(v) >= {'', None}:
                            return True
                    except TypeError:
                        pass
                if isinstance(t, ast.UnaryOp) and isinstance(t.op, ast.Not):
                    return True
        return False
    ci = ctx.repo.cls('trs.trs:TRS')
    td = ctx.repo.func('TRS.trs_to_dict')
    setter = [st for st in ci.node.body if isinstance(st, ast.FunctionDef) and st.name == 'trs'
              and any('setter' in norm(d) for d in st.decorator_list)]
    in_td = maps_empty(td.node) or maps_empty(unpack_func(ctx).node)      # ... or the helper that holds the break-down
    in_setter = bool(setter) and maps_empty(setter[0])
    ctx.tri(in_td, not in_td and not in_setter, 'DEFUSE',
            "trs_to_dict maps '' / None to the undefined TRS (so does every route that ends there)",
            detail_bad="neither trs_to_dict nor the .trs setter maps an empty string / None to the undefined TRS any more "
                       "(only __init__ does): `t.trs = ''` and trs_to_dict('') yield the error TRS",
            key="DEFUSE|trs_to_dict|empty-undefined", where=td.loc)


def _sec_padding(ctx):
    """the section is left-padded to two digits (rjust / zfill), never cut:
    a slice like [-2:] turns section 114 into 14 before the width check"""
    fi = ctx.repo.func('TRS.construct_trs')
    cuts = []
    for a_ in walk_local(fi.node):
        if isinstance(a_, ast.Assign) and norm(a_.targets[0]) == 'sec':
            for x in ast.walk(a_.value):
                if isinstance(x, ast.Subscript) and isinstance(x.slice, ast.Slice) and x.slice.lower is not None \
                        and norm(x.slice.lower).startswith('-'):
                    cuts.append(a_)
    pads = [c for c in walk_local(fi.node) if isinstance(c, ast.Call) and isinstance(c.func, ast.Attribute)
            and c.func.attr in ('rjust', 'zfill')]
    ctx.tri(bool(pads) and not cuts, bool(cuts), 'DEFUSE', 'construct_trs pads the section, it never truncates it',
            detail_bad=f"`{norm(cuts[0])[:60] if cuts else ''}` keeps only the last characters: a section of three or more "
                       f"digits (100, 114) silently becomes a valid-looking two-digit section instead of the error section",
            key="DEFUSE|construct_trs|sec-truncated", where=common.loc(fi, cuts[0]) if cuts else None)


def _scrub_order(ctx):
    """construct_trs.scrub splits the direction letter off before the OCR
    scrub runs: the scrub turns 's'/'S' into '5', so a direction test on
    scrubbed text no longer sees a south township."""
    sc = ctx.repo.func('TRS.construct_trs.scrub')
    tests = [c for c in walk_local(sc.node) if isinstance(c, ast.Call) and isinstance(c.func, ast.Attribute)
             and c.func.attr in ('endswith', 'startswith')]
    construct = 'construct_trs.scrub: the direction letter is looked for in the text as given (before the OCR scrub)'
    if not tests:
        ctx.undecided('ORDER', construct, 'no endswith() direction test recognised')
        return
    for c in tests:
        prov = flow.provenance(sc.node, c.func.value)
        scrubbed = any(x.split('.')[-1] == 'ocr_scrub_alpha_to_num' for x in flow.prov_calls(prov))
        ctx.check(not scrubbed, 'ORDER', construct, f"`{norm(c)[:60]}`",
                  f"`{norm(c)[:60]}` tests text that went through ocr_scrub_alpha_to_num(): a trailing 's' has become "
                  f"'5' by then, so '1s' is built as township 15 with the default direction",
                  key="ORDER|construct_trs.scrub|direction-before-ocr", where=common.loc(sc, c))


def _eq_hash(ctx):
    eq = ctx.repo.func('TRS.__eq__')
    hs = ctx.repo.func('TRS.__hash__')
    t = ' '.join(norm(s) for s in eq.node.body if not isinstance(s, ast.Expr))
    ctx.shape('isinstance(other, TRS)' in t and 'return self.trs == other.trs' in t, 'DEFUSE',
              'TRS.__eq__ compares .trs of two TRS objects')
    # equality is by value of the standard-form string: every returned
    # comparison of __eq__ uses ==, on attributes that __hash__ hashes too
    rets = [r.value for r in walk_local(eq.node) if isinstance(r, ast.Return) and r.value is not None]
    cmps = [c for r in rets for c in ast.walk(r) if isinstance(c, ast.Compare)]
    ident = [c for c in cmps if any(isinstance(o, (ast.Is, ast.IsNot)) for o in c.ops)
             and not any(isinstance(x, ast.Constant) and x.value is None for x in [c.left] + c.comparators)]
    hashed = {n.attr for n in ast.walk(hs.node) if isinstance(n, ast.Attribute) and norm(n.value) == 'self'}
    compared = {n.attr for c in cmps for n in ast.walk(c) if isinstance(n, ast.Attribute) and norm(n.value) == 'self'}
    ctx.tri(bool(cmps) and not ident and compared <= hashed and bool(compared), bool(ident) or (bool(compared) and not compared & hashed),
            'DEFUSE', 'TRS.__eq__ is value equality on what __hash__ hashes',
            detail_bad=(f"`{norm(ident[0])}` compares object identity: two TRS built from differently spelled but equal "
                        f"input (or with the cache off) are unequal although their hashes agree" if ident else
                        f"__eq__ compares {sorted(compared)} but __hash__ hashes {sorted(hashed)}"),
            key="DEFUSE|TRS.__eq__|" + ('identity' if ident else 'attrs'), where=common.loc(eq, ident[0]) if ident else eq.loc)
    # equality never converts the other operand: only a TRS equals a TRS
    conv = [n for n in walk_local(eq.node) if isinstance(n, ast.Assign) and norm(n.targets[0]) == 'other']
    ctx.check(not conv, 'DEFUSE', 'TRS.__eq__ compares with the other object as it is (only a TRS can be equal)',
              detail_bad=f"`{norm(conv[0])[:50] if conv else ''}`: a foreign object (a str) is converted and may compare equal, "
                         f"while hash(TRS) == hash(str): sets / dicts that mix TRS objects and their key strings (as "
                         f"filter_duplicates does) treat every element as a duplicate",
              key="DEFUSE|TRS.__eq__|converts", where=common.loc(eq, conv[0]) if conv else None)
    # ... and every answer other than a constant False is given under isinstance(other, TRS)
    from ..srcmodel import facts_at
    foreign = []
    for r in walk_local(eq.node):
        if isinstance(r, ast.Return) and r.value is not None and not (
                isinstance(r.value, ast.Constant) and r.value.value in (False, NotImplemented)) \
                and norm(r.value) != 'NotImplemented':
            fs = [(txt, pol) for _e, txt, pol in facts_at(r)]
            if not any(txt.replace(' ', '') in ('isinstance(other,TRS)', 'isinstance(other,self.__class__)', 'isinstance(other,type(self))')
                       and pol for txt, pol in fs):
                foreign.append((r, fs))
    ctx.check(not foreign, 'DEFUSE', 'TRS.__eq__ answers True only to another TRS',
              detail_bad=(f"`{norm(foreign[0][0])}` is reached with {[t for t, p in foreign[0][1] if p][:2]} (no isinstance(other, TRS)): a "
                          f"TRS compares equal to a foreign object (its own string), and since hash(TRS) == hash(str) every "
                          f"set / dict that mixes TRS objects with key strings (filter_duplicates does) takes each element "
                          f"for a duplicate of its own key") if foreign else '',
              key="DEFUSE|TRS.__eq__|foreign", where=common.loc(eq, foreign[0][0]) if foreign else None)
    t = ' '.join(norm(s) for s in hs.node.body)
    ctx.tri(t == 'return hash(self.trs)', 'trs' not in hashed and '_TRS__trs' not in hashed, 'DEFUSE', 'TRS.__hash__ hashes .trs',
            detail_bad=f"__hash__ is `{t}`: equal TRS strings no longer hash equal", key="DEFUSE|TRS.__hash__")
    init = ctx.repo.func('TRS.__init__')
    t = ' '.join(norm(s) for s in init.node.body)
    ok = any(isinstance(n, ast.If) and isinstance(n.test, ast.Compare)
             and isinstance(n.test.ops[0], ast.In)
             and set(ctx.fold.eval(n.test.comparators[0], {}, init.module.name) or []) == {'', None}
             and any('_UNDEF_TRS' in norm(s) for s in n.body) for n in init.node.body)
    ctx.shape(ok, 'DEFUSE', "TRS(''/None) means undefined")
    ctx.shape('self.trs = trs' in t, 'DEFUSE', 'TRS.__init__ routes through the .trs setter')


def error_undef_tables(ctx, rule='TBL'):
    """TRS.is_error / TRS.is_undef decided for every combination: each of
    Twp, Rge, Sec is valid (a number), undefined (no number, marked undefined)
    or an error (no number, not marked), and each of the three `twp`, `rge`,
    `sec` switches is on or off.  is_error must be true exactly when a
    switched-on component is an error; is_undef exactly when a switched-on
    component is undefined.  (3^3 * 2^3 = 216 cases each, by conditional
    constant propagation through the two methods.)"""
    from .. import ccp
    import itertools
    ci = ctx.repo.cls('trs.trs:TRS')
    methods = {m.node.name: m.node for m in ci.methods.values()}
    comps = ('twp', 'rge', 'sec')
    for meth, kind in (('is_error', 'error'), ('is_undef', 'undef')):
        fn = ci.methods.get(meth)
        if fn is None:
            ctx.undecided(rule, f"TRS.{meth} for all component states", 'method not found')
            continue
        n, bad = 0, []
        try:
            for states in itertools.product(('valid', 'undef', 'error'), repeat=3):
                attrs = {}
                for c, st in zip(comps, states):
                    attrs[f"{c}_num"] = ccp.Sym(c) if st == 'valid' else None
                    attrs[f"{c}_undef"] = st == 'undef'
                for flags in itertools.product((True, False), repeat=3):
                    obj = ccp.Obj(_methods=methods, **attrs)
                    got = ccp.truth(ccp.run(fn.node, dict(zip(('self',) + comps, (obj,) + flags))))
                    want = any(f and st == kind for f, st in zip(flags, states))
                    n += 1
                    if got != want:
                        bad.append((states, flags, got))
        except ccp.Unsupported as e:
            ctx.undecided(rule, f"TRS.{meth} for all component states", f"not propagated ({e})")
            continue
        ex = bad[0] if bad else None
        ctx.check(not bad, rule, f"TRS.{meth}: true exactly when a checked component is {'an error' if kind == 'error' else 'undefined'} "
                                 f"({n} combinations)",
                  detail_bad=(f"{len(bad)} of {n} combinations are wrong, e.g. Twp/Rge/Sec = {ex[0]} checked with "
                              f"(twp, rge, sec) = {ex[1]} gives {ex[2]}: filter_errors() / the error flags "
                              f"{'miss' if ex and not ex[2] else 'wrongly include'} such elements") if ex else '',
                  key=f"{rule}|TRS.{meth}|table", where=fn.loc)


def lowered_before_unpack(ctx, rule='DEFUSE'):
    """The TRS unpacker regex is compiled case-insensitively (its error
    placeholders are upper-case), so what its groups capture has the case of
    the subject.  The parts of a TRS are compared with lower-case letters
    everywhere ('n' / 's' / 'e' / 'w' in the sort keys, pretty_twprge, the
    standard string itself), so the subject must be lower-cased before it is
    matched."""
    import re as _re
    fi = unpack_func(ctx)
    rv = unpacker(ctx)
    construct = 'TRS.trs_to_dict lower-cases the string before the case-insensitive unpacker sees it'
    calls = [c for c in walk_local(fi.node) if isinstance(c, ast.Call) and isinstance(c.func, ast.Attribute)
             and c.func.attr in ('fullmatch', 'match', 'search') and 'UNPACKER' in norm(c.func.value).upper() and c.args]
    # the application whose match object is kept (its groups become the parts); a consistency check that
    # only asks `... is None` captures nothing
    kept = [c for c in calls if isinstance(getattr(c, '_parent', None), (ast.Assign, ast.NamedExpr, ast.AnnAssign))]
    calls = kept or calls
    if not calls:
        ctx.undecided(rule, construct, 'unpacker call not found')
        return
    if not (rv.flags & _re.I):
        ctx.ok(rule, construct, 'the unpacker is case-sensitive')
        return
    for c in calls:
        prov = flow.provenance(fi.node, c.args[0])
        lowered = 'lower' in {x.split('.')[-1] for x in flow.prov_calls(prov)} or 'casefold' in {
            x.split('.')[-1] for x in flow.prov_calls(prov)}
        # ... or every captured direction is lowered afterwards
        after = any(isinstance(x, ast.Call) and isinstance(x.func, ast.Attribute) and x.func.attr == 'lower'
                    and any(isinstance(y, ast.Subscript) or (isinstance(y, ast.Call) and isinstance(y.func, ast.Attribute)
                                                               and y.func.attr in ('group', 'groupdict'))
                            for y in ast.walk(x.func.value)) for x in walk_local(fi.node))
        if not lowered and after:
            # lowered piecemeal after the match: then EVERY value taken from a letter-bearing group
            # must be lowered, the direction letters included
            raw = []
            for a in walk_local(fi.node):
                if isinstance(a, ast.Assign) and isinstance(a.targets[0], ast.Subscript) and isinstance(a.targets[0].slice, ast.Constant):
                    grp = [x for x in ast.walk(a.value) if (isinstance(x, ast.Call) and isinstance(x.func, ast.Attribute)
                                                             and x.func.attr == 'group' and x.args and isinstance(x.args[0], ast.Constant)
                                                             and x.args[0].value in ('ns', 'ew', 'twp', 'rge'))
                           or (isinstance(x, ast.Subscript) and isinstance(x.slice, ast.Constant) and x.slice.value in ('ns', 'ew', 'twp', 'rge')
                               and isinstance(x.value, ast.Name) and x.value.id.endswith('mo'))]
                    low = any(isinstance(x, ast.Call) and isinstance(x.func, ast.Attribute) and x.func.attr in ('lower', 'casefold')
                              for x in ast.walk(a.value))
                    if grp and not low:
                        raw.append(a)
            ctx.check(not raw, rule, construct,
                      detail_bad=f"the string is matched as given (case-insensitive pattern) and `{norm(raw[0])[:60] if raw else ''}` stores a captured "
                                 f"part without lower-casing it: '4N68W12' yields twp_ns='N' / rge_ew='W', which the sort keys and "
                                 f"pretty_twprge compare with 'n' / 'w' - North sorts as South",
                      key=f"{rule}|TRS.trs_to_dict|not-lowered", where=common.loc(fi, raw[0]) if raw else None)
            continue
        ctx.tri(lowered, not lowered and not after, rule, construct,
                detail_bad=f"`{norm(c)[:60]}` matches the string as given with a case-insensitive pattern: '154N97W14' yields "
                           f"twp_ns='N', rge_ew='W' (and an upper-case .trs), which no comparison with 'n' / 's' / 'e' / 'w' "
                           f"recognises - North sorts as South, the standard form is not unique",
                key=f"{rule}|TRS.trs_to_dict|not-lowered", where=common.loc(fi, c),
                why='groups are lower-cased after the match')


def canonical_case_and_none(ctx, rule='DEFUSE'):
    """(a) construct_trs writes the direction it appends to a bare number in
    lower case - the validation that follows accepts both cases, so an
    upper-case default ('S' from a keyword or MasterConfig) would otherwise
    survive into the "standard" string.  (b) on the way into the `.trs`
    setter / trs_to_dict a value is not passed through str() before the
    '' / None test: str(None) is 'None', an error TRS instead of the
    undefined one."""
    from ..srcmodel import facts_at
    ct = ctx.repo.func('TRS.construct_trs')
    n = 0
    for a in ast.walk(ct.node):
        if isinstance(a, ast.Assign) and isinstance(a.targets[0], ast.Name) and a.targets[0].id in ('twp', 'rge') \
                and isinstance(a.value, ast.JoinedStr):
            parts = [v for v in a.value.values if isinstance(v, ast.FormattedValue)]
            if len(parts) != 2:
                continue
            d = parts[1].value
            n += 1
            lowered = any(isinstance(x, ast.Call) and isinstance(x.func, ast.Attribute) and x.func.attr in ('lower', 'casefold')
                          for x in ast.walk(d))
            if not lowered and isinstance(d, ast.Name):
                # every definition of the direction variable must be lower-cased (or come out of
                # the component's own text, which the validation below constrains)
                def _low(e):
                    return any(isinstance(x, ast.Call) and isinstance(x.func, ast.Attribute) and x.func.attr in ('lower', 'casefold')
                               for x in ast.walk(e))
                defs = []
                for y in ast.walk(ct.node):
                    if isinstance(y, ast.Assign):
                        for t in y.targets:
                            if isinstance(t, ast.Name) and t.id == d.id:
                                defs.append(y.value)
                            elif isinstance(t, ast.Tuple) and any(isinstance(e_, ast.Name) and e_.id == d.id for e_ in t.elts):
                                defs.append(y.value)
                raw = []
                for v in defs:
                    if isinstance(v, ast.Name) and v.id in ct.params():
                        # the parameter itself lower-cased somewhere before?
                        if not any(isinstance(y, ast.Assign) and norm(y.targets[0]) == v.id and _low(y.value) for y in ast.walk(ct.node)):
                            raw.append(v.id)
                lowered = bool(defs) and not raw
            ctx.check(lowered, rule, f"construct_trs: the direction appended to a bare {a.targets[0].id} number is lower-cased",
                      detail_bad=f"`{norm(a)}` appends the default direction as given: with default_ns='S' (keyword or MasterConfig) "
                                 f"construct_trs returns '154S97E01', which passes the (case-tolerant) validation - the standard "
                                 f"form is no longer unique and not a fixed point of TRS()",
                      key=f"{rule}|construct_trs|direction-case|{a.targets[0].id}", where=common.loc(ct, a))
    if n == 0:
        ctx.undecided(rule, 'construct_trs: the appended direction is lower-cased', 'f"{number}{direction}" not found')
    cls = ctx.repo.cls('trs.trs:TRS')
    for fn in [st for st in cls.node.body if isinstance(st, ast.FunctionDef) and st.name == 'trs'
               and any('setter' in norm(d_) for d_ in st.decorator_list)] + [ctx.repo.func('TRS.trs_to_dict').node]:
        params = [x.arg for x in fn.args.args if x.arg not in ('self', 'cls')]
        for a in ast.walk(fn):
            if isinstance(a, ast.Assign) and isinstance(a.targets[0], ast.Name) and a.targets[0].id in params \
                    and isinstance(a.value, ast.Call) and dotted(a.value.func) == 'str' \
                    and a.value.args and norm(a.value.args[0]) == a.targets[0].id:
                p_ = a.targets[0].id
                facts = [(t, pol) for _e, t, pol in facts_at(a)]
                safe = any((t == f"{p_} is None" and not pol) or (t.startswith(f"{p_} in ") and not pol) for t, pol in facts)
                # a '' / None test on the same name EARLIER in the function also makes it safe
                earlier = any(isinstance(c, ast.Compare) and c.lineno < a.lineno and norm(c.left) == p_
                              and any(isinstance(x, ast.Constant) and x.value is None for cmp_ in c.comparators for x in ast.walk(cmp_))
                              for c in ast.walk(fn))
                ctx.check(safe or earlier, rule, f"TRS.{fn.name}: `{norm(a)}` does not turn None into 'None'",
                          detail_bad=f"`{norm(a)}` runs before the '' / None test: `t.trs = None` (and trs_to_dict(None) behind it) "
                                     f"now sees the string 'None' - the error TRS instead of the undefined one, although TRS(None) "
                                     f"and TRS('') still mean undefined", key=f"{rule}|TRS.{fn.name}|str-none",
                          where=f"{cls.module.relpath}:{a.lineno}")


def validation_on_every_path(ctx, rule='DEFUSE'):
    """construct_trs validates each finished component against its pattern
    (`re.fullmatch(TRS._TWP_RGX, twp)`), whatever it was built from.  As an
    `elif` of the branch that builds the string from an int, the check no
    longer sees int-built strings: 1154 gives '1154n', which is not a
    standard Twp."""
    ct = ctx.repo.func('TRS.construct_trs')
    n = 0
    for node in ast.walk(ct.node):
        if isinstance(node, ast.If):
            m = [c for c in ast.walk(node.test) if isinstance(c, ast.Call) and dotted(c.func) in ('re.fullmatch', 're.match')
                 and c.args and '_RGX' in norm(c.args[0])]
            m += [c for c in ast.walk(node.test) if isinstance(c, ast.Call) and isinstance(c.func, ast.Attribute)
                  and c.func.attr == 'fullmatch' and ('_RGX' in norm(c.func.value) or '_PATTERN' in norm(c.func.value))]
            if not m:
                continue
            n += 1
            par = getattr(node, '_parent', None)
            in_else = isinstance(par, ast.If) and node in par.orelse
            if in_else:
                # only if the skipped branch BUILDS a value (f-string / str / format); a branch that
                # merely puts in the placeholder needs no validation
                builds = any(isinstance(a, ast.Assign) and not (isinstance(a.value, ast.Attribute) or isinstance(a.value, ast.Constant))
                             for b_ in par.body for a in ast.walk(b_))
                in_else = builds
            ctx.check(not in_else, rule, f"construct_trs: `{norm(m[0])[:40]}` checks the component on every path",
                      detail_bad=f"the check is the `elif` of `if {norm(par.test)[:40] if in_else else ''}`: a component that was just built in that "
                                 f"branch (from an int) is never validated - construct_trs(1154, 97, 1) returns '1154n97w01' and "
                                 f"from_twprgesec turns the WHOLE string into the error TRS instead of only the township",
                      key=f"{rule}|construct_trs|validation-elif|{norm(m[0])[:30]}", where=common.loc(ct, node))
    if n == 0:
        ctx.undecided(rule, 'construct_trs validates every component', 'validation tests not found')


def unpacker_members(ctx, rule_pos='RX-LANG'):
    """every kind of standard-form string (valid, error / undefined
    placeholders, mixed) is matched as a whole by the unpacker in the case it
    reaches it (trs_to_dict lower-cases first): partial-error strings keep
    their valid components.  Shared by C18 (filter_errors / group_by read
    those components)."""
    rv = unpacker(ctx)
    mc = lambda a: ctx.fold.get_attr('master_config', 'MasterConfig', a)
    ERR_TWP, ERR_RGE, ERR_SEC = mc('_ERR_TWP'), mc('_ERR_RGE'), mc('_ERR_SEC')
    UND_TWP, UND_RGE, UND_SEC = mc('_UNDEF_TWP'), mc('_UNDEF_RGE'), mc('_UNDEF_SEC')
    L = common.lang(ctx, rv)
    trs_to_dict = unpack_func(ctx)
    lowered = any(c_.split('.')[-1] == 'lower' for c_ in flow.prov_calls(_subject_prov(ctx, trs_to_dict)))
    conv = (lambda s: s.lower()) if lowered else (lambda s: s)
    for s in ('154n97w14', '154n' + ERR_RGE + '14', ERR_TWP + '97w14', '154n97w' + ERR_SEC,
              UND_TWP + '97w01', '154n' + UND_RGE + '01', '154n97w' + UND_SEC, UND_TWP + ERR_RGE + '07'):
        ctx.check(L.fullmatch(conv(s)), rule_pos, f"{s!r} decomposes (as {conv(s)!r})",
                  detail_bad=f"{s!r} reaches the unpacker as {conv(s)!r} and is not matched as a whole: the string collapses to the "
                             f"all-error TRS, so a tract with ONE bad component is reported (filter_errors, group_by) as bad in all three",
                  key=f"{rule_pos}|unpacker|member|{s}")


def unpack_func(ctx):
    """The TRS function that applies the unpacker regex to the string: trs_to_dict itself, or the
    (single) helper of the class the break-down was moved into (`TRS._unpack`)."""
    def find():
        td = ctx.repo.func('TRS.trs_to_dict')

        def applies(fn):
            return any(isinstance(c, ast.Call) and isinstance(c.func, ast.Attribute) and c.func.attr in ('search', 'match', 'fullmatch')
                       and c.args and 'UNPACKER' in norm(c.func.value).upper() for c in ast.walk(fn))
        if applies(td.node):
            return td
        ci = ctx.repo.cls('trs.trs:TRS')
        hits = [m for m in ci.methods.values() if applies(m.node)]
        if len(hits) == 1:
            ctx.repo.moved_anchors['TRS.trs_to_dict (unpacker application)'] = hits[0].fullname
            return hits[0]
        return td
    return ctx.cache('trs-unpack-func', find)


def length_pretests(ctx, rule='RX-LANG'):
    """A length test in front of the unpacker (`if len(trs) < 6: return <error>`)
    is sound only if nothing the pattern matches as a whole is that short.
    The minimum length of the pattern's language is read off its parse tree
    (sections are optional: '7s9e' has four characters)."""
    fi = unpack_func(ctx)
    rv = unpacker(ctx)
    lo, _hi = rx._minmax(rx.parse(rv.pattern, rv.flags))
    calls = [c for c in walk_local(fi.node) if isinstance(c, ast.Call) and isinstance(c.func, ast.Attribute)
             and c.func.attr in ('fullmatch', 'match', 'search') and 'UNPACKER' in norm(c.func.value).upper() and c.args]
    if not calls:
        return 0
    first = min(c.lineno for c in calls)
    n = 0
    for t in walk_local(fi.node):
        if not (isinstance(t, ast.If) and t.lineno < first and any(isinstance(x, ast.Return) for x in t.body)):
            continue
        for cmp_ in ast.walk(t.test):
            if isinstance(cmp_, ast.Compare) and len(cmp_.ops) == 1 and isinstance(cmp_.left, ast.Call) and dotted(cmp_.left.func) == 'len' \
                    and isinstance(cmp_.comparators[0], ast.Constant) and isinstance(cmp_.comparators[0].value, int):
                k = cmp_.comparators[0].value
                op = cmp_.ops[0]
                rejected_max = k - 1 if isinstance(op, ast.Lt) else k if isinstance(op, ast.LtE) else None
                if rejected_max is None:
                    continue
                n += 1
                ctx.check(rejected_max < lo, rule, f"{fi.qualname}: `{norm(cmp_)}` rejects nothing the unpacker matches",
                          f"shortest member has {lo} characters",
                          f"`{norm(t.test)[:50]}` returns the error break-down for strings of up to {rejected_max} characters, but the "
                          f"unpacker matches strings as short as {lo} (a bare Twp/Rge such as '7s9e' - the section is optional): "
                          f"TRS('7s9e') / pretty_desc of a low-numbered township come out as errors",
                          key=f"{rule}|{fi.qualname}|length-pretest|{norm(cmp_)[:30]}", where=common.loc(fi, t))
    return n
