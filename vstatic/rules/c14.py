"""
C14 -- re-parsing is idempotent and commit=False has no side effects.
"""

import ast

from .. import AnalysisError, flow
from ..srcmodel import walk_local, norm, dotted, guards, enclosing_stmt, facts_at, literals
from . import common, forward

from .c15 import _globals_inventory

from .c13 import _forwarding

META = {
    'explanation': (
        "COMMIT rule: in every method with a `commit` parameter each store to "
        "/ in-place mutation of `self` is control-dependent on `commit`; the "
        "parser helpers only read and copy from their parent object and the "
        "PLSSParser never receives the PLSSDesc; on commit every UNPACKABLES "
        "attribute is *assigned* from the freshly built parser (flags reset "
        "first), the parse always starts from the original text; FRESH rule: "
        "an attribute that is committed back must not also seed the value "
        "that is committed (append-only feedback). Not decided: arbitrary "
        "operation sequences as such."
        ' Also: module-level / class-level containers are not mutated (GLOBALS), parse_tracts forwards as given, seed guard, commit guards incl. early returns, Config reader keeps explicit False.'
        ' Round 7: parse() is not skipped because of parse_complete; parse()/preprocess() write no setting and grow no result list in place; TractParser seeding cannot be missing.'
        ' Round 8: parse() does not rewrite the Config object held in .config (alias, setattr).'
        ' Round 9: `if parent:` is not a truth test of an object whose class defines __len__ / __bool__.'
        ' Round 11: a logging / formatting call that is handed the object only reads it; other callees are judged by whether they assign to its attributes.'),
    'families': ['GLOBALS', 'COMMIT', 'FRESH', 'TBL', 'FORWARD', 'DEADPARAM', 'SIB-DEFAULTS'],
}

MUT = ('append', 'extend', 'insert', 'pop', 'remove', 'clear', 'sort', 'reverse', 'update',
       'setdefault', 'add', 'discard')

COMMIT_METHODS = ['PLSSDesc.parse', 'Tract.parse', 'PLSSDesc.preprocess', 'Tract.preprocess',
                  'PLSSPreprocessor.preprocess', 'TractPreprocessor.preprocess']


def _self_effects(fi):
    """(node, description) for every store / in-place mutation on self."""
    out = []
    for n in walk_local(fi.node):
        if isinstance(n, ast.Attribute) and isinstance(n.ctx, (ast.Store, ast.Del)) \
                and norm(n.value) == 'self':
            out.append((n, f"store self.{n.attr}"))
        elif isinstance(n, ast.Subscript) and isinstance(n.ctx, (ast.Store, ast.Del)) \
                and norm(n.value).startswith('self.'):
            out.append((n, f"item store {norm(n.value)}[...]"))
        elif isinstance(n, ast.Call):
            if dotted(n.func) == 'setattr' and n.args and norm(n.args[0]) == 'self':
                out.append((n, f"setattr(self, {norm(n.args[1])})"))
            elif isinstance(n.func, ast.Attribute) and n.func.attr in MUT \
                    and norm(n.func.value).startswith('self.'):
                out.append((n, f"{norm(n.func.value)}.{n.func.attr}(...)"))
    return out


def check(ctx):
    ctx.consult('tract/tract.py', 'tract/tract_parse.py', 'plssdesc/plssdesc.py',
                'plssdesc/plss_preprocess.py', 'tract/tract_preprocess.py', 'containers/containers.py')
    n_eff = 0
    for spec in COMMIT_METHODS:
        fi = ctx.repo.func(spec)
        if 'commit' not in fi.params():
            raise AnalysisError(f"{spec} has no commit parameter")
        effs = _self_effects(fi)
        n_eff += len(effs)
        if not effs:
            ctx.ok('COMMIT', f"{spec}: no effect on self at all")
        for node, desc in effs:
            gs = [(t, pol) for _e, t, pol in facts_at(node)]
            ok = ('commit', True) in gs
            ctx.check(ok, 'COMMIT', f"{spec}: {desc} only under `if commit`",
                      'guarded', f"`{norm(enclosing_stmt(node))[:80]}` runs when commit=False "
                                 f"(guards: {gs or 'none'}): a non-committed call changes the object",
                      key=f"COMMIT|{spec}|{desc}", where=common.loc(fi, node))
        # callees that receive self must not mutate it either
        for c in walk_local(fi.node):
            if isinstance(c, ast.Call) and any(isinstance(a, ast.Name) and a.id == 'self' for a in c.args) \
                    or isinstance(c, ast.Call) and any(isinstance(k.value, ast.Name) and k.value.id == 'self' for k in c.keywords):
                callee = dotted(c.func)
                gs = [(t, pol) for _e, t, pol in facts_at(c)]
                if ('commit', True) in gs or callee in ('setattr', 'getattr', 'isinstance'):
                    continue
                ok = callee == 'TractParser'
                last = (callee or '').split('.')[-1]
                root = (callee or '').split('.')[0].lower()
                if not ok and (last in ('debug', 'info', 'warning', 'error', 'exception', 'log', 'critical')
                               and ('log' in root or root in ('warnings',))
                               or callee in ('print', 'repr', 'str', 'id', 'type', 'len', 'hash', 'format', 'vars', 'hasattr')):
                    ctx.ok('COMMIT', f"{spec}: passes self to {callee}", 'a logging / formatting call reads the object only')
                    continue
                if not ok:
                    # a package function that is handed the object: does it write to it?
                    node_ = flow.RESOLVER(callee or '', c, fi.node) if flow.RESOLVER and callee else None
                    cf_ = getattr(node_, '_func', None) if node_ is not None else None
                    if cf_ is None:
                        ctx.undecided('COMMIT', f"{spec}: passes self to {callee}", 'callee not resolved; what it does with the object is not followed')
                        continue
                    pos = [i for i, a in enumerate(c.args) if isinstance(a, ast.Name) and a.id == 'self']
                    prm = [p_ for p_ in cf_.params() if p_ not in ('self', 'cls')] if isinstance(c.func, ast.Attribute) else cf_.params()
                    pname = prm[pos[0]] if pos and pos[0] < len(prm) else None
                    writes = pname is not None and any(
                        isinstance(x, ast.Attribute) and isinstance(x.ctx, (ast.Store, ast.Del)) and isinstance(x.value, ast.Name)
                        and x.value.id == pname for x in ast.walk(cf_.node)) or pname is not None and any(
                        isinstance(x, ast.Call) and dotted(x.func) == 'setattr' and x.args and norm(x.args[0]) == pname
                        for x in ast.walk(cf_.node))
                    if not writes:
                        ctx.undecided('COMMIT', f"{spec}: passes self to {callee}",
                                      f"{callee}() does not assign to attributes of the object it is handed; deeper effects not followed")
                        continue
                ctx.check(ok, 'COMMIT', f"{spec}: passes self to {callee}",
                          'TractParser only reads/copies from its parent (checked below)',
                          f"self escapes to {callee}() outside `if commit`, and {callee}() assigns to its attributes",
                          key=f"COMMIT|{spec}|escape|{callee}")
    ctx.floor('self effects in commit methods', n_eff, 4)

    # the return value does not depend on commit (same object either way)
    for spec, ret in (('PLSSDesc.parse', 'tracts'), ('Tract.preprocess', 'text'), ('PLSSDesc.preprocess', 'pp_desc')):
        fi = ctx.repo.func(spec)
        rets = [n for n in walk_local(fi.node) if isinstance(n, ast.Return)]
        ctx.shape(len(rets) == 1 and not guards(rets[0]) and norm(rets[0].value) == ret, 'COMMIT',
                  f"{spec} returns `{ret}` regardless of commit")

    ctx.attempt(_parsers_readonly)
    ctx.attempt(_commit_assigns)
    ctx.attempt(_fresh)
    ctx.attempt(_forwarding)
    from .c13 import config_setters_keep_false     # re-configure + re-parse equals a fresh object with the final settings
    ctx.attempt(config_setters_keep_false, rule='COMMIT')
    ctx.attempt(_globals_inventory)
    ctx.attempt(parse_not_gated)
    ctx.attempt(settings_are_inputs)
    ctx.attempt(results_replaced_not_grown)
    ctx.attempt(forward.check_all, module_suffixes=('plssdesc.plssdesc', 'tract.tract', 'tract.tract_parse'))
    ctx.attempt(common.none_vs_false, [f for f in ctx.repo.funcs.values() if f.module.name.endswith('config.config')])


def settings_are_inputs(ctx, rule='COMMIT'):
    """parse() / preprocess() read the object's settings and never write them:
    a call that stores one of the configurable attributes changes what every
    later call (and a later bare parse()) starts from, so the object drifts
    from a fresh one with the settings it was given."""
    g = lambda a: set(ctx.fold.get_attr('config.config', 'Config', a))
    tables = {'Tract': g('_TRACT_ATTRIBUTES'), 'PLSSDesc': g('_PLSSDESC_ATTRIBUTES') | g('_TRACT_ATTRIBUTES')}
    n = 0
    for spec in ('Tract.parse', 'Tract.preprocess', 'PLSSDesc.parse', 'PLSSDesc.preprocess', 'PLSSDesc.parse_tracts'):
        try:
            fi = ctx.repo.func(spec)
        except AnalysisError:
            continue
        names = tables[spec.split('.')[0]]
        n += 1
        for st in walk_local(fi.node):
            tgts = st.targets if isinstance(st, ast.Assign) else [st.target] if isinstance(st, (ast.AugAssign, ast.AnnAssign)) else []
            for t in tgts:
                for x in (t.elts if isinstance(t, (ast.Tuple, ast.List)) else [t]):
                    if isinstance(x, ast.Attribute) and norm(x.value) == 'self' and x.attr in names:
                        ctx.violation(rule, f"{spec} does not write the setting `{x.attr}`",
                                      f"`{norm(st)[:70]}` stores a configurable setting during {spec.split('.')[1]}(): the value given "
                                      f"for ONE call becomes the default of the following calls (parse(qq_depth=1) and then "
                                      f"parse(qq_depth_min=3) meets a left-over qq_depth_max), unlike on a fresh object",
                                      key=f"{rule}|{spec}|writes-setting|{x.attr}", where=common.loc(fi, st))
            if isinstance(st, ast.Call) and dotted(st.func) == 'setattr' and len(st.args) == 3 and norm(st.args[0]) == 'self':
                v = ctx.fold.eval(st.args[1], {}, fi.module.name)
                if isinstance(v, str) and v in names:
                    ctx.violation(rule, f"{spec} does not write the setting `{v}`", f"`{norm(st)[:70]}`",
                                  key=f"{rule}|{spec}|writes-setting|{v}", where=common.loc(fi, st))
        # ... nor rewrite the Config object the description was given (it may be shared with other objects)
        cfg_alias = {'self.config'}
        for st in walk_local(fi.node):
            if isinstance(st, ast.Assign) and len(st.targets) == 1 and isinstance(st.targets[0], ast.Name) \
                    and norm(st.value) == 'self.config':
                cfg_alias.add(st.targets[0].id)
        for st in walk_local(fi.node):
            hit = None
            if isinstance(st, (ast.Assign, ast.AugAssign)):
                for t in (st.targets if isinstance(st, ast.Assign) else [st.target]):
                    if isinstance(t, ast.Attribute) and norm(t.value) in cfg_alias:
                        hit = st
            if isinstance(st, ast.Call) and dotted(st.func) == 'setattr' and st.args and norm(st.args[0]) in cfg_alias:
                hit = st
            if hit is not None:
                ctx.violation(rule, f"{spec} does not rewrite the object's Config",
                              f"`{norm(hit)[:70]}` changes the Config object held in `.config` (no copy is made): the override given "
                              f"for ONE call - even with commit=False - stays in `.config`, is handed to every later parse and "
                              f"parse_tracts(), and shows up in every other object that was created with the same Config",
                              key=f"{rule}|{spec}|rewrites-config", where=common.loc(fi, hit))
        ctx.ok(rule, f"{spec} writes none of its {len(names)} settings")
    ctx.floor('methods examined for writes to settings', n, 4)


def results_replaced_not_grown(ctx, rule='COMMIT'):
    """A committed call REPLACES the result lists (flags, flag lines, tracts,
    lots, qqs); growing one in place (`self.w_flags.append(...)`) makes every
    repetition of the call add to what is already there."""
    from ..srcmodel import facts_at
    results = {'w_flags', 'e_flags', 'w_flag_lines', 'e_flag_lines', 'tracts', 'lots', 'qqs', 'lots_qqs', 'lot_acres'}
    n = 0
    for spec in ('Tract.parse', 'Tract.preprocess', 'PLSSDesc.parse', 'PLSSDesc.preprocess', 'PLSSDesc.parse_tracts'):
        try:
            fi = ctx.repo.func(spec)
        except AnalysisError:
            continue
        n += 1
        for c in walk_local(fi.node):
            a = None
            if isinstance(c, ast.Call) and isinstance(c.func, ast.Attribute) and c.func.attr in ('append', 'extend', 'insert', 'update') \
                    and isinstance(c.func.value, ast.Attribute) and norm(c.func.value.value) == 'self':
                a = c.func.value.attr
            elif isinstance(c, ast.AugAssign) and isinstance(c.target, ast.Attribute) and norm(c.target.value) == 'self':
                a = c.target.attr
            if a not in results:
                continue
            # fine if the same function rebinds the list before (on the way to) this statement
            rebound = any(isinstance(s_, ast.Assign) and any(norm(t) == f"self.{a}" for t in s_.targets) and s_.lineno < c.lineno
                          for s_ in walk_local(fi.node))
            ctx.check(rebound, rule, f"{spec}: self.{a} is replaced, not grown",
                      detail_bad=f"`{norm(c)[:70]}` adds to the list the object already has: each repetition of the call "
                                 f"(e.g. every committed preprocess / parse of an already parsed object) adds another copy, "
                                 f"so the object differs from a freshly created one", key=f"{rule}|{spec}|grows|{a}",
                      where=common.loc(fi, c))
        ctx.ok(rule, f"{spec} grows none of the result lists in place")
    ctx.floor('methods examined for in-place growth of results', n, 4)


def parse_not_gated(ctx, rule='FRESH'):
    """`parse_complete` records THAT a tract was parsed, not under which
    settings: a (re-)parse that is skipped because of it keeps results that
    a fresh object with the current settings would not have."""
    from ..srcmodel import facts_at
    n = 0
    for fi in ctx.repo.funcs.values():
        if not fi.module.name.endswith(('containers.containers', 'plssdesc.plssdesc', 'tract.tract')):
            continue
        for c in walk_local(fi.node):
            if isinstance(c, ast.Call) and isinstance(c.func, ast.Attribute) and c.func.attr in ('parse', 'parse_tracts') \
                    and dotted(c.func.value) not in ('self.parser', 'parser'):
                n += 1
                gate = [t for _e, t, _pol in facts_at(c) if 'parse_complete' in t]
                ctx.check(not gate, rule, f"{fi.qualname}: `{norm(c.func)}()` is not skipped for tracts that were parsed before",
                          detail_bad=f"the call runs only if `{gate[0] if gate else ''}` allows it: after config_tracts() / a new "
                                     f".config / a changed attribute the old lots and QQs stay, unlike on a fresh object "
                                     f"with the final settings", key=f"{rule}|{fi.qualname}|parse-gated",
                          where=common.loc(fi, c))
    ctx.floor('parse()/parse_tracts() call sites examined for gating', n, 3)


def seed_guard(ctx, seeded=None):
    if seeded is None:
        seeded = {}
        ci = ctx.repo.cls('tract_parse:TractParser')
        for m in ci.methods.values():
            for n in walk_local(m.node):
                if isinstance(n, ast.Assign) and norm(n.targets[0]).startswith('self.') and any(
                        norm(x).startswith('parent.') for x in ast.walk(n.value) if isinstance(x, ast.Attribute)):
                    seeded[norm(n.targets[0])[5:]] = (norm(n.value), None, n, m)
                elif isinstance(n, ast.Assign) and norm(n.targets[0]).startswith('self.') and m.node.name != '__init__' and any(
                        isinstance(x, ast.Attribute) and isinstance(x.value, ast.Name) and x.value.id in m.params()
                        and x.value.id != 'self' and x.attr == norm(n.targets[0])[5:] for x in ast.walk(n.value)):
                    # a helper that copies the same-named attribute from the object it is given;
                    # counts when __init__ hands it the parent
                    init_ = ci.methods.get('__init__')
                    if init_ is not None and any(isinstance(c, ast.Call) and norm(c.func) == f"self.{m.node.name}" and any(
                            norm(a) in ('parent', 'self.parent') for a in c.args) for c in walk_local(init_.node)):
                        call_ = next(c for c in walk_local(init_.node) if isinstance(c, ast.Call) and norm(c.func) == f"self.{m.node.name}")
                        seeded[norm(n.targets[0])[5:]] = (norm(n.value), None, call_, init_)
        # what a committed Tract.parse() replaces on the tract by the parser's lists
        unpack = ctx.fold.get_attr('tract_parse', 'TractParser', 'UNPACKABLES')
        tp = ctx.repo.func('Tract.parse')
        by_table = any(isinstance(n, ast.For) and 'UNPACKABLES' in norm(n.iter) and any(
            isinstance(c, ast.Call) and dotted(c.func) == 'setattr' for c in ast.walk(n)) for n in walk_local(tp.node))
        replaced = {a for a in ('w_flags', 'e_flags', 'w_flag_lines', 'e_flag_lines')
                    if (by_table and a in (unpack or ())) or any(
                        isinstance(n, ast.Assign) and norm(n.targets[0]) == f"self.{a}" and norm(n.value) == f"parser.{a}"
                        for n in walk_local(tp.node))}
        lost = sorted(replaced - set(seeded))
        # any other way the parent's flags could be read (setattr loop over a table of names)?
        indirect = any(isinstance(c, ast.Call) and dotted(c.func) == 'getattr' and c.args
                       and norm(c.args[0]) in ('parent', 'self.parent') for m in ci.methods.values() for c in ast.walk(m.node))
        if lost and indirect:
            ctx.undecided('COMMIT', 'TractParser takes over the flags of its parent',
                          'the parent is read through getattr(parent, <name>): which attributes are taken over is not decided')
        elif lost:
            ctx.violation('COMMIT', 'TractParser takes over the flags of its parent',
                          f"a committed Tract.parse() replaces self.{', self.'.join(lost)} by the parser's list"
                          f"{'s' if len(lost) > 1 else ''}, and TractParser no longer starts "
                          f"{'them' if len(lost) > 1 else 'it'} from the tract's existing flags: every flag handed down by the "
                          f"description (PLSSParser.hand_down_flags) disappears from a tract that is parsed again "
                          f"(parse_tracts(), Tract.parse())", key=f"COMMIT|TractParser|seed-missing|{','.join(lost)}",
                          where=ci.methods['__init__'].loc if '__init__' in ci.methods else None)
        elif not seeded:
            ctx.undecided('COMMIT', 'TractParser takes over the flags of its parent', 'no seeding statement recognised')
    # the hand-over from the parent is conditioned on there being a parent, not
    # on the parent's state (a re-parsed tract still carries the flags its
    # description handed down)
    for a, (txt, fresh, node, m) in sorted(seeded.items()):
        lits = [(t, pol) for _e, t, pol in literals(guards(node))]
        state = [(t, pol) for t, pol in lits if 'parent.' in t]
        exists = ('parent', True) in lits or ('parent is None', False) in lits or ('self.parent', True) in lits
        by_truth = (('parent', True) in lits or ('self.parent', True) in lits) and ('parent is None', False) not in lits
        sized = [nm for nm in ('__len__', '__bool__') if nm in ctx.repo.cls('tract.tract:Tract').methods]
        if by_truth and sized:
            ctx.violation('COMMIT', f"TractParser.{a}: the tract's existing {a} are taken over whenever there is a parent",
                          f"`if parent:` asks for the TRUTH VALUE of the Tract, and Tract now defines {sized[0]}: a tract with no lots / "
                          f"QQs (not parsed yet, or nothing to find) is falsy, so its flags - those handed down by the description - "
                          f"are not taken over and a committed (re-)parse wipes them",
                          key=f"COMMIT|TractParser|seed-guard|{a}", where=common.loc(m, node))
            continue
        ctx.tri(exists and not state, bool(state), 'COMMIT',
                f"TractParser.{a}: the tract's existing {a} are taken over whenever there is a parent",
                detail_bad=f"`{txt}` runs only under {state}: in the other state the flags the tract already carries "
                           f"(those handed down by its description) are dropped by a (re-)parse",
                key=f"COMMIT|TractParser|seed-guard|{a}", where=common.loc(m, node))


def _parsers_readonly(ctx):
    ci = ctx.repo.cls('tract_parse:TractParser')
    seeded = {}
    for m in ci.methods.values():
        for n in walk_local(m.node):
            # any store / mutation through parent
            if isinstance(n, ast.Attribute) and isinstance(n.ctx, ast.Store) \
                    and norm(n.value) in ('parent', 'self.parent'):
                ctx.violation('COMMIT', f"TractParser.{m.qualname.split('.')[-1]}: store {norm(n)}",
                              "the parser writes to the Tract it was given",
                              key=f"COMMIT|TractParser|store|{n.attr}", where=common.loc(m, n))
            if isinstance(n, ast.Call) and isinstance(n.func, ast.Attribute) and n.func.attr in MUT \
                    and (norm(n.func.value).startswith('parent.') or norm(n.func.value).startswith('self.parent.')):
                ctx.violation('COMMIT', f"TractParser: {norm(n)[:60]}",
                              "the parser mutates a list of the Tract it was given",
                              key=f"COMMIT|TractParser|mutate|{norm(n.func.value)}", where=common.loc(m, n))
            if isinstance(n, ast.Assign) and any(norm(x).startswith('parent.') or norm(x).startswith('self.parent.')
                                                   for x in ast.walk(n.value) if isinstance(x, ast.Attribute)):
                tgt = norm(n.targets[0])
                v = n.value
                fresh = common.freshness(v)
                if tgt.startswith('self.'):
                    seeded[tgt[5:]] = (norm(v), fresh, n, m)
                    srcs = {x.attr for x in ast.walk(n.value) if isinstance(x, ast.Attribute)
                            and norm(x.value) in ('parent', 'self.parent')}
                    cross = srcs - {tgt[5:]}
                    ctx.tri(srcs == {tgt[5:]}, bool(cross), 'COMMIT',
                            f"TractParser.{tgt[5:]} starts from the tract's own {tgt[5:]}",
                            detail_bad=f"`{norm(n)}` seeds {tgt[5:]} from the tract's {sorted(cross)}: every re-parse copies "
                                       f"entries of another list in again, so the lists grow and get out of step",
                            key=f"COMMIT|TractParser|cross-seed|{tgt[5:]}", where=common.loc(m, n))
    # seeding through a loop: for a in <names>: setattr(self, a, getattr(parent, a)...)
    for m in ci.methods.values():
        for lp in walk_local(m.node):
            if not isinstance(lp, ast.For) or not isinstance(lp.target, ast.Name):
                continue
            def _from_parent(e):
                # getattr(parent, <loop var>) directly or through a local of the loop body
                for g in ast.walk(e):
                    if isinstance(g, ast.Call) and dotted(g.func) == 'getattr' and len(g.args) >= 2 \
                            and norm(g.args[0]) in ('parent', 'self.parent') and norm(g.args[1]) == lp.target.id:
                        return True
                    if isinstance(g, ast.Name):
                        for a_ in ast.walk(lp):
                            if isinstance(a_, ast.Assign) and len(a_.targets) == 1 and norm(a_.targets[0]) == g.id \
                                    and a_.value is not e and any(
                                        isinstance(h, ast.Call) and dotted(h.func) == 'getattr' and len(h.args) >= 2
                                        and norm(h.args[0]) in ('parent', 'self.parent') and norm(h.args[1]) == lp.target.id
                                        for h in ast.walk(a_.value)):
                                return True
                return False
            sets = [c for c in ast.walk(lp) if isinstance(c, ast.Call) and dotted(c.func) == 'setattr' and len(c.args) == 3
                    and norm(c.args[0]) == 'self' and norm(c.args[1]) == lp.target.id and _from_parent(c.args[2])]
            if not sets:
                continue
            it = lp.iter
            names_ = None
            if isinstance(it, ast.Subscript) and isinstance(it.slice, ast.Slice) and norm(it.value).endswith('UNPACKABLES'):
                base_ = list(ctx.fold.get_attr('tract_parse', 'TractParser', 'UNPACKABLES'))
                lo_ = ctx.fold.eval(it.slice.lower, {}, m.module.name) if it.slice.lower is not None else None
                hi_ = ctx.fold.eval(it.slice.upper, {}, m.module.name) if it.slice.upper is not None else None
                if (lo_ is None or isinstance(lo_, int)) and (hi_ is None or isinstance(hi_, int)):
                    names_ = base_[lo_:hi_]
            else:
                v_ = ctx.fold.eval(it, ctx.fold.func_env(m), m.module.name)
                if isinstance(v_, (list, tuple)) and all(isinstance(x, str) for x in v_):
                    names_ = list(v_)
            if names_ is None:
                ctx.undecided('COMMIT', 'TractParser attributes seeded from the parent (loop)', f"`{norm(it)}` does not fold")
                continue
            fr_ = common.freshness(sets[0].args[2])
            for a_ in names_:
                seeded[a_] = (norm(sets[0].args[2]), fr_, lp, m)
    seed_guard(ctx, seeded)
    if len(seeded) < 4:
        ctx.undecided('COMMIT', 'TractParser attributes seeded from the parent', f"only {len(seeded)} explicit seedings recognised")
    for a, (txt, fresh, node, m) in sorted(seeded.items()):
        ctx.tri(fresh == 'fresh', fresh == 'alias', 'COMMIT', f"TractParser.{a} is a copy of the parent's list",
                f"self.{a} = {txt}",
                f"`self.{a} = {txt}` aliases the Tract's own list: appending during a parse "
                f"(even with commit=False) changes the Tract",
                key=f"COMMIT|TractParser|alias|{a}", where=common.loc(m, node))
    ctx.notes['tractparser_seeded'] = sorted(seeded)
    # PLSSParser never receives the PLSSDesc
    fi = ctx.repo.func('PLSSDesc.parse')
    calls = [c for c in walk_local(fi.node) if isinstance(c, ast.Call) and dotted(c.func) == 'PLSSParser']
    for c in calls:
        esc = [norm(a) for a in list(c.args) + [k.value for k in c.keywords]
               if isinstance(a, ast.Name) and a.id == 'self']
        ctx.check(not esc, 'COMMIT', 'PLSSParser does not receive the PLSSDesc object',
                  detail_bad="self is handed to PLSSParser", key="COMMIT|PLSSDesc.parse|escape")
    # preprocessors: construction does not touch the owner
    for spec, cls in (('PLSSDesc.preprocess', 'PLSSPreprocessor'), ('Tract.preprocess', 'TractPreprocessor')):
        fi = ctx.repo.func(spec)
        calls = [c for c in walk_local(fi.node) if isinstance(c, ast.Call) and dotted(c.func) == cls]
        ctx.shape(len(calls) == 1 and not any(isinstance(a, ast.Name) and a.id == 'self'
                                              for a in list(calls[0].args) + [k.value for k in calls[0].keywords]),
                  'COMMIT', f"{spec} builds a fresh {cls} from text only")


def _commit_assigns(ctx):
    for spec, pcls, extra in (('PLSSDesc.parse', 'PLSSParser', ['self.tracts = tracts', 'self.pp_desc = parser.text']),
                              ('Tract.parse', 'TractParser', ['self.pp_desc = parser.text', 'self.parse_complete = True'])):
        fi = ctx.repo.func(spec)
        ifs = [n for n in fi.node.body if isinstance(n, ast.If) and norm(n.test) == 'commit']
        if len(ifs) != 1:
            ctx.undecided('TBL', f"{spec}: commit block", 'single `if commit:` block not recognised')
            continue
        blk = ifs[0]
        t = [norm(s) for s in ast.walk(blk) if isinstance(s, ast.stmt)]
        loop_ok = any(isinstance(s, ast.For) and norm(s.iter) == 'parser.UNPACKABLES'
                      and any(norm(b) == 'setattr(self, attribute, getattr(parser, attribute))' for b in s.body)
                      for s in blk.body)
        ctx.shape(loop_ok, 'TBL', f"{spec}: on commit every UNPACKABLES attribute is assigned from the new parser")
        for e in extra:
            ctx.shape(e in t, 'TBL', f"{spec}: on commit `{e}`")
        ctx.check(not any(isinstance(c, ast.Call) and isinstance(c.func, ast.Attribute)
                          and c.func.attr in ('extend', 'append') and norm(c.func.value).startswith('self.')
                          for c in ast.walk(blk)), 'TBL',
                  f"{spec}: the commit block replaces, never extends",
                  detail_bad="results are appended to the previous ones on commit", key=f"TBL|{spec}|noextend")
    fresh_inputs(ctx)
    fi = ctx.repo.func('PLSSDesc.parse')
    blks = [n for n in fi.node.body if isinstance(n, ast.If) and norm(n.test) == 'commit']
    t = [norm(s) for s in blks[0].body] if blks else []
    for a in ('w_flags', 'e_flags', 'w_flag_lines', 'e_flag_lines'):
        ctx.shape(f"self.{a} = []" in t, 'TBL', f"PLSSDesc.parse wipes {a} on commit")
    # UNPACKABLES name real parser attributes
    for cls, mod in (('PLSSParser', 'plss_parse'), ('TractParser', 'tract_parse')):
        unp = ctx.fold.get_attr(mod, cls, 'UNPACKABLES')
        if isinstance(unp, dict):
            unp = list(unp.values())        # {owner attribute: parser attribute}
        if not isinstance(unp, (list, tuple)) or not all(isinstance(u, str) for u in unp):
            ctx.undecided('TBL', f"{cls}.UNPACKABLES are attributes of {cls}", 'table is not a sequence of names')
            continue
        members = ctx.repo.class_members(ctx.repo.cls(f"{mod}:{cls}"))
        miss = [u for u in unp if u not in members]
        ci_ = ctx.repo.cls(f"{mod}:{cls}")
        dynamic = any(isinstance(c, ast.Call) and dotted(c.func) == 'setattr' and len(c.args) >= 2
                      and norm(c.args[0]) == 'self' and not isinstance(c.args[1], ast.Constant)
                      for m_ in ci_.methods.values() for c in ast.walk(m_.node))
        if miss and dynamic:
            ctx.undecided('TBL', f"{cls}.UNPACKABLES are attributes of {cls}",
                          f"{cls} creates attributes with setattr(self, <name>, ...): membership of {miss} is not decided")
            continue
        ctx.check(not miss, 'TBL', f"{cls}.UNPACKABLES are attributes of {cls}",
                  detail_bad=f"not attributes: {miss}", key=f"TBL|{cls}.UNPACKABLES|members")
    unp = set(ctx.fold.get_attr('tract_parse', 'TractParser', 'UNPACKABLES'))
    ctx.shape({'lots', 'qqs', 'lot_acres', 'aliquots_whole'} <= unp, 'TBL',
              'TractParser.UNPACKABLES carries lots, qqs, lot_acres, aliquots_whole')
    # fresh result containers in the parser
    tp = ctx.repo.func('TractParser.__init__')
    t = [norm(s) for s in walk_local(tp.node) if isinstance(s, ast.Assign)]
    for a, v in (('lots', '[]'), ('qqs', '[]'), ('lot_acres', '{}'), ('aliquots_whole', '[]')):
        ctx.shape(f"self.{a} = {v}" in t, 'FRESH', f"TractParser starts with an empty {a}")
    pp = ctx.repo.func('PLSSParser.__init__')
    t = [norm(s) for s in walk_local(pp.node) if isinstance(s, ast.Assign)]
    for a, v in (('tracts', 'TractList()'), ('w_flags', '[]'), ('e_flags', '[]'),
                 ('w_flag_lines', '[]'), ('e_flag_lines', '[]'), ('tract_components', '[]')):
        ctx.shape(f"self.{a} = {v}" in t, 'FRESH', f"PLSSParser starts with an empty {a}")


def fresh_inputs(ctx, specs=(('PLSSDesc.parse', 'PLSSParser', 'plss_parse'), ('Tract.parse', 'TractParser', 'tract_parse'))):
    """FRESH: nothing handed to the parser derives from an attribute that a
    committed parse overwrites (the parse would feed on its own output)."""
    for spec, pcls, mod in specs:
        fi = ctx.repo.func(spec)
        try:
            committed = set(ctx.fold.get_attr(mod, pcls, 'UNPACKABLES'))
        except AnalysisError:
            committed = set()
        if pcls.endswith('Preprocessor'):
            committed = {'pp_desc'}
        for n in walk_local(fi.node):
            if isinstance(n, ast.Attribute) and isinstance(n.ctx, ast.Store) and norm(n.value) == 'self' \
                    and ('commit', True) in [(t, pol) for _e, t, pol in facts_at(n)]:
                committed.add(n.attr)
        calls = [c for c in walk_local(fi.node) if isinstance(c, ast.Call) and dotted(c.func) == pcls]
        if not calls:
            ctx.undecided('FRESH', f"{spec}: parser inputs", f"no {pcls}(...) call found")
        for c in calls:
            class _K:           # positional arguments are examined like keywords
                def __init__(self, arg, value):
                    self.arg, self.value = arg, value
            for k in list(c.keywords) + [_K(f"#{i}", a) for i, a in enumerate(c.args)]:
                if k.arg is None or (k.arg == 'parent' and norm(k.value) == 'self') or norm(k.value) == 'self':
                    continue
                prov = flow.provenance(fi.node, k.value)
                fed = sorted(a for a in flow.prov_attrs(prov) if a.startswith('self.') and a[5:] in committed)
                ctx.check(not fed, 'FRESH', f"{spec}: parser input {k.arg} is independent of committed results",
                          f"{k.arg}={norm(k.value)}",
                          f"{k.arg}={norm(k.value)} derives from {fed}, which a committed parse overwrites: "
                          f"a re-parse starts from the previous parse's output",
                          key=f"FRESH|{spec}|{k.arg}", where=common.loc(fi, c))


def _fresh(ctx):
    ci = ctx.repo.cls('tract_parse:TractParser')
    unp = set(ctx.fold.get_attr('tract_parse', 'TractParser', 'UNPACKABLES'))
    seeded = set(ctx.notes.get('tractparser_seeded', []))
    produced = set()
    for m in ci.methods.values():
        for n in walk_local(m.node):
            if isinstance(n, ast.Call) and isinstance(n.func, ast.Attribute) \
                    and n.func.attr in ('append', 'extend') and norm(n.func.value).startswith('self.'):
                produced.add(norm(n.func.value)[5:])
        # nested helpers
    for fi in ctx.repo.funcs.values():
        if fi.qualname.startswith('TractParser.') and fi.outer is not None:
            for n in walk_local(fi.node):
                if isinstance(n, ast.Call) and isinstance(n.func, ast.Attribute) \
                        and n.func.attr in ('append', 'extend') and norm(n.func.value).startswith('self.'):
                    produced.add(norm(n.func.value)[5:])
    for a in sorted(seeded & unp):
        if a in produced:
            ctx.violation('FRESH', f"TractParser.{a}",
                          f"`{a}` is seeded from the Tract, appended to by the parse, and committed back: "
                          f"every committed re-parse adds the parse's own entries again",
                          key=f"FRESH|TractParser|{a}")
        else:
            ctx.ok('FRESH', f"TractParser.{a}", 'seeded and committed back, but the parse never appends to it')
